"""C05 - the solver honours its time and state contract for any model.

Bounded exhaustive exploration of the real DESolver/GenericModel/Coupler driven by a scripted model:
all proposal scripts up to a depth over a symbolic alphabet x clock product x iterator x stop schedule.
Oracles: the statement's own clauses on the observed callback log + bit-for-bit agreement with an
independent reference clock + structural/value agreement with a reference integrator.
"""
import itertools
import math

PROPERTY = 'C05'
LEVEL = 'model_checking'

np = None


def prepare():
    global np, GenericModel, Coupler, SolverType, ExplicitEulerIterator, RK4Iterator
    import numpy as np
    from kawin.GenericModel import GenericModel, Coupler
    from kawin.solver.Solver import SolverType
    from kawin.solver.Iterators import ExplicitEulerIterator, RK4Iterator
    _define()


SYMS = ['zero', 'neg', 'nan', 'inf', 'ninf', 'tiny', 'halfmin', 'min', 'mid', 'max', 'twomax',
        'rem-', 'rem', 'rem+']
T0S = [0.0, 0.1, -5.0, 1e6, 1.0 / 3.0]
DELTAS = [1.0, 0.3, 1e-3, 1e5, 7.0 / 3.0]
FRACS = [(1e-8, 1.0), (0.1, 0.5), (0.25, 0.25), (0.3, 1.0), (0.5, 0.2)]


class Horizon(Exception):
    pass


def _define():
    global ScriptModel, LayoutModel

    class ScriptModel(GenericModel):
        """getDt pops symbols from a script, then proposes +inf; postProcess logs and stops on schedule."""

        def __init__(self, t0, script, stop_at, guard, layout=None):
            super().__init__()
            self.t = t0
            self.script = list(script)
            self.k = 0
            self.stop_at = stop_at
            self.guard = guard
            self.times = []
            self.props = []
            self.layout = layout if layout is not None else [np.array([1.0])]
            self.X = [np.array(v, dtype=float) if not np.isscalar(v) else v for v in self.layout]
            self.log = []
            self.dxdt_calls = []

        def getCurrentX(self):
            return self.t, self.X

        def flattenX(self, X):
            # the documented default handles floats and 1-D arrays only; a model with a 2-D block supplies
            # its own flatten (unflattenX's default reshapes by the reference shape, so it is kept)
            if any(np.asarray(x).ndim > 1 for x in X):
                return np.concatenate([np.asarray(x, dtype=float).ravel() for x in X])
            return super().flattenX(X)

        def resolve(self, sym):
            dtmin = self._minf * self.deltaTime
            dtmax = self._maxf * self.deltaTime
            rem = self.finalTime - self.t
            if sym == 'zero': return 0.0
            if sym == 'neg': return -1.0
            if sym == 'nan': return float('nan')
            if sym == 'inf': return float('inf')
            if sym == 'ninf': return float('-inf')
            if sym == 'tiny': return 1e-300
            if sym == 'halfmin': return 0.5 * dtmin
            if sym == 'min': return dtmin
            if sym == 'mid': return math.sqrt(dtmin * max(dtmax, dtmin)) if dtmin > 0 else 0.5 * dtmax
            if sym == 'max': return dtmax
            if sym == 'twomax': return 2 * dtmax
            if sym == 'rem-': return float(np.nextafter(rem, -np.inf))
            if sym == 'rem': return rem
            if sym == 'rem+': return float(np.nextafter(rem, np.inf))
            raise KeyError(sym)

        def getDt(self, dXdt):
            p = self.resolve(self.script[self.k]) if self.k < len(self.script) else float('inf')
            self.props.append(p)
            return p

        def getdXdt(self, t, x):
            self.dxdt_calls.append((t, _describe(x)))
            return [(-0.5 - 0.25 * i) * np.asarray(xi) * 1.0 for i, xi in enumerate(x)]

        def correctdXdt(self, dt, x, dXdt):
            self.log.append(('correct', dt, _describe(x), _describe(dXdt)))

        def postProcess(self, time, x):
            self.log.append(('post', time, _describe(x)))
            self.times.append(time)
            self.t = time
            self.X = x
            self.k += 1
            if len(self.times) > self.guard:
                raise Horizon()
            return x, (self.stop_at is not None and self.k == self.stop_at)

    LayoutModel = ScriptModel


def _describe(x):
    """Structure descriptor: per top-level entry its shape."""
    out = []
    for xi in x:
        a = np.asarray(xi)
        out.append(tuple(a.shape))
    return tuple(out)


def _iterator(name, rec):
    if name == 'euler':
        return SolverType.EXPLICITEULER
    if name == 'rk4':
        return SolverType.RK4
    base = ExplicitEulerIterator if name == 'wrap-euler' else RK4Iterator

    def wrapped(f, t, X_old, updateX):
        before = np.array(X_old, copy=True)
        out = base(f, t, X_old, updateX)
        rec.append((t, before, np.array(X_old, copy=True)))
        return out
    return wrapped


def ref_clock(t0, delta, minf, maxf, model_props, stop_at):
    """Independent reference clock written from the docstrings: proposals are clamped into
    [dtmin, min(dtmax, remaining)], the upper clamp winning; NaN / non-positive proposals fall to dtmin."""
    tf = t0 + delta
    dtmin, dtmax = minf * (tf - t0), maxf * (tf - t0)
    t, times, k = t0, [], 0
    while t < tf:
        hi = min(dtmax, tf - t)
        p = model_props[k] if k < len(model_props) else float('inf')
        if not (p > dtmin):
            p = dtmin
        if not (p < hi):
            p = hi
        t = t + p
        times.append(t)
        k += 1
        if stop_at is not None and k == stop_at:
            break
        if k > 10000:
            break
    return times


def resolvable(t0, delta, minf):
    return minf * delta >= 8 * float(np.spacing(abs(t0) + delta))


def run_clock_group(case):
    """One clock configuration, every script of the given depth over the alphabet."""
    t0, delta, (minf, maxf), it, stop_at, depth = (case['t0'], case['delta'], case['fracs'], case['it'],
                                                    case['stop'], case['depth'])
    only = case.get('script')
    viol, outcomes = [], set()
    nexec = nstates = 0
    scripts = [tuple(only)] if only is not None else itertools.product(SYMS, repeat=depth)
    for script in scripts:
        r = run_clock_one(t0, delta, minf, maxf, it, stop_at, script, verbose=case.get('verbose'))
        nexec += 1
        nstates += r['steps']
        outcomes.add(r['outcome'])
        for v in r['viol']:
            viol.append(v)
        if len(viol) > 50:
            break
    return {'viol': viol, 'states': nstates, 'transitions': nstates, 'traces': nexec, 'evaluations': nexec,
            'nontrivial_count': len(outcomes),   # distinct step patterns observed in this group
            'outcome': 'n_outcomes=%d' % len(outcomes),
            'info': {'executions': nexec, 'outcomes': sorted(outcomes)[:6]}}


def run_clock_one(t0, delta, minf, maxf, it, stop_at, script, verbose=None):
    tf = t0 + delta
    guard = len(script) + int(math.ceil(1.0 / maxf)) + 3
    rec = []
    m = ScriptModel(t0, script, stop_at, guard)
    m._minf, m._maxf = minf, maxf
    tag = 'clock t0=%r d=%r f=(%g,%g) it=%s stop=%s script=%s' % (t0, delta, minf, maxf, it, stop_at, ','.join(script))
    kw = {}
    if verbose:
        # status printing (every vIt-th iteration and at the end) must not change the contract; the text goes to the redirected stdout
        kw = {'verbose': True, 'vIt': int(verbose)}
        tag += ' verbose vIt=%d' % verbose
    viol = []

    def bad(kind, msg):
        viol.append({'sig': 'clock/%s/f=(%g,%g)/it=%s/stop=%s/%s%s' % (kind, minf, maxf, it, stop_at, ','.join(script), '/verbose' if verbose else ''),
                     'msg': tag + ': ' + msg})
    try:
        m.solve(delta, solverType=_iterator(it, rec), minDtFrac=minf, maxDtFrac=maxf, **kw)
    except Horizon:
        bad('nontermination', 'more than %d accepted steps; times=%r' % (guard, m.times[:8]))
        return {'viol': viol, 'steps': len(m.times), 'outcome': 'horizon'}
    except Exception as e:
        bad('exception', '%s: %s' % (type(e).__name__, e))
        return {'viol': viol, 'steps': len(m.times), 'outcome': 'exception'}
    times = m.times
    n = len(times)
    stopped = stop_at is not None and n == stop_at and (n == 0 or times[-1] < tf or stop_at <= n)
    # (a) strictly increasing from t0
    prev = t0
    for i, t in enumerate(times):
        if not (t > prev):
            bad('not-increasing', 'step %d: %r -> %r' % (i, prev, t))
            break
        prev = t
    # (b) never exceed the end time
    if n and max(times) > tf:
        bad('overshoot', 'max time %r > tf %r (by %g)' % (max(times), tf, max(times) - tf))
    # (d)/(e) ends exactly at tf, or exactly at the scripted stop step
    if stop_at is not None and n >= stop_at:
        if n != stop_at:
            bad('stop-ignored', 'stop requested at step %d, %d steps taken' % (stop_at, n))
    else:
        if n == 0 or times[-1] != tf:
            bad('end-time', 'last time %r != tf %r' % (times[-1] if n else None, tf))
    # (c) step sizes within [minf, maxf]*delta, last one may be shorter (2 ulp of the time stamp slack)
    if minf <= maxf:
        prev = t0
        for i, t in enumerate(times):
            dt = t - prev
            slack = 2 * float(np.spacing(max(abs(t), abs(prev))))
            if dt > maxf * delta + slack:
                bad('step-too-long', 'step %d dt=%r > %r' % (i, dt, maxf * delta))
                break
            last = (i == n - 1) and t >= tf
            if dt < minf * delta - slack and not last:
                bad('step-too-short', 'step %d dt=%r < %r' % (i, dt, minf * delta))
                break
            prev = t
    # conformance with the reference clock, bit for bit
    refp = _props_per_step(m, it)
    ref = ref_clock(t0, delta, minf, maxf, refp, stop_at)
    if ref != times:
        bad('ref-mismatch', 'reference %r vs observed %r' % (ref[:6], times[:6]))
    # callbacks: one getDt per accepted step; iterator wrapper saw an unmodified state vector
    if len(refp) != n:
        bad('getdt-count', '%d getDt calls for %d steps' % (len(refp), n))
    for (t, before, after) in rec:
        if before.tobytes() != after.tobytes():
            bad('iterator-mutated-x', 'at t=%r' % t)
            break
    return {'viol': viol, 'steps': n,
            'outcome': 'steps=%d%s' % (n, ',stopped' if (stop_at is not None and n == stop_at) else '')}


def _props_per_step(m, it):
    return list(m.props)


# ------------------------------------------------------------------------------------------------------
# stage 2: state layouts (structure + values through the real flatten/unflatten and both iterators)

LAYOUTS = {
    'scalar': [2.0],
    'scalar+vec3': [2.0, [1.0, -2.0, 3.0]],
    'vec2+vec1+scalar': [[1.0, 2.0], [3.0], 4.0],
    'npscalar': ['np0d'],
    'mat2x3+scalar': [[[1.0, 2.0, 3.0], [4.0, 5.0, 6.0]], 7.0],
    'vec1': [[5.0]],
    'empty+vec2': [[], [1.0, 2.0]],
}


def _mk_layout(name):
    out = []
    for v in LAYOUTS[name]:
        if v == 'np0d':
            out.append(np.float64(1.5))
        elif isinstance(v, list):
            out.append(np.array(v, dtype=float))
        else:
            out.append(v)
    return out


def _flat(X):
    return np.concatenate([np.asarray(x, dtype=float).ravel() for x in X]) if len(X) else np.zeros(0)


def _coefs(X, offset=0):
    return np.concatenate([np.full(np.asarray(x).size, -0.5 - 0.25 * (i + offset)) for i, x in enumerate(X)])


def ref_integrate(flat0, coef, dts, it):
    """Reference integrator on the flat vector for x' = coef*x (component-wise)."""
    x = flat0.copy()
    out = []
    for dt in dts:
        f = lambda y: coef * y
        if 'euler' in it:
            x = x + f(x) * dt
        else:
            k1 = f(x); k2 = f(x + k1 * dt / 2); k3 = f(x + k2 * dt / 2); k4 = f(x + k3 * dt)
            x = x + (k1 + 2 * k2 + 2 * k3 + k4) / 6 * dt
        out.append(x.copy())
    return out


def run_layout(case):
    lay, it, script, fr = case['layout'], case['it'], case['script'], case['fracs']
    viol = []
    sigbase = 'layout/%s/it=%s/%s' % (lay, it, ','.join(script))

    def bad(kind, msg):
        viol.append({'sig': sigbase + '/' + kind, 'msg': '%s: %s' % (sigbase, msg)})
    X0 = _mk_layout(lay)
    struct0 = _describe(X0)
    rec = []
    m = ScriptModel(0.25, script, None, 40, layout=X0)
    m.X = X0
    m._minf, m._maxf = fr
    x0copy = [np.array(x, copy=True) for x in X0]
    try:
        m.solve(1.5, solverType=_iterator(it, rec), minDtFrac=fr[0], maxDtFrac=fr[1])
    except Exception as e:
        bad('exception', '%s: %s' % (type(e).__name__, e))
        return {'viol': viol, 'states': 0, 'outcome': 'exception'}
    # structure in every callback
    for t, d in m.dxdt_calls:
        if d != struct0:
            bad('getdXdt-structure', 'got %r expected %r' % (d, struct0)); break
    for e in m.log:
        if e[0] == 'correct' and (e[2] != struct0 or e[3] != struct0):
            bad('correctdXdt-structure', 'got %r/%r expected %r' % (e[2], e[3], struct0)); break
        if e[0] == 'post' and e[2] != struct0:
            bad('postProcess-structure', 'got %r expected %r' % (e[2], struct0)); break
    # the model's own initial arrays were not mutated by the solver
    for a, b in zip(x0copy, X0):
        if np.asarray(a).tobytes() != np.asarray(b, dtype=float).tobytes():
            bad('x0-mutated', '%r -> %r' % (a, b)); break
    # values against the reference integrator
    ts = [0.25] + m.times
    dts = [b - a for a, b in zip(ts[:-1], ts[1:])]
    # use the step sizes the solver actually used (log) to avoid subtraction rounding
    dts_used = [e[1] for e in m.log if e[0] == 'correct']
    per = 1 if 'euler' in it else 4
    dts_real = dts_used[per - 1::per] if per == 4 else dts_used
    if len(dts_real) == len(dts):
        refs = ref_integrate(_flat(x0copy), _coefs(x0copy), dts_real, it)
        got = _flat(m.X)
        if refs and not np.allclose(got, refs[-1], rtol=1e-12, atol=0):
            bad('values', 'final %r vs reference %r' % (got, refs[-1]))
    else:
        bad('correct-count', '%d correctdXdt calls for %d steps' % (len(dts_used), len(dts)))
    for (t, before, after) in rec:
        if before.tobytes() != after.tobytes():
            bad('iterator-mutated-x', 'at t=%r' % t); break
    return {'viol': viol, 'states': len(m.times), 'transitions': len(m.times),
            'outcome': 'steps=%d' % len(m.times), 'nontrivial': len(struct0) > 0}


# ------------------------------------------------------------------------------------------------------
# stage 3: Coupler over 2-3 differently shaped models in every order

def run_coupler(case):
    names, it, script, fr = case['layouts'], case['it'], case['script'], case['fracs']
    viol = []
    sigbase = 'coupler/%s/it=%s/%s' % ('+'.join(names), it, ','.join(script))
    if case.get('stop'):
        sigbase += '/stop=%d@%d' % tuple(case['stop'])

    def bad(kind, msg):
        viol.append({'sig': sigbase + '/' + kind, 'msg': '%s: %s' % (sigbase, msg)})
    stop = case.get('stop')          # [member index, step] or None: that member requests a stop in its k-th postProcess

    def build(stop_):
        ms = []
        for j, nme in enumerate(names):
            X0 = _mk_layout(nme)
            mm = ScriptModel(0.0, script if j == case.get('driver', 0) else [], (stop_[1] if (stop_ and stop_[0] == j) else None), 60, layout=X0)
            mm.X = X0
            mm._minf, mm._maxf = fr
            # distinct dynamics per member so that a mis-sliced flat vector changes the values
            mm.off = 3 * j
            mm.getdXdt = (lambda mm_: (lambda t, x: (mm_.dxdt_calls.append((t, _describe(x))) or
                                                      [(-0.5 - 0.25 * (i + mm_.off)) * np.asarray(xi) * 1.0
                                                       for i, xi in enumerate(x)])))(mm)
            ms.append(mm)
        return ms
    full_times = None
    if stop:
        # the same coupled system without the stop request gives the step sequence the stopped run must be a prefix of
        ref_models = build(None)
        cref = Coupler(ref_models)
        try:
            cref.solve(1.0, solverType=_iterator(it, []), minDtFrac=fr[0], maxDtFrac=fr[1])
            full_times = list(cref.time[1:])
        except Exception as e:
            bad('exception', 'reference run without stop: %s: %s' % (type(e).__name__, e))
            return {'viol': viol, 'states': 0, 'outcome': 'exception'}
    models = build(stop)
    structs = [_describe(mm.X) for mm in models]
    x0 = [[np.array(x, copy=True) for x in mm.X] for mm in models]
    c = Coupler(models)
    rec = []
    try:
        c.solve(1.0, solverType=_iterator(it, rec), minDtFrac=fr[0], maxDtFrac=fr[1])
    except Exception as e:
        bad('exception', '%s: %s' % (type(e).__name__, e))
        return {'viol': viol, 'states': 0, 'outcome': 'exception'}
    for mm, s0 in zip(models, structs):
        for t, d in mm.dxdt_calls:
            if d != s0:
                bad('getdXdt-structure', 'got %r expected %r' % (d, s0)); break
        for e in mm.log:
            if e[0] == 'correct' and (e[2] != s0 or e[3] != s0):
                bad('correctdXdt-structure', 'got %r/%r expected %r' % (e[2], e[3], s0)); break
            if e[0] == 'post' and e[2] != s0:
                bad('postProcess-structure', 'got %r expected %r' % (e[2], s0)); break
    # coupler clock: one entry per step, identical to each member's clock, ends at exactly 1.0
    ctimes = list(c.time[1:])
    for mm in models:
        if mm.times != ctimes:
            bad('member-clock', '%r vs coupler %r' % (mm.times[:5], ctimes[:5])); break
    stopped = bool(stop) and full_times is not None and stop[1] <= len(full_times)
    if stopped:
        # a stop request from ANY member ends the coupled run at that step
        if len(ctimes) != stop[1]:
            bad('stop-ignored/member=%d-of-%d' % (stop[0], len(models)),
                'member %d requested a stop at step %d; the coupled run took %d steps (%d without the request)'
                % (stop[0], stop[1], len(ctimes), len(full_times)))
        elif ctimes != full_times[:stop[1]]:
            bad('stop-changes-steps', '%r vs %r' % (ctimes, full_times[:stop[1]]))
        for j, mm in enumerate(models):
            npost = sum(1 for e in mm.log if e[0] == 'post')
            if npost != len(ctimes):
                bad('postProcess-count', 'member %d saw %d postProcess calls for %d steps' % (j, npost, len(ctimes))); break
    elif not ctimes or ctimes[-1] != 1.0:
        bad('end-time', 'coupler ended at %r' % (ctimes[-1] if ctimes else None))
    if any(b <= a for a, b in zip([0.0] + ctimes[:-1], ctimes)):
        bad('not-increasing', repr(ctimes[:6]))
    # values
    dts_used = [e[1] for e in models[0].log if e[0] == 'correct']
    per = 1 if 'euler' in it else 4
    dts_real = dts_used[per - 1::per] if per == 4 else dts_used
    if len(dts_real) == len(ctimes):
        for mm, xx in zip(models, x0):
            refs = ref_integrate(_flat(xx), _coefs(xx, mm.off), dts_real, it)
            got = _flat(mm.X)
            if refs and not np.allclose(got, refs[-1], rtol=1e-12, atol=0):
                bad('values', 'member %s final %r vs reference %r' % (_describe(xx), got, refs[-1])); break
    else:
        bad('correct-count', '%d correctdXdt calls for %d steps' % (len(dts_used), len(ctimes)))
    return {'viol': viol, 'states': len(ctimes), 'transitions': len(ctimes) * len(models),
            'outcome': 'steps=%d%s' % (len(ctimes), ',stopped' if stopped else '')}


# ------------------------------------------------------------------------------------------------------
# stage 3b: a coupled member whose state changes length in postProcess (as the population balance does when it adds or
# merges size classes); the solver documents that the reference shape is refreshed on every iteration

def run_coupler_regrid(case):
    sib, pos, mode, at, it, ncalls = case['sibling'], case['pos'], case['mode'], case['at'], case['it'], case['calls']
    viol = []
    sigbase = 'coupler-regrid/%s/pos=%d/%s/at=%s/it=%s/calls=%d' % (sib, pos, mode, ','.join(map(str, at)), it, ncalls)

    def bad(kind, msg):
        viol.append({'sig': 'coupler-regrid/%s/%s/it=%s' % (kind, mode, it), 'msg': '%s: %s' % (sigbase, msg)})

    class Regrid(ScriptModel):
        def __init__(self):
            super().__init__(0.0, [], None, 200, layout=[np.array([1.0, 2.0, 3.0, 4.0])])
            self.X = [np.array([1.0, 2.0, 3.0, 4.0])]
            self.bad_struct = []
            self.nsteps = 0

        def getdXdt(self, t, x):
            if _describe(x) != _describe(self.X):
                self.bad_struct.append(('getdXdt', _describe(x), _describe(self.X)))
            return [-0.5 * np.asarray(x[0])]

        def correctdXdt(self, dt, x, dXdt):
            if _describe(x) != _describe(self.X) or _describe(dXdt) != _describe(self.X):
                self.bad_struct.append(('correctdXdt', _describe(x), _describe(dXdt), _describe(self.X)))

        def postProcess(self, time, x):
            if _describe(x) != _describe(self.X):
                self.bad_struct.append(('postProcess', _describe(x), _describe(self.X)))
            self.nsteps += 1
            self.times.append(time)
            self.t = time
            v = np.asarray(x[0], dtype=float)
            if self.nsteps in at:
                v = np.append(v, 1.0) if mode == 'grow' else v[:-1]
            self.X = [v]
            return self.X, False

    members = []
    for j in range(2 if sib != 'two' else 3):
        if j == pos:
            members.append(Regrid())
        else:
            X0 = _mk_layout('scalar+vec3' if sib != 'vec' else 'vec2+vec1+scalar')
            mm = ScriptModel(0.0, [], None, 200, layout=X0)
            mm.X = X0
            mm.off = 3 * j
            mm.struct0 = _describe(X0)
            mm.getdXdt = (lambda mm_: (lambda t, x: (mm_.dxdt_calls.append((t, _describe(x))) or
                                                      [(-0.5 - 0.25 * (i + mm_.off)) * np.asarray(xi) * 1.0
                                                       for i, xi in enumerate(x)])))(mm)
            members.append(mm)
    for mm in members:
        mm._minf, mm._maxf = 0.05, 0.2
    x0 = [[np.array(x, copy=True) for x in mm.X] for mm in members]
    c = Coupler(members)
    try:
        for _ in range(ncalls):
            c.solve(1.0, solverType=_iterator(it, []), minDtFrac=0.05, maxDtFrac=0.2)
    except Exception as e:
        bad('exception', '%s: %s' % (type(e).__name__, e))
        return {'viol': viol, 'states': 0, 'outcome': 'exception'}
    ctimes = list(c.time[1:])
    if not ctimes or ctimes[-1] != float(ncalls):
        bad('end-time', 'coupler ended at %r, expected %r' % (ctimes[-1] if ctimes else None, float(ncalls)))
    if any(b <= a for a, b in zip([0.0] + ctimes[:-1], ctimes)):
        bad('not-increasing', repr(ctimes[:8]))
    for j, mm in enumerate(members):
        if j == pos:
            if mm.bad_struct:
                bad('structure', 'regridding member saw %r' % (mm.bad_struct[0],))
            want_len = 4 + (len(at) if mode == 'grow' else -len(at))
            if len(mm.X[0]) != want_len:
                bad('final-length', 'regridding member ends with %d entries, expected %d' % (len(mm.X[0]), want_len))
        else:
            for t, d in mm.dxdt_calls:
                if d != mm.struct0:
                    bad('sibling-structure', 'sibling %d got %r expected %r' % (j, d, mm.struct0))
                    break
            # sibling values against the reference integrator (its dynamics do not depend on the regridding member)
            dts = [b - a for a, b in zip([0.0] + ctimes[:-1], ctimes)]
            refs = ref_integrate(_flat(x0[j]), _coefs(x0[j], mm.off), dts, it)
            got = _flat(mm.X)
            if refs and not np.allclose(got, refs[-1], rtol=1e-9, atol=0):
                bad('sibling-values', 'sibling %d final %r vs reference %r' % (j, got, refs[-1]))
    return {'viol': viol, 'states': len(ctimes), 'transitions': len(ctimes) * len(members), 'outcome': 'steps=%d' % len(ctimes)}


# ------------------------------------------------------------------------------------------------------
# stage 4 (engine E5): TLA+ model of the clock protocol checked by TLC; EVERY behaviour of the model (all paths of the
# dumped, acyclic state graph) is replayed against the real solver with dyadic tick sizes so that float arithmetic is exact

TLA_CFGS = ['8_1_3', '8_2_4', '8_3_8', '16_4_8', '4_1_4', '8_5_3']
PATH_CAP = 400000


def _parse_dot(path):
    import re
    nodes, edges = {}, {}
    node_re = re.compile(r'^(-?\d+) \[label="(.*?)"[,\]]')
    edge_re = re.compile(r'^(-?\d+) -> (-?\d+) \[label="Step\((\d+)\)"')
    with open(path) as f:
        for line in f:
            m = edge_re.match(line)
            if m:
                edges.setdefault(m.group(1), []).append((m.group(2), int(m.group(3))))
                continue
            m = node_re.match(line)
            if m:
                d = {}
                for part in m.group(2).split('\\n'):
                    part = part.replace('/\\\\', '').strip()
                    if '=' in part:
                        k, v = part.split('=', 1)
                        v = v.strip()
                        d[k.strip()] = (v == 'TRUE') if v in ('TRUE', 'FALSE') else int(v)
                nodes[m.group(1)] = d
    return nodes, edges


def run_tla(case):
    import os, shutil, subprocess, tempfile
    name = case['cfg']
    TF, DMIN, DMAX = [int(v) for v in name.split('_')]
    here = os.path.join(os.path.dirname(os.path.dirname(os.path.abspath(__file__))), 'models')
    tmp = tempfile.mkdtemp(prefix='tlc_c05_')
    try:
        dot = os.path.join(tmp, 'g.dot')
        cmd = ['tlc', '-workers', '1', '-noGenerateSpecTE', '-deadlock', '-metadir', os.path.join(tmp, 'meta'),
               '-dump', 'dot,actionlabels', dot, '-config', 'SolverClock_%s.cfg' % name, 'SolverClock.tla']
        # TLC creates a scratch directory of its own under java.io.tmpdir and leaves it behind: keep it inside the directory removed below
        env = dict(os.environ, JAVA_TOOL_OPTIONS=(os.environ.get('JAVA_TOOL_OPTIONS', '') + ' -Djava.io.tmpdir=' + tmp).strip())
        p = subprocess.run(cmd, cwd=here, capture_output=True, text=True, timeout=600, env=env)
        out = p.stdout + p.stderr
        viol = []
        if 'No error has been found' not in out:
            # the model itself violates one of its invariants: a modelling error, reported as such
            raise RuntimeError('TLC did not verify the model %s:\n%s' % (name, out[-2000:]))
        nodes, edges = _parse_dot(dot)
    finally:
        shutil.rmtree(tmp, ignore_errors=True)
    roots = [k for k, d in nodes.items() if d['n'] == 0]
    tick = 2.0 ** -6
    INF = TF + DMAX + 1
    npaths = nsteps = 0
    outcomes = set()
    capped = False
    for t0 in (0.0, 0.5):
        for it in ('euler', 'rk4'):
            for root in roots:
                stop_at = nodes[root]['stopAt'] or None
                # depth-first enumeration of every path root -> terminal
                stack = [(root, [])]
                while stack:
                    node, props = stack.pop()
                    succ = edges.get(node, [])
                    if succ:
                        for dst, pr in succ:
                            stack.append((dst, props + [(pr, nodes[dst]['t'])]))
                        continue
                    npaths += 1
                    if npaths > PATH_CAP:
                        capped = True
                        stack = []
                        break
                    # replay this behaviour on the implementation
                    vals = []
                    for j, (pr, _) in enumerate(props):
                        if pr == 0:
                            vals.append([0.0, -1.0, float('nan')][(npaths + j) % 3])
                        elif pr == INF:
                            vals.append(float('inf'))
                        else:
                            vals.append(pr * tick)
                    m = ScriptModel(t0, [], stop_at, TF + 3)
                    m._minf, m._maxf = DMIN / TF, DMAX / TF
                    m.script_values = vals
                    m.getDt = (lambda mm: (lambda dXdt: (mm.props.append(mm.script_values[mm.k] if mm.k < len(mm.script_values) else float('inf'))
                                                        or mm.props[-1])))(m)
                    try:
                        m.solve(TF * tick, solverType=_iterator(it, []), minDtFrac=DMIN / TF, maxDtFrac=DMAX / TF)
                        got = m.times
                    except Exception as e:
                        got = ['%s: %s' % (type(e).__name__, e)]
                    want = [t0 + tt * tick for (_, tt) in props]
                    nsteps += len(want)
                    if got != want:
                        sig = 'tla/trace-mismatch/cfg=%s/it=%s' % (name, it)
                        if len(viol) < 20:
                            viol.append({'sig': sig, 'msg': 'model behaviour (proposals %r, stop at %r, t0=%r) gives ticks %r = times %r, '
                                         'DESolver gives %r' % ([p_ for p_, _ in props], stop_at, t0, [tt for _, tt in props], want, got)})
                    outcomes.add('steps=%d%s' % (len(want), ',stopped' if (stop_at and len(want) == stop_at and props[-1][1] < TF) else ''))
    return {'viol': viol, 'states': len(nodes), 'transitions': sum(len(v) for v in edges.values()), 'traces': npaths,
            'evaluations': npaths, 'nontrivial_count': len(outcomes), 'outcome': 'n_outcomes=%d' % len(outcomes),
            'info': {'tlc_states': len(nodes), 'tlc_edges': sum(len(v) for v in edges.values()), 'paths_replayed': npaths,
                     'steps_compared': nsteps, 'capped': capped}}


# ------------------------------------------------------------------------------------------------------

def run(ctx):
    quick = ctx.quick
    depth = 3 if quick else 4
    its = ['euler', 'rk4', 'wrap-rk4'] if quick else ['euler', 'rk4', 'wrap-euler', 'wrap-rk4']
    stops = [None, 1, 2, 3]
    ctx.rule = ('every proposal script of length <= depth over a 14-symbol alphabet x (t0, duration, step-fraction) '
                'clock product x iterator x stop schedule, executed on the real GenericModel.solve/DESolver; '
                'non-trivial = group whose scripts produce more than one distinct step pattern')
    ctx.bounds = {'script_depth': depth, 'alphabet': SYMS, 't0': T0S, 'durations': DELTAS, 'fractions': FRACS,
                  'iterators': its, 'stop_at': stops}
    ctx.assumptions = ['clock product restricted to float-resolvable clocks: minFrac*duration >= 8 ulp(|t0|+duration)',
                       'for min fraction > max fraction only termination/time clauses are checked']
    cases = []
    for d in range(0, depth + 1):
        # quick: depth 3 only on a reduced clock set
        for t0 in T0S:
            for delta in DELTAS:
                for fr in FRACS:
                    if not resolvable(t0, delta, fr[0]):
                        continue
                    if quick and d == depth and not (t0 in (0.1, 1e6) and delta in (0.3, 7.0 / 3.0)):
                        continue
                    if (not quick) and d == depth and not (t0 in (0.1, 1e6, 1.0 / 3.0) and delta in (0.3, 1e5, 7.0 / 3.0)):
                        continue
                    for it in its:
                        for s in stops:
                            if s is not None and d == 0 and s > 1:
                                continue
                            cases.append({'t0': t0, 'delta': delta, 'fracs': list(fr), 'it': it, 'stop': s, 'depth': d})
                            if d <= 2 and t0 in (0.1, 1e6):
                                cases.append({'t0': t0, 'delta': delta, 'fracs': list(fr), 'it': it, 'stop': s, 'depth': d,
                                              'verbose': 1 if s is None else 2})
    ctx.product_run('clock', 'checks.c05:run_clock_group', cases, chunksize=1)

    # layouts
    lcases = []
    scripts = [list(s) for k in range(0, 3) for s in itertools.product(['min', 'mid', 'nan', 'rem-', 'twomax'], repeat=k)]
    for lay in LAYOUTS:
        for it in ['euler', 'rk4', 'wrap-euler', 'wrap-rk4']:
            for sc in scripts:
                for fr in [(0.1, 0.5), (0.01, 1.0)]:
                    lcases.append({'layout': lay, 'it': it, 'script': sc, 'fracs': list(fr)})
    ctx.product_run('layout', 'checks.c05:run_layout', lcases)

    # couplers: every ordered pair and (thorough) triple of distinct layouts
    names = ['scalar', 'scalar+vec3', 'vec2+vec1+scalar', 'mat2x3+scalar', 'vec1'] + ([] if quick else ['npscalar'])
    ccases = []
    groups = list(itertools.permutations(names, 2)) + [(a, a) for a in names]
    triples = list(itertools.permutations(names[:4], 3)) if not quick else list(itertools.permutations(names[:3], 3))
    cscripts = [[], ['mid'], ['min', 'mid'], ['nan', 'rem-']]
    for g in groups + triples:
        for it in ['euler', 'rk4']:
            for sc in cscripts:
                for drv in range(len(g)):
                    # the stop request comes from no member, or from each member position in turn (step 1 / 2)
                    for stop in [None] + [[j, k] for j in range(len(g)) for k in ((1, 2) if sc in ([], ['mid']) else (1,))]:
                        ccases.append({'layouts': list(g), 'it': it, 'script': sc, 'fracs': [0.05, 0.5], 'driver': drv, 'stop': stop})
    ctx.product_run('coupler', 'checks.c05:run_coupler', ccases)

    rcases = []
    for sib in ['mixed', 'vec', 'two']:
        for pos in ([0, 1] if sib != 'two' else [0, 1, 2]):
            for mode in ['grow', 'shrink']:
                for at in ([[1], [2], [1, 3]] if quick else [[1], [2], [3], [1, 3], [1, 2, 3]]):
                    for it in ['euler', 'rk4']:
                        for calls in [1, 2]:
                            rcases.append({'sibling': sib, 'pos': pos, 'mode': mode, 'at': at, 'it': it, 'calls': calls})
    ctx.product_run('coupler-regrid', 'checks.c05:run_coupler_regrid', rcases)

    # E5: TLC-checked model, all behaviours replayed on the implementation
    res = ctx.product_run('tla', 'checks.c05:run_tla', [{'cfg': c} for c in (TLA_CFGS[:3] if quick else TLA_CFGS)], chunksize=1)
    for r in res:
        if r.get('info', {}).get('capped'):
            ctx.cap('tla: path cap %d hit' % PATH_CAP)
