"""C14 - nucleation quantities obey classical nucleation theory for every site type.

Bounded exhaustive exploration (full products, no sampling) of
  kawin/precipitation/parameters/Nucleation.py   (Clemm-Fisher factors, NucleationBarrierParameters)
  kawin/precipitation/NucleationRate.py           (barrier, Zeldovich, beta, incubation, rate)
  kawin/precipitation/KWNEuler.py                 (_calcNucleationSites)

Stages
  geometry  site x k lattice: factors against an independent *geometric* reference (the nucleus is the
            union over the grains meeting at the boundary / edge / corner of (grain cone  intersected with
            a ball of radius r whose centre sits r*k behind each bounding plane); volume, alpha/beta
            area and removed boundary area by Gauss-Legendre quadrature), identity b - 2k a = 3c,
            k = 0 limits, signs, scalar = array, invalid-k convention, caller's array untouched
  monotone  volume factor non-increasing on a dense k grid, per site
  limit     parameter objects at k just below / exactly at / above the site limit
  rates     site x k x gamma x Vm x T x Rmin x D x x0 x beta function; inner loop over the dG lattice and the
            time lattice: clauses of the statement + sphere relations + scalar/array agreement
  incub     non-isothermal incubation time over (Z, beta, grid) lattices: finite, non-negative
  sites     _calcNucleationSites over site-type pairs x matrix settings x PSD occupation chains
  history   E2 (ctx.bfs): all setter/read histories of length <= 4 on NucleationBarrierParameters and
            PrecipitateParameters; after any history every factor equals that of a fresh object built
            from the final parameters (bitwise), or both raise the same exception type
"""
import itertools
import math

PROPERTY = 'C14'
LEVEL = 'exploration'

np = None

KB = None                   # the library's rounded constants (8.314 / 6.022e23) are a convention, not under test:
NA = None                   # taken from kawin.Constants in prepare() so that exp(-G/kT) is compared like for like
FOURPI = 4 * math.pi

SITES = ['bulk', 'dislocations', 'grain boundaries', 'grain edges', 'grain corners']
GBSITES = ['grain boundaries', 'grain edges', 'grain corners']
KMAX = {'grain boundaries': 1.0, 'grain edges': math.sqrt(3) / 2, 'grain corners': math.sqrt(2.0 / 3.0)}
SHORT = {'bulk': 'bulk', 'dislocations': 'disl', 'grain boundaries': 'gb', 'grain edges': 'edge',
         'grain corners': 'corner'}


def prepare():
    global np, nuc, nr, PrecipitateParameters, MatrixParameters, PrecipitateModel, leggauss
    import numpy as np
    from numpy.polynomial.legendre import leggauss
    import kawin.precipitation.parameters.Nucleation as nuc
    import kawin.precipitation.NucleationRate as nr
    from kawin.precipitation import PrecipitateParameters, MatrixParameters, PrecipitateModel
    import kawin.Constants as kc
    global KB, NA
    KB, NA = kc.BOLTZMANN_CONSTANT, kc.AVOGADROS_NUMBER
    np.seterr(all='ignore')


def _descr(site):
    return {'bulk': nuc.BulkDescription, 'dislocations': nuc.DislocationDescription,
            'grain boundaries': nuc.GrainBoundaryDescription, 'grain edges': nuc.GrainEdgeDescription,
            'grain corners': nuc.GrainCornerDescription}[site]()


# ------------------------------------------------------------------------------------------------------
# independent geometric reference (r = 1)
#
# Clemm & Fisher: the nucleus on a boundary between G grains is bounded, inside every grain, by a spherical
# surface of radius r that meets each adjacent boundary plane at the contact angle theta with
# cos(theta) = k = gamma_gb / (2 gamma).  A sphere of radius r meets a plane at that angle iff its centre
# lies at distance r*k on the *other* side of the plane.  The grain is a convex cone with apex at the
# origin (half space / 120 degree wedge / trihedral cone with tetrahedral edges), so by symmetry the
# centre is C = -t*w, w = cone axis, t = r k / (m.w) for the inward unit normals m of the bounding planes.
# The origin is inside every ball while t < r, i.e. k < m.w  (1, sqrt(3)/2, sqrt(2/3): the site limits),
# and the body is star shaped about the origin:
#   rho(u) = u.C + sqrt((u.C)^2 + r^2 - t^2)          distance to the spherical surface in direction u
#   volume  c r^3 = G * int_cone rho^3/3 dOmega
#   area    b r^2 = G * int_cone rho^2 / (u.n) dOmega,   n = (rho u - C)/r
#   removed a r^2 = sum over planar faces of int rho^2/2 dpsi

def _gl(a, b, n):
    x, w = leggauss(n)
    return 0.5 * (b - a) * x + 0.5 * (b + a), 0.5 * (b - a) * w


def _rho(U, C, t):
    uc = U @ C
    return uc + np.sqrt(uc * uc + 1.0 - t * t)


def _grain(U, W, C, t):
    r_ = _rho(U, C, t)
    vol = np.sum(W * r_ ** 3 / 3.0)
    nrm = r_[:, None] * U - C[None, :]
    area = np.sum(W * r_ ** 2 / np.sum(U * nrm, axis=1))
    return vol, area


def ref_factors(site, k, n):
    """(a, b, c) = (removed boundary, surface area, volume) factors by quadrature of the geometry."""
    if site == 'grain boundaries':
        w = np.array([0.0, 0.0, 1.0])
        t = k / 1.0
        C = -t * w
        th, wt = _gl(0.0, np.pi / 2, n)
        U = np.stack([np.sin(th), 0 * th, np.cos(th)], -1)
        vol, area = _grain(U, 2 * np.pi * np.sin(th) * wt, C, t)       # axisymmetric
        a = np.pi * _rho(np.array([[1.0, 0.0, 0.0]]), C, t)[0] ** 2     # disc in the boundary plane
        return a, 2 * area, 2 * vol
    if site == 'grain edges':
        w = np.array([1.0, 0.0, 0.0])
        t = k / (math.sqrt(3) / 2)          # the wedge planes are at +-60 deg of the bisector: m.w = cos 30
        C = -t * w
        th, wt = _gl(0.0, np.pi, n)
        ph, wp = _gl(-np.pi / 3, np.pi / 3, n)
        TH, PH = np.meshgrid(th, ph, indexing='ij')
        W = (wt[:, None] * wp[None, :] * np.sin(TH)).ravel()
        U = np.stack([np.sin(TH) * np.cos(PH), np.sin(TH) * np.sin(PH), np.cos(TH)], -1).reshape(-1, 3)
        vol, area = _grain(U, W, C, t)
        F = np.stack([np.sin(th) * math.cos(np.pi / 3), np.sin(th) * math.sin(np.pi / 3), np.cos(th)], -1)
        a = 3 * np.sum(wt * _rho(F, C, t) ** 2 / 2)                      # three half planes
        return a, 3 * area, 3 * vol
    if site == 'grain corners':
        e = np.array([[1, 1, 1], [1, -1, -1], [-1, 1, -1], [-1, -1, 1]], float) / math.sqrt(3)   # four edges
        w = -e[3]                                    # grain opposite to edge 4: cone spanned by e1, e2, e3
        e1, e2, e3 = e[0], e[1], e[2]
        m = np.cross(e1, e2)
        m /= np.linalg.norm(m)
        if m @ w < 0:
            m = -m
        t = k / (m @ w)
        C = -t * w
        s, ws = _gl(0.0, 1.0, n)
        q, wq = _gl(0.0, 1.0, n)
        S, Q = np.meshgrid(s, q, indexing='ij')      # Duffy map of the flat triangle (e1, e2, e3)
        P = e3[None, None, :] + S[..., None] * (e1 - e3) + ((1 - S) * Q)[..., None] * (e2 - e3)
        N = np.cross(e1 - e3, e2 - e3)
        dA = np.linalg.norm(N)
        N = N / dA
        Pn = np.linalg.norm(P, axis=-1)
        W = (np.abs(P @ N) / Pn ** 3 * dA * (1 - S) * ws[:, None] * wq[None, :]).ravel()
        U = (P / Pn[..., None]).reshape(-1, 3)
        vol, area = _grain(U, W, C, t)
        ang = math.acos(float(e1 @ e2))               # 109.47 deg sector between two edges
        perp = e2 - (e1 @ e2) * e1
        perp /= np.linalg.norm(perp)
        ps, wps = _gl(0.0, ang, n)
        F = np.cos(ps)[:, None] * e1 + np.sin(ps)[:, None] * perp
        a = 6 * np.sum(wps * _rho(F, C, t) ** 2 / 2)                     # six planar sectors
        return a, 4 * area, 4 * vol
    raise KeyError(site)


def cond_tol(site, k):
    """Absolute rounding allowance of the closed forms: they subtract O(1) terms and contain
    arcsin/arccos of arguments that tend to 1 (edge) or of a 0/0 ratio (corner) as k -> kmax; an absolute
    rounding error of ~1e-16 in those arguments is amplified by at most 1/eps_k, eps_k = 1 - k/kmax
    (observed: corner area factor off by 2.4e-3 at eps_k = 1e-12, 1e-6 at 1e-9)."""
    e = max(1.0 - k / KMAX[site], 1e-16)
    return 1e-13 / e


K_FRACS_Q = [0.0, 1e-12, 1e-6, 0.01, 0.1, 0.3, 0.5, 0.7, 0.9, 0.99]
K_FRACS_T = [0.0, 1e-12, 1e-9, 1e-6, 1e-3, 0.01, 0.05, 0.1, 0.2, 0.3, 0.4, 0.5, 0.6, 0.7, 0.8, 0.9, 0.95,
             0.99, 0.999]
K_FRACS_NEAR = [1 - 1e-4, 1 - 1e-5, 1 - 1e-6]       # only signs / identity / finiteness (quadrature not used)


def run_geometry(case):
    site, f = case['site'], case['kfrac']
    kmax = KMAX[site]
    k = kmax * f
    d = _descr(site)
    viol = []
    sig0 = 'geometry/site=%s' % SHORT[site]

    def bad(kind, msg):
        viol.append({'sig': '%s/%s' % (sig0, kind), 'msg': 'site=%s k=%.17g (k/kmax=%r): %s' % (site, k, f, msg)})
    try:
        a = float(d.gbRemoval(k))
        b = float(d.areaFactor(k))
        c = float(d.volumeFactor(k))
        ar = float(d.areaRemoval(k))
    except Exception as e:
        bad('exception', '%s: %s' % (type(e).__name__, e))
        return {'viol': viol, 'outcome': 'exception'}
    tol = cond_tol(site, k)
    # finiteness and sign
    for nme, v in (('gbRemoval', a), ('areaFactor', b), ('volumeFactor', c), ('areaRemoval', ar)):
        if not math.isfinite(v):
            bad('nonfinite/' + nme, '%s = %r' % (nme, v))
        elif v < -tol:
            bad('negative/' + nme, '%s = %r < 0 (rounding allowance %.1e)' % (nme, v, tol))
    # identity  b - 2 k a = 3 c     (exact algebraic identity of the closed forms; 1e-13 ~ 64 ulp(4 pi))
    idn = b - 2 * k * a - 3 * c
    if not abs(idn) <= 1e-13 + tol * 1e-2:
        bad('identity', 'b - 2k a - 3c = %r (a=%r b=%r c=%r)' % (idn, a, b, c))
    # areaRemoval is the radius of the disc with the removed area:  pi * ar^2 = a
    if a >= 0 and not abs(math.pi * ar * ar - a) <= 1e-13 + 1e-13 * abs(a):
        bad('areaRemoval', 'pi*areaRemoval^2 = %r vs gbRemoval %r' % (math.pi * ar * ar, a))
    # k = 0: sphere
    if f == 0.0:
        if not abs(b - FOURPI) <= 1e-13:
            bad('k0/areaFactor', 'areaFactor(0) = %r, sphere 4 pi = %r' % (b, FOURPI))
        if not abs(c - FOURPI / 3) <= 1e-13:
            bad('k0/volumeFactor', 'volumeFactor(0) = %r, sphere 4 pi/3 = %r' % (c, FOURPI / 3))
    out = 'checked'
    if case.get('quad', True):
        n1, n2 = (48, 72) if case.get('coarse') else (80, 120)
        r1 = ref_factors(site, k, n1)
        r2 = ref_factors(site, k, n2)
        qerr = max(abs(x - y) for x, y in zip(r1, r2))
        if qerr > 1e-10:
            raise RuntimeError('reference quadrature not converged: %r at %s k=%r' % (qerr, site, k))
        # tolerance: quadrature self-estimate + 1e-11 (GL on analytic integrands) + closed-form conditioning
        qtol = 1e-11 + 10 * qerr + tol
        for nme, v, r in (('gbRemoval', a, r2[0]), ('areaFactor', b, r2[1]), ('volumeFactor', c, r2[2])):
            if not abs(v - r) <= qtol:
                bad('ref-mismatch/' + nme, '%s = %.15g but the geometric body has %.15g (diff %.3e, tol %.1e)'
                    % (nme, v, r, v - r, qtol))
        out = 'checked+quadrature'
    # scalar = array, caller's array untouched, invalid convention
    arr = np.array([k, 0.5 * k, kmax, kmax * 1.5, k])
    keep = arr.copy()
    for nme, fn, sc in (('gbRemoval', d.gbRemoval, a), ('areaFactor', d.areaFactor, b),
                        ('volumeFactor', d.volumeFactor, c), ('areaRemoval', d.areaRemoval, ar)):
        va = fn(arr)
        if arr.tobytes() != keep.tobytes():
            bad('argument-mutated/' + nme, 'caller array changed to %r' % arr)
            arr = keep.copy()
        if va.shape != arr.shape:
            bad('shape/' + nme, 'shape %r for input %r' % (va.shape, arr.shape))
            continue
        if not (va[0] == sc and va[4] == sc):
            bad('scalar-vs-array/' + nme, 'array %r / %r vs scalar %r' % (va[0], va[4], sc))
        if not (np.isnan(va[2]) and np.isnan(va[3])):
            bad('invalid-k/' + nme, 'k >= kmax gives %r, %r (documented: nan)' % (va[2], va[3]))
        vb = fn(arr, setInvalidToNan=False)
        if not (vb[2] == -1 and vb[3] == -1):
            bad('invalid-k-internal/' + nme, 'k >= kmax gives %r, %r (documented: -1)' % (vb[2], vb[3]))
    return {'viol': viol, 'states': 1, 'transitions': 4, 'outcome': out,
            'info': {'a': a, 'b': b, 'c': c}}


def run_monotone(case):
    site, n = case['site'], case['n']
    d = _descr(site)
    kmax = KMAX[site]
    viol = []
    fr = np.linspace(0.0, 0.999, n)
    ks = fr * kmax
    c = d.volumeFactor(ks)
    b = d.areaFactor(ks)
    a = d.gbRemoval(ks)
    nbad = 0
    for i in range(n - 1):
        # rounding allowance of the closed forms at the larger k
        if not c[i + 1] <= c[i] + cond_tol(site, ks[i + 1]):
            nbad += 1
            if nbad == 1:
                viol.append({'sig': 'monotone/site=%s/volumeFactor' % SHORT[site],
                             'msg': 'volumeFactor(%r) = %r > volumeFactor(%r) = %r' % (ks[i + 1], c[i + 1], ks[i], c[i])})
    for nme, v in (('volumeFactor', c), ('areaFactor', b), ('gbRemoval', a)):
        j = np.where(~(v >= -np.array([cond_tol(site, k) for k in ks])))[0]
        if len(j):
            viol.append({'sig': 'monotone/site=%s/negative/%s' % (SHORT[site], nme),
                         'msg': '%s(%r) = %r' % (nme, ks[j[0]], v[j[0]])})
    # bulk-like sites: constants
    return {'viol': viol, 'states': n, 'transitions': n - 1, 'outcome': 'decreasing' if not nbad else 'not-decreasing'}


def run_constant_sites(case):
    """bulk / dislocations: sphere factors for every k, not a grain boundary site."""
    site = case['site']
    d = _descr(site)
    viol = []
    ks = np.array([0.0, 0.1, 0.5, 0.99, 1.0, 5.0])
    for nme, fn, want in (('areaFactor', d.areaFactor, FOURPI), ('volumeFactor', d.volumeFactor, FOURPI / 3),
                          ('gbRemoval', d.gbRemoval, 0.0), ('areaRemoval', d.areaRemoval, 1.0)):
        v = fn(ks)
        if v.shape != ks.shape or not np.all(np.abs(v - want) <= 1e-14 * max(1.0, want)):
            viol.append({'sig': 'geometry/site=%s/constant/%s' % (SHORT[site], nme), 'msg': '%r, expected %r' % (v, want)})
        s = fn(0.3)
        if not abs(float(s) - want) <= 1e-14 * max(1.0, want):
            viol.append({'sig': 'geometry/site=%s/constant-scalar/%s' % (SHORT[site], nme), 'msg': '%r' % s})
    if d.isGrainBoundaryNucleation:
        viol.append({'sig': 'geometry/site=%s/isGrainBoundaryNucleation' % SHORT[site], 'msg': 'True'})
    return {'viol': viol, 'states': len(ks), 'outcome': 'constant'}


# ------------------------------------------------------------------------------------------------------
# limit: parameter objects around k = kmax

def _find_pair(site, rel):
    """(gamma, gbEnergy) such that the object's GBk is below / exactly at / above the site limit."""
    d = _descr(site)
    kmax = d.maxRatio
    for g in (0.15, 0.25, 0.1, 0.2, 0.3, 0.35, 0.45, 0.5, 0.55, 0.6, 0.7, 0.05, 0.0625, 0.125):
        e = 2 * g * kmax
        if rel == 'at':
            for ee in (e, np.nextafter(e, 0), np.nextafter(e, 1)):
                if d.gbRatio(ee, g) == kmax:
                    return g, float(ee)
        elif rel == 'above':
            ee = float(np.nextafter(e, 1))
            while not d.gbRatio(ee, g) > kmax:
                ee = float(np.nextafter(ee, 1))
            return g, ee
        elif rel == 'far-above':
            return g, 3 * e
        elif rel == 'below':
            return g, e * (1 - 1e-3)
    raise RuntimeError('no (gamma, gbEnergy) pair found for %s %s' % (site, rel))


def run_limit(case):
    site, rel, via = case['site'], case['rel'], case['via']
    g, e = _find_pair(site, rel)
    viol = []
    if via == 'barrier':
        p = nuc.NucleationBarrierParameters(site=site, gamma=g, gbEnergy=e)
        nucp = p
    else:
        pp = PrecipitateParameters('beta')
        pp.gamma = g
        pp.nucleation.gbEnergy = e
        pp.nucleation.setNucleationType(site)
        nucp = pp.nucleation
    kmax = KMAX[site]
    res = {}
    for nme in ('areaFactor', 'volumeFactor', 'gbRemoval', 'areaRemoval'):
        try:
            res[nme] = float(getattr(nucp, nme))
        except ValueError:
            res[nme] = 'ValueError'
        except Exception as ex:
            res[nme] = 'EXC:' + type(ex).__name__
    kk = nucp.GBk
    tag = 'site=%s gamma=%r gbEnergy=%r GBk=%.17g kmax=%.17g via=%s' % (site, g, e, kk, kmax, via)
    for nme, v in res.items():
        if isinstance(v, str) and v.startswith('EXC:'):
            viol.append({'sig': 'limit/site=%s/%s/unexpected-exception' % (SHORT[site], rel), 'msg': tag + ' %s -> %s' % (nme, v)})
        elif rel == 'below':
            if v == 'ValueError' or not (math.isfinite(v) and v >= 0):
                viol.append({'sig': 'limit/site=%s/below/%s' % (SHORT[site], nme), 'msg': tag + ' %s -> %r' % (nme, v)})
        else:
            # the object documents "y_gb / 2*y_int must be below kmax" and the descriptions mark k >= kmax as
            # invalid (-1 / nan): the only acceptable answers are ValueError or a finite non-negative factor
            if v != 'ValueError' and not (math.isfinite(v) and v >= 0):
                viol.append({'sig': 'limit/site=%s/k-%s-kmax/invalid-marker-returned' % (SHORT[site], rel),
                             'msg': tag + ': %s = %r is handed out as a geometric factor (no ValueError)' % (nme, v)})
    # consequence for the rate chain (only reported through the factor clause above; shown in info)
    return {'viol': viol, 'states': 1, 'transitions': 4, 'outcome': '%s:%s' % (rel, 'raise' if 'ValueError' in res.values() else 'value'),
            'info': {'GBk': kk, 'res': res}}


# ------------------------------------------------------------------------------------------------------
# rates

class StubTherm:
    """Duck-typed thermodynamics for the beta functions (E4): constant tracer diffusivities, constant
    tie-line, driving force looked up from a table keyed by the composition."""

    def __init__(self, D, xa=0.02, xb=0.25, ne=2, dgs=None, Vm=1e-5):
        self.D, self.xa, self.xb, self.numElements, self.dgs, self.Vm = D, xa, xb, ne, dgs, Vm

    def getTracerDiffusivity(self, x, T, removeCache=False):
        n = len(np.atleast_1d(T))
        return np.tile(np.array([0.5 * self.D, self.D]), (n, 1))

    def getInterfacialComposition(self, T, gExtra, precPhase=None):
        T = np.atleast_1d(T)
        return self.xa * np.ones(T.shape), self.xb * np.ones(T.shape)

    def impingementFactor(self, x, T, precPhase=None, removeCache=False, searchDir=None):
        return 1.0 / ((self.xb - self.xa) ** 2 / (self.xa * self.D))

    def getDrivingForce(self, x, T, precPhase=None, removeCache=False):
        x = np.asarray(x, dtype=float).reshape(-1)
        idx = np.rint(x * 1000).astype(int) - 1
        dg = np.array([self.dgs[i] for i in idx]) * self.Vm
        return dg, self.xb * np.ones(len(x))


DG_T = [-1e9, -1.0, 0.0, 1e-3, 1.0, 1e4, 1e6, 1e7, 3e7, 1e8, 3e8, 1e9, 3e9, 1e10, 1e11]
DG_Q = [-1e9, 0.0, 1e-3, 1e4, 1e7, 1e8, 1e9, 1e10, 1e11]


def _mk_prec(site, gamma, kfrac, Vm, Rmin):
    p = PrecipitateParameters('beta')
    p.gamma = gamma
    if site in KMAX:
        p.nucleation.gbEnergy = 2 * gamma * KMAX[site] * kfrac
    else:
        p.nucleation.gbEnergy = 0.3 * kfrac
    p.nucleation.setNucleationType(site)
    p.volume.setVolume(Vm, 'VM', 4)
    p.Rmin = Rmin
    return p


def _beta(fn, therm, x, T, R, matrix, prec):
    if fn == 'b1':
        return nr.betaBinary1(therm, x, T, R, matrix, prec)
    if fn == 'b2':
        return nr.betaBinary2(therm, x, T, R, matrix, prec)
    return nr.betaMulti(therm, np.atleast_2d(np.array([np.atleast_1d(x)[0], 0.01])) * np.ones((len(np.atleast_1d(T)), 1)),
                        T, R, matrix, prec)


def run_rates(case):
    site, gamma, kf, Vm, T, Rmin, D, x0, bfn = (case[k] for k in ('site', 'gamma', 'kfrac', 'Vm', 'T', 'Rmin', 'D', 'x0', 'beta'))
    dgs = case['dgs']
    viol = []
    outs = set()
    tagp = 'site=%s gamma=%r k/kmax=%r Vm=%r T=%r Rmin=%r D=%r x0=%r beta=%s' % (site, gamma, kf, Vm, T, Rmin, D, x0, bfn)
    sg = SHORT[site]

    def bad(sig, msg):
        viol.append({'sig': sig, 'msg': tagp + ': ' + msg})
    prec = _mk_prec(site, gamma, kf, Vm, Rmin)
    sphere = _mk_prec('bulk', gamma, kf, Vm, Rmin)
    matrix = MatrixParameters(['A'])
    matrix.volume.setVolume(1e-5, 'VM', 4)
    therm = StubTherm(D)
    try:
        cfac = float(prec.nucleation.volumeFactor)
        afac = float(prec.nucleation.areaFactor)
    except Exception as e:
        bad('rates/site=%s/factor-exception' % sg, '%s: %s' % (type(e).__name__, e))
        return {'viol': viol, 'outcome': 'exception'}
    dga = np.array(dgs, dtype=float)
    Ta = T * np.ones(len(dga))
    xa = x0 * np.ones(len(dga))
    nst = 0
    try:
        Ra, Ga = nr.nucleationBarrier(dga, prec)
        Rs, Gs = nr.nucleationBarrier(dga, sphere)
        Za = nr.zeldovich(Ta, Ra, prec)
        Ba = _beta(bfn, therm, xa, Ta, Ra, matrix, prec)
        taua = nr.incubationTime(Ba, Za, matrix)
        Ja = nr.nucleationRate(Za, Ba, Ga, Ta, taua, time=np.inf)
        Rna = nr.nucleationRadius(Ta, Ra, prec)
    except Exception as e:
        bad('rates/site=%s/exception' % sg, '%s: %s' % (type(e).__name__, e))
        return {'viol': viol, 'outcome': 'exception'}
    for nme, arr in (('Rcrit', Ra), ('Gcrit', Ga), ('Z', Za), ('beta', Ba), ('tau', taua), ('rate', Ja), ('Rnuc', Rna)):
        if np.shape(arr) != dga.shape:
            bad('rates/site=%s/shape/%s' % (sg, nme), 'shape %r for %d driving forces' % (np.shape(arr), len(dga)))
            return {'viol': viol, 'outcome': 'shape'}
    clipped_bad = False
    okall = True
    prevJ, prevdg = None, None
    for i, dg in enumerate(dgs):
        R, G, Z, B, tau, J = (float(v[i]) for v in (Ra, Ga, Za, Ba, taua, Ja))
        nst += 1
        t2 = 'dG=%r: ' % dg
        if dg <= 0:
            outs.add('dG<=0')
            if not (R == 0 and G == 0 and Z == 0 and B == 0 and tau == 0 and J == 0):
                bad('rates/site=%s/nonpositive-dG-nonzero' % sg, t2 + 'R=%r G=%r Z=%r beta=%r tau=%r rate=%r' % (R, G, Z, B, tau, J))
            continue
        Rstar = 2 * gamma / dg
        clipped = Rstar < Rmin
        outs.add('clipped' if clipped else 'unclipped')
        # critical radius: at least Rmin, and that of a sphere  max(2 gamma / dG, Rmin)
        if not R >= Rmin:
            bad('rates/site=%s/Rcrit-below-Rmin' % sg, t2 + 'Rcrit=%r < Rmin=%r' % (R, Rmin))
        # 1e-9: (b gamma - a gbE)/(3c) cancels two O(eps_k) terms to O(eps_k^2) (k/kmax <= 0.99 -> 1e-12 loss at most)
        if not abs(R - max(Rstar, Rmin)) <= 1e-9 * max(Rstar, Rmin):
            bad('rates/site=%s/Rcrit-vs-sphere' % sg, t2 + 'Rcrit=%r, sphere max(2 gamma/dG, Rmin)=%r' % (R, max(Rstar, Rmin)))
        if float(Rs[i]) != 0 and not abs(R - float(Rs[i])) <= 1e-9 * float(Rs[i]):
            bad('rates/site=%s/Rcrit-vs-bulk-site' % sg, t2 + 'Rcrit=%r, bulk site gives %r' % (R, float(Rs[i])))
        # barrier: finite, non-negative, = spherical barrier * c / (4 pi / 3)
        gref = (FOURPI / 3) * gamma * max(Rstar, Rmin) ** 2 * (cfac / (FOURPI / 3))
        gbulk = float(Gs[i]) * (cfac / (FOURPI / 3))
        okG = True
        if not math.isfinite(G) or G < 0:
            okG = False
            kind = 'Rmin-clip' if clipped else 'unclipped'
            bad('rates/site=%s/barrier-negative/%s' % (sg, kind),
                t2 + 'Gcrit=%r (R*=2 gamma/dG=%r raised to Rmin=%r: %s), volume factor %r' % (G, Rstar, Rmin, clipped, cfac))
        elif not (abs(G - gbulk) <= 1e-9 * gbulk and abs(G - gref) <= 1e-9 * gref):
            okG = False
            kind = 'Rmin-clip' if clipped else 'unclipped'
            bad('rates/site=%s/barrier-vs-sphere/%s' % (sg, kind),
                t2 + 'Gcrit=%r but spherical barrier x c/(4pi/3) = %r (kawin bulk site: %r)' % (G, gref, gbulk))
        if not okG and clipped:
            clipped_bad = True
        okall = okall and okG
        # Zeldovich, beta, tau, rate: finite, non-negative
        for nme, v in (('Z', Z), ('beta', B), ('tau', tau), ('Rnuc', float(Rna[i]))):
            if not (math.isfinite(v) and v >= 0):
                bad('rates/site=%s/nonfinite-or-negative/%s' % (sg, nme), t2 + '%s=%r' % (nme, v))
        if okG:
            if not (math.isfinite(J) and J >= 0):
                bad('rates/site=%s/nonfinite-or-negative/rate' % sg, t2 + 'rate=%r (Z=%r beta=%r G=%r)' % (J, Z, B, G))
            # probability factor exp(-G/kT) <= 1
            if math.isfinite(J) and not J <= Z * B * (1 + 1e-12):
                bad('rates/site=%s/rate-above-Z-beta' % sg, t2 + 'rate=%r > Z*beta=%r' % (J, Z * B))
            # independent value  J = Z beta exp(-G/kT)
            jref = Z * B * math.exp(-G / (KB * T)) if G / (KB * T) < 740 else 0.0
            if not abs(J - jref) <= 1e-9 * jref + 1e-290:            # 1e-290: underflow region of exp
                bad('rates/site=%s/rate-formula' % sg, t2 + 'rate=%r, Z beta exp(-G/kT)=%r' % (J, jref))
            # steady state rate non-decreasing in dG at fixed T (1e-9: rounding of the product)
            if prevJ is not None and not J >= prevJ * (1 - 1e-9):
                bad('rates/site=%s/rate-decreases-with-dG' % sg, 'rate(%r)=%r < rate(%r)=%r' % (dg, J, prevdg, prevJ))
            prevJ, prevdg = J, dg
        # Rnuc >= Rcrit
        if not float(Rna[i]) >= R:
            bad('rates/site=%s/Rnuc-below-Rcrit' % sg, t2 + 'Rnuc=%r < Rcrit=%r' % (float(Rna[i]), R))
        # incubation factor in [0,1], non-decreasing in t
        if okG and math.isfinite(tau):
            times = [0.0, 1e-9, 1e-3 * tau, 0.1 * tau, tau, 10 * tau, 1e3 * tau, 1e30, math.inf]
            times = sorted(set(t for t in times if t >= 0))
            prev = -1.0
            for tt in times:
                try:
                    jt = float(nr.nucleationRate(Z, B, G, T, tau, time=tt))
                except Exception as e:
                    bad('rates/site=%s/incubation-exception' % sg, t2 + 't=%r %s: %s' % (tt, type(e).__name__, e))
                    break
                nst += 1
                if not (math.isfinite(jt) and 0 <= jt <= J * (1 + 1e-12)):
                    bad('rates/site=%s/incubation-factor-range' % sg, t2 + 'rate(t=%r)=%r, steady state %r, tau=%r' % (tt, jt, J, tau))
                    break
                if not jt >= prev * (1 - 1e-12):
                    bad('rates/site=%s/incubation-factor-decreases' % sg, t2 + 'rate(t=%r)=%r < previous %r' % (tt, jt, prev))
                    break
                prev = jt
                if J > 0 and tt > 0 and math.isfinite(tt):
                    fref = math.exp(-tau / tt)
                    if not abs(jt - J * fref) <= 1e-9 * J:
                        bad('rates/site=%s/incubation-formula' % sg, t2 + 'rate(t=%r)/rate(inf)=%r, exp(-tau/t)=%r' % (tt, jt / J, fref))
                        break
            if J > 0 and prev != J:
                bad('rates/site=%s/incubation-limit' % sg, t2 + 'rate(t=inf)=%r != steady state %r' % (prev, J))
        # scalar call = array entry (bitwise: same operations)
        try:
            r1, g1 = nr.nucleationBarrier(dg, prec)
            z1 = nr.zeldovich(T, r1, prec)
            b1 = _beta(bfn, therm, x0, T, r1, matrix, prec)
            tau1 = nr.incubationTime(b1, z1, matrix)
            j1 = nr.nucleationRate(z1, b1, g1, T, tau1)
            for nme, s, v in (('Rcrit', r1, R), ('Gcrit', g1, G), ('Z', z1, Z), ('beta', b1, B), ('tau', tau1, tau), ('rate', j1, J)):
                if np.ndim(s) != 0:
                    bad('rates/site=%s/scalar-shape/%s' % (sg, nme), t2 + 'scalar call returns shape %r' % (np.shape(s),))
                elif not (float(s) == v or (math.isnan(float(s)) and math.isnan(v))):
                    bad('rates/site=%s/scalar-vs-array/%s' % (sg, nme), t2 + 'scalar %r vs array entry %r' % (float(s), v))
        except Exception as e:
            bad('rates/site=%s/scalar-exception' % sg, t2 + '%s: %s' % (type(e).__name__, e))
    # the same driving forces given as Python / numpy integers (a user typing 500000000 J/m3): same barrier as for the float
    ints = [i for i, dg in enumerate(dgs) if float(dg).is_integer() and abs(dg) < 2 ** 62]
    if ints:
        try:
            Ri, Gi = nr.nucleationBarrier(np.array([int(dgs[i]) for i in ints], dtype=np.int64), prec)
            Ri, Gi = np.atleast_1d(np.asarray(Ri, dtype=float)), np.atleast_1d(np.asarray(Gi, dtype=float))
            sc = [tuple(float(np.squeeze(v)) for v in nr.nucleationBarrier(int(dgs[i]), prec)) for i in ints]
            nst += 2 * len(ints)
            for j, i in enumerate(ints):
                for form, (rr, gg) in (('array', (Ri[j], Gi[j])), ('scalar', sc[j])):
                    if not (abs(rr - float(Ra[i])) <= 1e-12 * abs(float(Ra[i])) and abs(gg - float(Ga[i])) <= 1e-12 * abs(float(Ga[i]))):
                        bad('rates/site=%s/integer-driving-force/%s' % (sg, form),
                            'dG = %d given as an integer (%s): Rcrit=%r Gcrit=%r, as a float: Rcrit=%r Gcrit=%r' % (int(dgs[i]), form, rr, gg, float(Ra[i]), float(Ga[i])))
                        break
        except Exception as e:
            bad('rates/site=%s/integer-driving-force/exception' % sg, '%s: %s' % (type(e).__name__, e))
    # "the rate is zero for non-positive driving force" at every time, incubation included: whole-array and scalar calls
    nonpos = [i for i, dg in enumerate(dgs) if dg <= 0]
    if nonpos:
        for tt in (0.0, 1e-9, 1.0, 1e30, math.inf):
            try:
                jt = np.asarray(nr.nucleationRate(Za, Ba, Ga, Ta, taua, time=tt), dtype=float)
                js = [float(nr.nucleationRate(Za[i], Ba[i], Ga[i], T, taua[i], time=tt)) for i in nonpos]
            except Exception as e:
                bad('rates/site=%s/nonpositive-dG-exception' % sg, 't=%r %s: %s' % (tt, type(e).__name__, e))
                break
            nst += len(nonpos)
            wrong = [(dgs[i], float(jt[i])) for i in nonpos if not jt[i] == 0] if jt.shape == dga.shape else [('shape', jt.shape)]
            wrong += [(dgs[i], v) for i, v in zip(nonpos, js) if not v == 0]
            if wrong:
                bad('rates/site=%s/nonpositive-dG-rate-at-time/%s' % (sg, 't=0' if tt == 0 else 't>0'),
                    'nucleationRate(..., time=%r) for dG <= 0 is not 0: %r' % (tt, wrong[:4]))
                break
    # end to end through computeSteadyStateNucleation with the stub driving force table
    if case.get('e2e', True):
        th2 = StubTherm(D, dgs=dgs, Vm=Vm)
        xs = np.array([(i + 1) / 1000.0 for i in range(len(dgs))])
        fn = {'b1': nr.betaBinary1, 'b2': nr.betaBinary2}.get(bfn)
        if fn is not None:
            try:
                nd = nr.computeSteadyStateNucleation(th2, xs, T * np.ones(len(xs)), prec, matrix, betaFunc=fn)
                ok = True
            except Exception as e:
                ok = False
                bad('rates/steady-state-exception/beta=%s/%s' % (bfn, type(e).__name__), '%s: %s' % (type(e).__name__, e))
            if ok and bfn == 'b2':
                # impingement function left to the library's default: the range clauses of the statement hold for it as well
                try:
                    nd0 = nr.computeSteadyStateNucleation(th2, xs, T * np.ones(len(xs)), prec, matrix)
                    pos0 = np.array(dgs) > 0
                    for nme in ('beta', 'tau', 'nucleation_rate'):
                        a0 = np.asarray(getattr(nd0, nme), dtype=float)
                        if a0.shape != pos0.shape or (okall and not (np.all(np.isfinite(a0[pos0])) and np.all(a0[pos0] >= 0))):
                            bad('rates/site=%s/steady-state-range/default-beta/%s' % (sg, nme), 'computeSteadyStateNucleation without betaFunc: %s = %r' % (nme, a0))
                            break
                    nst += len(dgs)
                except Exception as e:
                    bad('rates/steady-state-exception/beta=default/%s' % type(e).__name__, '%s: %s' % (type(e).__name__, e))
            if ok:
                nst += len(dgs)
                # the table is dG*Vm/Vm: may differ from dG by one rounding, compare to 1e-12
                # (skipped when this case already shows the barrier defect: the table differs from dG by one rounding and
                #  the defective barrier c Rmin^2 (3 gamma - dG Rmin) is ill-conditioned near its zero crossing)
                for nme, got, want in ((('Rcrit', nd.Rcrit, Ra), ('Gcrit', nd.Gcrit, Ga), ('Z', nd.Z, Za)) if okall else ()):
                    got = np.asarray(got, dtype=float)
                    want = np.asarray(want, dtype=float)
                    m = np.isfinite(want) & np.isfinite(got)
                    if got.shape != want.shape or not np.array_equal(np.isfinite(got), np.isfinite(want)) or \
                            not np.all(np.abs(got[m] - want[m]) <= 1e-9 * np.abs(want[m])):
                        bad('rates/site=%s/steady-state-vs-functions/%s' % (sg, nme), 'computeSteadyStateNucleation %r vs functions %r' % (got, want))
                # beta / tau / rate depend on the composition (here the table key): range clauses only
                for nme, got in (('beta', nd.beta), ('tau', nd.tau), ('rate', nd.nucleation_rate), ('Rnuc', nd.nucleation_radius)):
                    got = np.asarray(got, dtype=float)
                    pos = np.array(dgs) > 0
                    if got.shape != pos.shape or (okall and not (np.all(np.isfinite(got[pos])) and np.all(got[pos] >= 0))):
                        bad('rates/site=%s/steady-state-range/%s' % (sg, nme), 'computeSteadyStateNucleation %s = %r' % (nme, got))
    return {'viol': viol, 'states': nst, 'transitions': nst, 'outcome': 'nonpos=%d,unclipped=%d,clipped=%d%s' % (sum(1 for d_ in dgs if d_ <= 0), sum(1 for d_ in dgs if d_ > 0 and 2 * gamma / d_ >= Rmin),
                                                                   sum(1 for d_ in dgs if d_ > 0 and 2 * gamma / d_ < Rmin), ',badclip' if clipped_bad else ''),
            'nontrivial': 'clipped' in outs or 'unclipped' in outs}


# ------------------------------------------------------------------------------------------------------
# non-isothermal incubation

AR_CONFIGS = {'scalar3': 3.0, 'callable': (lambda R: 1.0 + np.asarray(R) / 2e-9), 'default': None}


def run_shaped(case):
    """Bulk / dislocation nucleation of a non-spherical precipitate: nucleationBarrier(dG, prec, aspectRatio) documents
    Rcrit = 2 f gamma / dG with f the thermodynamic correction factor of the shape AT THE GIVEN ASPECT RATIO, whatever aspect-ratio
    rule (scalar or function of the radius) the precipitate itself carries - the model passes the aspect ratio of the previous
    critical radius (seed s12f evaluated the precipitate's own rule on the argument instead)."""
    site, shape, cfg, gamma, Rmin = case['site'], case['shape'], case['config'], case['gamma'], case['Rmin']
    viol = []
    prec = _mk_prec(site, gamma, 0.0, 1e-5, Rmin)
    setter = {'needle': prec.shapeFactor.setNeedleShape, 'plate': prec.shapeFactor.setPlateShape, 'cuboidal': prec.shapeFactor.setCuboidalShape}[shape]
    if AR_CONFIGS[cfg] is None:
        setter()
    else:
        setter(AR_CONFIGS[cfg])
    dga = np.array(case['dgs'], dtype=float)
    n = 0
    for ar in case['ars']:
        f = float(prec.shapeFactor.description.thermoFactor(ar))       # the shape's own factor (its geometry is C15's subject)
        try:
            Ra, Ga = nr.nucleationBarrier(dga, prec, ar)
        except Exception as e:
            viol.append({'sig': 'shaped/%s/%s/exception' % (shape, cfg), 'msg': '%r ar=%r: %s: %s' % (case, ar, type(e).__name__, e)})
            continue
        for i, dg in enumerate(dga):
            n += 1
            want = max(2 * f * gamma / dg, Rmin) if dg > 0 else 0.0
            if not abs(float(Ra[i]) - want) <= 1e-12 * max(want, 1e-300):
                viol.append({'sig': 'shaped/%s/config=%s/Rcrit' % (shape, cfg),
                             'msg': 'site=%s gamma=%r Rmin=%r dG=%r aspect ratio %r (f=%r): Rcrit=%r, 2 f gamma / dG (or Rmin) = %r'
                                    % (site, gamma, Rmin, float(dg), ar, f, float(Ra[i]), want)})
                break
            if dg > 0 and not abs(float(Ga[i]) - 4 * math.pi / 3 * gamma * want ** 2) <= 1e-12 * float(Ga[i]):
                viol.append({'sig': 'shaped/%s/config=%s/Gcrit' % (shape, cfg),
                             'msg': 'site=%s dG=%r aspect ratio %r: Gcrit=%r, 4 pi/3 gamma Rcrit^2 = %r'
                                    % (site, float(dg), ar, float(Ga[i]), 4 * math.pi / 3 * gamma * want ** 2)})
                break
    return {'viol': viol, 'states': n, 'transitions': n, 'outcome': '%s/%s' % (shape, cfg), 'nontrivial': n > 0}


def run_incub(case):
    Z, beta, n, dt, theta = case['Z'], case['beta'], case['n'], case['dt'], case['theta']
    viol = []
    matrix = MatrixParameters(['A'])
    matrix.theta = theta
    times = np.arange(n, dtype=float) * dt
    temps = case['T0'] + case['dT'] * np.arange(n)
    betas = beta * np.ones(n)
    currT = float(temps[-1])
    nst = 0
    outs = set()
    for currTime in ([times[-1]] if n > 1 else [0.0, dt]):
        try:
            tau = nr.incubationTimeNonIsothermal(Z, beta, currTime, currT, betas, times, temps, matrix)
        except Exception as e:
            viol.append({'sig': 'incub/nonisothermal/exception', 'msg': '%r: %s: %s' % (case, type(e).__name__, e)})
            continue
        nst += 1
        tau = float(tau)
        if not (math.isfinite(tau) and tau >= 0):
            viol.append({'sig': 'incub/nonisothermal/nonfinite-or-negative', 'msg': '%r currTime=%r: tau=%r' % (case, currTime, tau)})
        outs.add('ramp' if case['dT'] else 'const-T')
    # isothermal function
    tau0 = float(nr.incubationTime(beta, Z, matrix))
    if not abs(tau0 - 1.0 / (theta * beta * Z * Z)) <= 1e-12 * tau0:
        viol.append({'sig': 'incub/isothermal/formula', 'msg': '%r: %r' % (case, tau0)})
    return {'viol': viol, 'states': nst + 1, 'outcome': '+'.join(sorted(outs))}


# ------------------------------------------------------------------------------------------------------
# sites

PROFILES = ['uniform', 'first', 'last', 'mid']
SCALES = [0.0, 1.0, 1e5, 1e10, 1e15, 1e18, 1e20, 1e22, 1e24, 1e26, 1e28, 1e30]


def _psd(pbm, profile, scale):
    n = len(pbm.PSD)
    x = np.zeros(n)
    if profile == 'uniform':
        x[:] = scale / n
    elif profile == 'first':
        x[0] = scale
    elif profile == 'last':
        x[-1] = scale
    else:
        x[n // 2] = scale
    return x


def N0_of(m, site):
    ns = m.matrixParameters.nucleationSites
    return {'bulk': ns.bulkN0, 'dislocations': ns.dislocationN0, 'grain boundaries': ns.GBareaN0,
            'grain edges': ns.GBedgeN0, 'grain corners': ns.GBcornerN0}[site]


def _sites_reference(m, sites, x):
    """Plain-loop transcription of the documented site balance for the target phase 0."""
    if any(s_ == 'dislocations' for s_ in sites):
        return None
    target = sites[0]
    NAV = NA / m.matrixParameters.volume.Vm
    used = 0.0
    for p, s_ in enumerate(sites):
        if s_ != target:
            continue
        r = m.PBM[p].PSDsize
        M0 = float(sum(x[p][i] for i in range(len(r))))
        M1 = float(sum(x[p][i] * r[i] for i in range(len(r))))
        M2 = float(sum(x[p][i] * r[i] ** 2 for i in range(len(r))))
        npar = m.precipitateParameters[p].nucleation
        if target in ('bulk', 'grain corners'):
            used += M0
        elif target == 'grain boundaries':
            used += float(npar.gbRemoval) * M2 * NAV ** (2.0 / 3)
        elif target == 'grain edges':
            used += math.sqrt(1 - float(npar.GBk) ** 2) * M1 * NAV ** (1.0 / 3)
    return max(N0_of(m, target) - used, 0.0)


def run_sites(case):
    sites, x0, dens, Vm = case['sites'], case['x0'], case['density'], case['Vm']
    viol = []
    phases = ['p%d' % i for i in range(len(sites))]
    tag = 'sites=%s x0=%r density=%s Vm=%r' % ('+'.join(SHORT[s] for s in sites), x0, dens, Vm)

    def bad(kind, msg):
        viol.append({'sig': 'sites/%s/target=%s' % (kind, SHORT[sites[0]]), 'msg': tag + ': ' + msg})
    m = PrecipitateModel(phases=phases, elements=['A'])
    m.matrixParameters.volume.setVolume(Vm, 'VM', 4)
    m.matrixParameters.initComposition = x0
    if dens == 'set':
        m.matrixParameters.nucleationSites.setNucleationDensity(grainSize=50, aspectRatio=2, dislocationDensity=1e14)
    elif dens == 'bulkN0':
        m.matrixParameters.nucleationSites.setNucleationDensity(bulkN0=1e20)
    for p, s in enumerate(sites):
        m.precipitateParameters[p].gamma = 0.3
        m.precipitateParameters[p].volume.setVolume(1e-5, 'VM', 4)
        m.precipitateParameters[p].nucleation.setNucleationType(s)
    nst = 0
    outs = set()
    prev0 = None
    for profile in PROFILES:
        for who in (['both', 'self', 'other'] if len(sites) == 2 else ['self']):
            prev = None
            for sc in case['scales']:
                x = []
                for p in range(len(sites)):
                    on = who == 'both' or (who == 'self' and p == 0) or (who == 'other' and p == 1)
                    x.append(_psd(m.PBM[p], profile, sc if on else 0.0))
                keep = [xi.copy() for xi in x]
                try:
                    ns = m._calcNucleationSites(0.0, x, 0)
                except Exception as e:
                    bad('exception', 'profile=%s who=%s scale=%r %s: %s' % (profile, who, sc, type(e).__name__, e))
                    break
                nst += 1
                ns = float(ns)
                if any(a.tobytes() != b.tobytes() for a, b in zip(keep, x)):
                    bad('psd-mutated', 'profile=%s who=%s scale=%r' % (profile, who, sc))
                if not (math.isfinite(ns) and ns >= 0):
                    bad('negative-or-nonfinite', 'profile=%s who=%s scale=%r: %r' % (profile, who, sc, ns))
                    break
                if sc == 0.0 and not ns > 0:
                    bad('no-sites-when-empty', 'profile=%s: %r sites with no precipitates' % (profile, ns))
                if prev is not None and not ns <= prev:
                    bad('increases-with-occupation', 'profile=%s who=%s: sites(%r)=%r > previous %r' % (profile, who, sc, ns, prev))
                    break
                # independent value: all sites minus the sites occupied by EVERY phase of the same site type (docstring of
                # _calcNucleationSites), each phase with its own distribution.  Dislocation phases are left out of the
                # reference (DislocationDescription subclasses BulkDescription, so kawin counts them with the bulk phases -
                # noted in DESIGN.md, outside the statement).
                ref = _sites_reference(m, sites, x)
                if ref is not None and abs(ns - ref) > 1e-9 * max(abs(ref), abs(N0_of(m, sites[0])) * 1e-6, 1e-300):
                    bad('value-vs-reference', 'profile=%s who=%s scale=%r: %r available sites, reference (all sites - sites occupied by each '
                        'phase of this site type) %r' % (profile, who, sc, ns, ref))
                outs.add('zero' if ns == 0 else ('full' if prev is None or ns == prev0 else 'reduced'))
                if prev is None:
                    prev0 = ns
                prev = ns
            # "decreases as precipitates occupy sites": with the phase itself occupying, fewer sites at the end of the chain
            if who != 'other' and prev is not None and prev0 is not None and not prev < prev0:
                bad('not-decreasing', 'profile=%s who=%s: %r sites when empty, %r with %r precipitates /m3'
                    % (profile, who, prev0, prev, case['scales'][-1]))
    return {'viol': viol, 'states': nst, 'transitions': nst, 'outcome': '+'.join(sorted(outs)),
            'info': {'sites_empty': prev0 if nst else None}}


# ------------------------------------------------------------------------------------------------------
# history (E2)

H_GAMMAS = [0.2, 0.5, 0.15]
H_GBES = [0.1, 0.3, 0.6]
H_READS = ['GBk', 'areaFactor', 'volumeFactor', 'gbRemoval', 'areaRemoval']


def _ops(base):
    ops = [['gamma', g] for g in H_GAMMAS] + [['gbEnergy', e] for e in H_GBES] + [['site', s] for s in SITES] + \
          [['read', r] for r in H_READS]
    if base == 'precipitate':
        ops += [['nuc.gamma', 0.25]]
    return ops


def _fresh(base):
    if base == 'barrier':
        o = nuc.NucleationBarrierParameters()
        return o, o
    p = PrecipitateParameters('beta')
    return p, p.nucleation


def _apply(base, owner, nucp, op):
    kind, val = op
    if kind == 'gamma':
        owner.gamma = val
    elif kind == 'nuc.gamma':
        nucp.gamma = val
    elif kind == 'gbEnergy':
        nucp.gbEnergy = val
    elif kind == 'site':
        nucp.setNucleationType(val)
    elif kind == 'read':
        try:
            getattr(nucp, val)
        except ValueError:
            pass


def _readall(nucp):
    out = []
    for r in H_READS:
        try:
            v = getattr(nucp, r)
            out.append(np.asarray(v, dtype=float).tobytes().hex())
        except ValueError:
            out.append('ValueError')
        except Exception as e:
            out.append('EXC:' + type(e).__name__)
    # Rcrit / Gcrit use the cached factors as well
    try:
        out.append(np.asarray(nucp.Rcrit(1e8), dtype=float).tobytes().hex())
        out.append(np.asarray(nucp.Gcrit(1e8, 1e-9), dtype=float).tobytes().hex())
    except ValueError:
        out.append('ValueError')
    except Exception as e:
        out.append('EXC:' + type(e).__name__)
    return out


def _replay(base, hist):
    owner, nucp = _fresh(base)
    for op in hist:
        _apply(base, owner, nucp, op)
    return owner, nucp


def _canon(base, owner, nucp):
    cache = [None if getattr(nucp, f) is None else float(np.asarray(getattr(nucp, f)))
             for f in ('_GBk', '_areaFactor', '_volumeFactor', '_gbRemoval', '_areaRemoval')]
    return repr((nucp.gamma, nucp.gbEnergy, nucp.description.name, cache,
                 owner.gamma if base == 'precipitate' else None))


def _state_viol(base, hist):
    """Invariant of the state reached by hist: every factor read now equals the one of a fresh object that
    is given the same final parameters (as read back through the public properties)."""
    owner, nucp = _replay(base, hist)
    g, e, site = nucp.gamma, nucp.gbEnergy, nucp.description.name
    got = _readall(nucp)
    ref = nuc.NucleationBarrierParameters(site=site, gamma=g, gbEnergy=e)
    want = _readall(ref)
    viol = []
    hs = ','.join('%s=%s' % (k, SHORT.get(v, v)) for k, v in hist)
    # the documented setters must take effect (tiny model of the documented ownership: PrecipitateParameters owns
    # gamma and re-applies it to its nucleation object whenever the site type changes)
    mg = me = ms = pg = None
    me, ms = 0.3, 'DISLOCATIONS'
    for k, v in hist:
        if k == 'gamma':
            pg = mg = v
        elif k == 'nuc.gamma':
            mg = v
        elif k == 'gbEnergy':
            me = v
        elif k == 'site':
            ms = v.upper()
            if base == 'precipitate':
                mg = pg
    if e != me:
        viol.append({'sig': 'history/%s/setter-lost/gbEnergy' % base, 'msg': 'hist=%s: gbEnergy reads %r, set %r' % (hs, e, me)})
    if site != ms:
        viol.append({'sig': 'history/%s/setter-lost/site' % base, 'msg': 'hist=%s: site reads %r, set %r' % (hs, site, ms)})
    if g != mg:
        viol.append({'sig': 'history/%s/setter-lost/gamma' % base, 'msg': 'hist=%s: gamma reads %r, set %r' % (hs, g, mg)})
    if got != want:
        names = H_READS + ['Rcrit', 'Gcrit']
        diff = [names[i] for i in range(min(len(got), len(want))) if got[i] != want[i]]
        # which kind of operation came last among the setters -> discriminating attribute of the sig
        lastset = [k for k, v in hist if k != 'read'][-1] if any(k != 'read' for k, v in hist) else 'none'
        viol.append({'sig': 'history/%s/stale-cache/after-set=%s' % (base, lastset),
                     'msg': 'hist=%s: final (gamma=%r, gbEnergy=%r, site=%s); factors differing from a fresh object: %s'
                            % (hs, g, e, site, diff)})
    return viol


def expand_hist(case):
    base, hist = case['base'], [list(o) for o in case['hist']]
    owner, nucp = _replay(base, hist)
    res = {'canon': _canon(base, owner, nucp), 'viol': _state_viol(base, hist), 'succ': []}
    for op in _ops(base):
        h2 = hist + [op]
        o2, n2 = _replay(base, h2)
        res['succ'].append({'op': op, 'canon': _canon(base, o2, n2), 'viol': _state_viol(base, h2),
                            'outcome': op[0]})
    return res


# ------------------------------------------------------------------------------------------------------

# ------------------------------------------------------------------------------------------------------
# stage 'trajectory': the clause "the rate is zero for non-positive driving force" on every recorded step of real
# precipitation runs (the model keeps a copy of the previous state while computing the next one, so a skipped
# calculation can leave the previous rate in place)

def run_trajectory(case):
    import numpy as np
    from mc import precip
    precip.TEMPS.setdefault('jump', lambda tf: (lambda t: 700.0 if t < 0.3 * tf else 1150.0))
    precip.TEMPS.setdefault('jumpdown', lambda tf: (lambda t: 1150.0 if t < 0.3 * tf else 700.0))
    r = precip.run_model(case, hooks=False)
    viol = []
    if r['model'] is None:
        return {'viol': [], 'states': 0, 'outcome': 'build-error', 'nontrivial': False}
    d = r['model'].pData
    neg = d.drivingForce <= 0
    bad = neg & ((d.nucRate != 0) | (d.Rnuc != 0))
    if np.any(bad):
        n, p = [int(v) for v in np.argwhere(bad)[0]]
        viol.append({'sig': 'trajectory/nucleation-with-nonpositive-driving-force/%s' % case['system'],
                     'msg': 'cfg=%r: step %d (t=%r, T=%r): driving force %r but nucleation rate %r, nucleation radius %r; %d such steps'
                     % (case, n, d.time[n], d.temperature[n], d.drivingForce[n, p], d.nucRate[n, p], d.Rnuc[n, p], int(bad.any(axis=1).sum()))})
    if not np.all(np.isfinite(d.nucRate)) or np.any(d.nucRate < 0):
        viol.append({'sig': 'trajectory/nucleation-rate-not-finite-nonnegative/%s' % case['system'], 'msg': 'cfg=%r' % (case,)})
    both = bool(np.any(neg)) and bool(np.any(d.nucRate > 0))
    return {'viol': viol, 'states': int(d.n), 'transitions': int(d.n), 'nontrivial': both,
            'outcome': ('neg+nuc' if both else ('neg' if np.any(neg) else 'pos')) + ('' if r['error'] is None else '/' + r['error'][0])}


def trajectory_cases(quick):
    out = []
    for system in ('bin', 'tern'):
        for temp in (['jump', 'heat', 'updown'] if quick else ['jump', 'jumpdown', 'heat', 'cool', 'updown', 'hrh']):
            for it in ('euler', 'rk4'):
                for nph in ([1] if quick else [1, 2]):
                    out.append({'system': system, 'temp': temp, 'it': it, 'nphases': nph, 'tf': 2.0 if 'jump' in temp else 20.0,
                                'constraints': {'dtScale': 0.05}, 'max_steps': 1500 if quick else 6000, 'record': False})
    return out


def run(ctx):
    quick = ctx.quick
    kfr = K_FRACS_Q if quick else K_FRACS_T
    ctx.rule = ('full products: site x k lattice (closed forms vs quadrature of the Clemm-Fisher body); '
                'site x k x gamma x Vm x T x Rmin x D x x0 x beta-function x dG lattice x time lattice through the real '
                'NucleationRate functions; site pairs x matrix settings x PSD occupation chains through '
                'PrecipitateModel._calcNucleationSites; every setter/read history of length <= 4 on the real parameter '
                'objects (BFS, canonical state = parameters + cache fields); non-trivial = case with dG > 0 / k > 0')
    # geometry
    gcases = []
    for s in GBSITES:
        for f in kfr:
            gcases.append({'site': s, 'kfrac': f, 'quad': True, 'coarse': quick})
        for f in K_FRACS_NEAR:
            gcases.append({'site': s, 'kfrac': f, 'quad': False})
    ctx.product_run('geometry', 'checks.c14:run_geometry', gcases, chunksize=1)
    ctx.product_run('geometry', 'checks.c14:run_constant_sites', [{'site': 'bulk'}, {'site': 'dislocations'}])
    ctx.product_run('monotone', 'checks.c14:run_monotone', [{'site': s, 'n': 500 if quick else 4000} for s in GBSITES])
    # limit
    lcases = [{'site': s, 'rel': r, 'via': v} for s in GBSITES for r in ('below', 'at', 'above', 'far-above')
              for v in ('barrier', 'precipitate')]
    ctx.product_run('limit', 'checks.c14:run_limit', lcases)
    # rates
    if quick:
        lv = {'site': SITES, 'gamma': [0.02, 0.3], 'kfrac': [0.0, 0.5, 0.99], 'Vm': [1e-5], 'T': [300.0, 1200.0],
              'Rmin': [3e-10, 1e-9], 'D': [1e-16], 'x0': [0.05], 'beta': ['b1', 'b2', 'multi']}
        dgs = DG_Q
    else:
        lv = {'site': SITES, 'gamma': [0.02, 0.1, 0.5], 'kfrac': [0.0, 0.3, 0.6, 0.9, 0.99], 'Vm': [7e-6, 1e-5, 3e-5],
              'T': [300.0, 800.0, 1500.0], 'Rmin': [1e-10, 3e-10, 1e-9], 'D': [1e-20, 1e-14], 'x0': [1e-4, 0.05],
              'beta': ['b1', 'b2', 'multi']}
        dgs = DG_T
    from mc.core import product
    rcases = product(lv)
    for c in rcases:
        c['dgs'] = dgs
    ctx.product_run('rates', 'checks.c14:run_rates', rcases)
    shcases = product({'site': ['bulk', 'dislocations'], 'shape': ['needle', 'plate', 'cuboidal'], 'config': sorted(AR_CONFIGS),
                       'gamma': [0.02, 0.3], 'Rmin': [3e-10, 1e-9]})
    for c in shcases:
        c['dgs'] = [d for d in dgs if d > 0][:: (3 if quick else 1)] + [0.0, -1e7]
        c['ars'] = [1.0, 2.5, 4.0] if quick else [1.0, 1.5, 2.5, 4.0, 10.0]
    ctx.product_run('shaped', 'checks.c14:run_shaped', shcases)
    # incubation
    ilv = {'Z': [1e-3, 0.05], 'beta': [1e-3, 1.0, 1e5], 'n': [1, 2, 5, 40], 'dt': [1e-3, 1.0, 1e4], 'theta': [2.0, 4 * math.pi],
           'T0': [800.0], 'dT': [0.0, 5.0, -5.0]}
    ctx.product_run('incub', 'checks.c14:run_incub', product(ilv))
    # sites
    scases = []
    groups = [[s] for s in SITES] + [[a, b] for a in SITES for b in SITES]
    for g in groups:
        for x0 in ([0.01] if quick else [1e-4, 0.01, 0.2]):
            for dens in (['default', 'set'] if quick else ['default', 'set', 'bulkN0']):
                for Vm in ([1e-5] if quick else [7e-6, 1e-5]):
                    scases.append({'sites': g, 'x0': x0, 'density': dens, 'Vm': Vm, 'scales': SCALES})
    ctx.product_run('sites', 'checks.c14:run_sites', scases)
    # history
    depth = 3 if quick else 4
    for base in ('barrier', 'precipitate'):
        ctx.bfs('history-' + base, 'checks.c14:expand_hist', [], depth, base=base)
    ctx.product_run('trajectory', 'checks.c14:run_trajectory', trajectory_cases(quick), chunksize=1)
    ctx.bounds = {'k_over_kmax': kfr + K_FRACS_NEAR, 'sites': SITES, 'rates_levels': lv, 'dG': dgs,
                  'times': '0, 1e-9, tau*{1e-3,0.1,1,10,1e3}, 1e30, inf', 'incubation_levels': ilv,
                  'site_groups': len(groups), 'psd_profiles': PROFILES, 'psd_scales': SCALES,
                  'history_depth': depth, 'history_ops': {'barrier': len(_ops('barrier')), 'precipitate': len(_ops('precipitate'))}}
    ctx.assumptions = [
        'k lattice reaches kmax*(1-1e-6); closer to the limit the published closed forms lose all digits (corner area '
        'factor off by 2e-3 at 1-1e-12) - sign clauses use the stated rounding allowance 1e-13/(1-k/kmax)',
        'quadrature reference used for k/kmax <= 0.999 (its own convergence estimate is part of the tolerance)',
        'driving forces 1e-3 ... 1e11 J/m3 (below ~1e-150 the barrier overflows a double: not explored)',
        'beta functions are driven by a duck-typed constant-diffusivity backend; thermodynamics itself is C09-C12',
        'sites: parent-phase surfaces are not used (they add sites by design); the statement is about occupation',
        'history: final parameters are those read back through the public properties of the object',
    ]
