"""C08 - size-class grid operations stay consistent and conserve particle volume.

Explicit-state exploration (BFS, engine E2) of operation histories on the real PopulationBalanceModel: a state is the
history that reaches it, rebuilt by replay on a fresh object; canonical form = every field the operations read.
Invariants in every state, operation-specific postconditions on every transition.
"""
import copy
import hashlib

PROPERTY = 'C08'
LEVEL = 'model_checking'
np = None


def prepare():
    global np, PopulationBalanceModel
    import numpy as np
    from kawin.precipitation.PopulationBalance import PopulationBalanceModel


BASES = {
    # cMin, cMax, bins, minBins, maxBins, adaptive, recording
    'A': (1e-10, 1e-9, 8, 4, 16, True, True),
    'B': (1e-10, 1e-8, 20, 10, 40, True, False),
    'C': (1e-10, 1e-9, 8, 4, 16, False, True),
    'D': (2e-10, 5e-9, 12, 6, 24, True, True),
}

DISTS_QUICK = ['empty', 'single_low', 'single_mid', 'last', 'lognormal', 'twopeaks', 'subunit']
DISTS_THOROUGH = ['empty', 'single_low', 'single_mid', 'last', 'lognormal', 'subunit']

OPS_QUICK = (['add1', 'add3', 'half', 'double', 'fifth', 'cut', 'wide', 'lowmin', 'raisemin', 'adjF', 'adjT', 'backup', 'revert', 'reset',
              'load_a', 'load_b', 'rt_first', 'rt_last', 'rt_mid', 'rec_off', 'rec_on'] + ['upd_' + d for d in DISTS_QUICK])
OPS_THOROUGH = (['add1', 'add3', 'half', 'double', 'fifth', 'cut', 'wide', 'lowmin', 'raisemin', 'adjF', 'adjT', 'backup', 'revert', 'reset',
                 'load_a', 'rt_last', 'rt_mid', 'rec_off', 'rec_on'] + ['upd_' + d for d in DISTS_THOROUGH])


class St:
    """The real object plus the harness-side facts needed to decide which operations are enabled."""

    def __init__(self, base):
        cmin, cmax, bins, mn, mx, adaptive, rec = BASES[base]
        self.pbm = PopulationBalanceModel(cmin, cmax, bins, mn, mx)
        self.pbm.setAdaptiveBinSize(adaptive)
        if rec:
            self.pbm.enableRecording()
        self.base = base
        self.backup_valid = False
        self.backup_seen = None
        self.t = 0.0
        self.nrec = 1 if rec else 0


def make_dist(pbm, name):
    n = pbm.bins
    r = pbm.PSDsize
    if name == 'empty':
        return np.zeros(n)
    if name == 'single_low':
        x = np.zeros(n); x[0] = 5.0; return x
    if name == 'single_mid':
        x = np.zeros(n); x[n // 2] = 1e10; return x
    if name == 'last':
        x = np.zeros(n); x[-1] = 2.0; x[n // 3] = 7.0; return x
    if name == 'lognormal':
        rm = r[n // 3]
        return 1e15 * np.exp(-0.5 * (np.log(r / rm) / 0.3) ** 2)
    if name == 'twopeaks':
        w = (r[1] - r[0]) * 1.5
        return 1e12 * np.exp(-0.5 * ((r - r[n // 4]) / w) ** 2) + 3e11 * np.exp(-0.5 * ((r - r[(3 * n) // 4]) / w) ** 2)
    if name == 'subunit':
        return np.full(n, 0.5)
    raise KeyError(name)


def enabled(st, op):
    p = st.pbm
    if op == 'revert':
        return st.backup_valid
    if op in ('rt_first', 'rt_last'):
        return bool(p._record) and p._recordedTime is not None and len(p._recordedTime) >= 2
    if op == 'rt_mid':
        return bool(p._record) and p._recordedTime is not None and len(p._recordedTime) >= 3
    if op == 'rec_off':
        return bool(p._record)
    if op == 'rec_on':
        return not p._record
    if op.startswith('upd_') and p._record and p._adaptiveBinSize and p.bins > p.maxBins:
        # the models always call adjustSizeClassesEuler right after UpdatePBMEuler, which restores bins <= maxBins
        # before the next recording; recording a wider grid in adaptive mode is outside the documented use
        return False
    # manual re-meshing below minBins/2 classes is outside the documented use (adjustSizeClassesEuler indexes class
    # minBins/2 of the grid); the automatic re-mesh always goes to minBins or maxBins classes
    floor = max(2, p.minBins // 2 + 1)
    if op == 'half' and p.bins // 2 < floor:
        return False
    if op == 'fifth' and p.bins // 5 < floor:
        return False
    if p.bins > 400:
        return False
    return True


def apply(st, op):
    """Apply one operation to the real object; returns a dict of facts for the transition oracles."""
    p = st.pbm
    pre = {'bins': p.bins, 'bounds': p.PSDbounds.copy(), 'psd': p.PSD.copy(), 'min': p.min, 'max': p.max,
           'm3': float(np.sum(p.PSD * p.PSDsize ** 3))}
    info = {'pre': pre, 'kind': None}
    if op == 'add1' or op == 'add3':
        p.addSizeClasses(1 if op == 'add1' else 3)
        info['kind'] = 'extend'
    elif op in ('half', 'double', 'fifth', 'cut', 'wide', 'lowmin', 'raisemin'):
        if op == 'half':
            args = (p.PSDbounds[0], p.PSDbounds[-1], max(1, p.bins // 2))
        elif op == 'double':
            args = (p.PSDbounds[0], p.PSDbounds[-1], 2 * p.bins)
        elif op == 'fifth':
            args = (p.PSDbounds[0], p.PSDbounds[-1], max(1, p.bins // 5))
        elif op == 'cut':
            pop = np.nonzero(p.PSD > 0)[0]
            top = p.PSDbounds[pop[-1] + 1] if len(pop) else p.PSDbounds[-1]
            args = (p.PSDbounds[0], top, p.bins)
        elif op == 'lowmin':
            # the lower end of the grid moves away from the constructor value (a re-mesh may state any minimum)
            args = (0.5 * p.PSDbounds[0], p.PSDbounds[-1], p.bins)
        elif op == 'raisemin':
            args = (p.PSDbounds[1], p.PSDbounds[-1], p.bins)
        else:
            args = (p.PSDbounds[0], 2 * p.PSDbounds[-1], p.bins)
        p.changeSizeClasses(*args)
        info['stated'] = (float(args[0]), float(args[1]), int(args[2]))
        info['kind'] = 'remesh'
        st.backup_valid = False      # changeSizeClasses goes through reset(False), which wipes the backup
    elif op in ('adjF', 'adjT'):
        change, idx = p.adjustSizeClassesEuler(op == 'adjT')
        info['kind'] = 'adjust'
        info['change'], info['idx'] = bool(change), idx
        if change and idx is None:
            st.backup_valid = False
            info['remeshed'] = True
        elif change:
            info['extended'] = True
    elif op.startswith('upd_'):
        st.t += 1.0
        x = make_dist(p, op[4:])
        info['given'] = x.copy()
        p.UpdatePBMEuler(st.t, x)
        info['kind'] = 'update'
        if p._record:
            st.nrec += 1
    elif op == 'backup':
        p.createBackup()
        st.backup_valid = True
        st.backup_seen = (p.PSD.copy(), p.PSDbounds.copy())
        info['kind'] = 'backup'
    elif op == 'revert':
        p.revert()
        info['kind'] = 'revert'
    elif op == 'reset':
        p.reset()
        st.backup_valid = False
        info['kind'] = 'reset'
    elif op in ('rt_first', 'rt_last', 'rt_mid'):
        # load the distribution of a recorded time (public: setPSDtoRecordedTime); rt_mid asks for the middle of the last interval
        rt = np.asarray(p._recordedTime, dtype=float)
        idx = {'rt_first': 1, 'rt_last': len(rt) - 1}.get(op)
        tq = float(rt[idx]) if idx is not None else 0.5 * float(rt[-2] + rt[-1])
        if op == 'rt_first':
            tq = float(rt[0])          # at or below the first recorded time: the first row (the empty constructor grid)
            idx = 0
        info['row'] = idx
        info['rows'] = (np.array(p._recordedBins[-2:], copy=True), np.array(p._recordedPSD[-2:], copy=True))
        info['row_b'] = None if idx is None else np.array(p._recordedBins[idx], copy=True)
        info['row_p'] = None if idx is None else np.array(p._recordedPSD[idx], copy=True)
        p.setPSDtoRecordedTime(tq)
        info['kind'] = 'rectime'
    elif op == 'rec_off':
        p.disableRecording()
        info['kind'] = 'rec-off'
    elif op == 'rec_on':
        p.enableRecording()            # documented: starts a fresh record (one all-zero row)
        st.nrec = 1
        info['kind'] = 'rec-on'
    elif op in ('load_a', 'load_b'):
        lo, hi = p.PSDbounds[0], p.PSDbounds[-1]
        if op == 'load_a':
            data = lo + (hi - lo) * np.array([0.05, 0.051, 0.3, 0.31, 0.32, 0.33, 0.9])
        else:
            data = lo + (hi - lo) * np.array([0.5] * 4 + [0.999] * 3)
        p.LoadDistribution(data)
        info['kind'] = 'load'
        info['ndata'] = len(data)
    else:
        raise KeyError(op)
    return info


def canon(st):
    p = st.pbm
    h = hashlib.sha1()
    for a in (p.PSD, p.PSDbounds, p.PSDsize, p._prevPSD, p._prevPSDbounds):
        h.update(np.ascontiguousarray(a, dtype=float).tobytes())
        h.update(b'|')
    h.update(repr((p.bins, float(p.min), float(p.max), p._adaptiveBinSize, p._record, st.backup_valid,
                   st.nrec, None if p._recordedPSD is None else p._recordedPSD.shape)).encode())
    if p._recordedPSD is not None:
        h.update(np.ascontiguousarray(p._recordedPSD).tobytes())
        h.update(np.ascontiguousarray(p._recordedBins).tobytes())
    return h.hexdigest()


REL = 1e-12


def invariants(st, where):
    """State invariants of the statement."""
    p = st.pbm
    out = []

    def bad(kind, msg):
        out.append({'sig': 'grid/%s/base=%s/after=%s' % (kind, st.base, where), 'msg': msg})
    n = p.bins
    if not (len(p.PSD) == n and len(p.PSDsize) == n and len(p.PSDbounds) == n + 1):
        bad('lengths', 'bins=%d len(PSD)=%d len(PSDsize)=%d len(PSDbounds)=%d' % (n, len(p.PSD), len(p.PSDsize), len(p.PSDbounds)))
        return out
    b = np.asarray(p.PSDbounds, dtype=float)
    if not np.all(np.diff(b) > 0):
        bad('bounds-not-increasing', repr(b[:6]))
    scale = abs(b[-1])
    if abs(b[0] - p.min) > REL * scale or abs(b[-1] - p.max) > REL * scale:
        bad('bounds-vs-minmax', 'bounds[0]=%r min=%r bounds[-1]=%r max=%r' % (b[0], p.min, b[-1], p.max))
    if not np.allclose(p.PSDsize, 0.5 * (b[:-1] + b[1:]), rtol=REL, atol=0):
        bad('centres', 'centres are not mid-points')
    psd = np.asarray(p.PSD, dtype=float)
    if not np.all(np.isfinite(psd)):
        bad('psd-not-finite', repr(psd[:8]))
    elif np.any(psd < 0):
        bad('psd-negative', repr(psd[:8]))
    return out


def moment_purity(st, where):
    """Every ...FromN(N, ...) depends only on N and the grid: evaluate with two different self.PSD in place."""
    p = st.pbm
    out = []
    n = p.bins
    N = (np.arange(n) % 5 + 1.0) * 3.0
    w = 1.0 + 0.1 * np.arange(n)
    r = np.asarray(p.PSDsize, dtype=float)
    ref = {
        'MomentFromN2': float(sum(N[i] * r[i] ** 2 for i in range(n))),
        'WeightedMomentFromN3': float(sum(N[i] * r[i] ** 3 * w[i] for i in range(n))),
    }
    q = copy.copy(p)
    res = []
    for alt in (np.asarray(p.PSD, dtype=float).copy(), np.full(n, 11.0)):
        q.PSD = alt
        res.append({
            'MomentFromN2': q.MomentFromN(N, 2),
            'CumulativeMomentFromN1': q.CumulativeMomentFromN(N, 1),
            'WeightedMomentFromN3': q.WeightedMomentFromN(N, 3, w),
            'CumulativeWeightedMomentFromN3': q.CumulativeWeightedMomentFromN(N, 3, w),
            'ZeroMomentFromN': q.ZeroMomentFromN(N), 'FirstMomentFromN': q.FirstMomentFromN(N),
            'SecondMomentFromN': q.SecondMomentFromN(N), 'ThirdMomentFromN': q.ThirdMomentFromN(N),
        })
    for k in res[0]:
        a, b = np.asarray(res[0][k], dtype=float), np.asarray(res[1][k], dtype=float)
        if a.shape != b.shape or a.tobytes() != b.tobytes():
            out.append({'sig': 'moment/depends-on-self.PSD/%s' % k,
                        'msg': '%s(N, ...) changes when self.PSD changes (after %s): %r vs %r' % (k, where, a.ravel()[:4], b.ravel()[:4])})
    for k, v in ref.items():
        if not np.isclose(float(res[0][k]), v, rtol=1e-12, atol=0):
            out.append({'sig': 'moment/value/%s' % k, 'msg': '%r vs reference %r' % (res[0][k], v)})
    cw = np.asarray(res[1]['CumulativeWeightedMomentFromN3'], dtype=float)
    refcw = np.cumsum(N * r ** 3 * w)
    if cw.shape == refcw.shape and not np.allclose(cw, refcw, rtol=1e-12, atol=0):
        out.append({'sig': 'moment/value/CumulativeWeightedMomentFromN3',
                    'msg': 'cumulative weighted moment of the supplied N is %r, expected %r' % (cw[:3], refcw[:3])})
    return out


def transition_oracles(st, op, info, hist):
    p = st.pbm
    pre = info['pre']
    out = []
    hs = ','.join(hist[-2:] + [op])

    def bad(kind, msg, detail=None):
        out.append({'sig': 'op/%s/base=%s/%s' % (kind, st.base, detail if detail is not None else hs), 'msg': '%s after %s: %s' % (kind, hist + [op], msg)})
    kind = info['kind']
    if kind == 'extend' or info.get('extended'):
        nb = pre['bins']
        if p.bins <= nb:
            bad('extend-no-growth', 'bins %d -> %d' % (nb, p.bins))
        else:
            if not np.allclose(p.PSDbounds[:nb + 1], pre['bounds'], rtol=REL, atol=0):
                bad('extend-moved-bounds', 'first %d bounds changed' % (nb + 1))
            if np.asarray(p.PSD[:nb]).tobytes() != np.asarray(pre['psd'], dtype=float).tobytes():
                bad('extend-changed-populations', 'existing populations changed')
            if np.any(np.asarray(p.PSD[nb:]) != 0):
                bad('extend-new-classes-populated', repr(p.PSD[nb:]))
    if kind == 'remesh' and info.get('stated'):
        lo, hi, nb_ = info['stated']
        hi = max(10 * lo, hi)      # constructor and re-mesh alike keep at least a decade between the two ends
        if p.bins != nb_ or abs(p.PSDbounds[0] - lo) > REL * hi or abs(p.PSDbounds[-1] - hi) > REL * hi or p.min != p.PSDbounds[0] or p.max != p.PSDbounds[-1]:
            bad('remesh-not-as-stated', 'asked for [%r, %r] with %d classes, got [%r, %r] with %d (min=%r max=%r)'
                % (lo, hi, nb_, p.PSDbounds[0], p.PSDbounds[-1], p.bins, p.min, p.max), detail=op)
    if kind == 'remesh' or info.get('remeshed'):
        popl = np.nonzero(pre['psd'] > 0)[0]
        covered = True
        if len(popl):
            lo_old, hi_old = pre['bounds'][popl[0]], pre['bounds'][popl[-1] + 1]
            covered = (lo_old >= p.PSDbounds[0] * (1 - 1e-12)) and (hi_old <= p.PSDbounds[-1] * (1 + 1e-12))
        m3 = float(np.sum(p.PSD * p.PSDsize ** 3))
        if covered and abs(m3 - pre['m3']) > 1e-10 * abs(pre['m3']):
            npop = len(popl)
            bad('remesh-M3-not-conserved',
                'third moment %r -> %r (bins %d -> %d, %d populated classes)' % (pre['m3'], m3, pre['bins'], p.bins, npop),
                detail='%s/populated=%s/bins=%d->%d' % (op, 'single' if npop == 1 else ('few' if npop <= 3 else 'many'), pre['bins'], p.bins))
    if kind == 'adjust':
        if p._adaptiveBinSize and p.bins > p.maxBins:
            bad('adjust-exceeds-maxBins', 'bins=%d maxBins=%d' % (p.bins, p.maxBins))
        if not info['change']:
            if p.bins != pre['bins'] or np.asarray(p.PSD).tobytes() != pre['psd'].tobytes():
                bad('adjust-silent-change', 'reported no change but grid/PSD changed')
    if kind == 'update':
        given = info['given']
        exp = given.copy()
        exp[exp < 1] = 0      # the documented removal of classes holding less than one particle
        if np.asarray(p.PSD, dtype=float).tobytes() != exp.tobytes():
            bad('update-psd', 'PSD after update differs from the supplied distribution with <1 classes removed')
        if p._record:
            row_b = p._recordedBins[-1]
            row_p = p._recordedPSD[-1]
            nb = p.bins
            if p._recordedTime.shape[0] != st.nrec or p._recordedPSD.shape[0] != st.nrec or p._recordedBins.shape[0] != st.nrec:
                bad('record-rows', 'expected %d rows, got %r' % (st.nrec, p._recordedPSD.shape))
            elif (row_b[:nb + 1].tobytes() != np.asarray(p.PSDbounds, dtype=float).tobytes()
                  or row_p[:nb].tobytes() != np.asarray(p.PSD, dtype=float).tobytes()
                  or np.any(row_b[nb + 1:] != 0) or np.any(row_p[nb:] != 0) or p._recordedTime[-1] != st.t):
                bad('record-row-content', 'last recorded row does not equal the current grid/PSD padded with zeros')
    if kind == 'revert':
        a, b = st.backup_seen
        if (np.asarray(p.PSD).tobytes() != a.tobytes() or np.asarray(p.PSDbounds).tobytes() != b.tobytes()):
            bad('revert', 'state after revert differs from what createBackup saw')
    if kind == 'reset':
        cmin, cmax, bins, _, _, _, _ = BASES[st.base]
        ref = np.linspace(cmin, max(10 * cmin, cmax), bins + 1)
        if p.bins != bins or np.asarray(p.PSDbounds).tobytes() != ref.tobytes() or np.any(p.PSD != 0):
            bad('reset', 'grid after reset is not the constructor grid')
    if kind == 'rectime':
        if info['row'] is not None:
            rb, rp = info['row_b'], info['row_p']
            nz = int(np.count_nonzero(rb))
            if nz == 0:
                cmin, cmax, bins, _, _, _, _ = BASES[st.base]
                wantb, wantp = np.linspace(cmin, max(10 * cmin, cmax), bins + 1), np.zeros(bins)
            else:
                wantb, wantp = rb[:nz], rp[:nz - 1]
            if np.asarray(p.PSDbounds, dtype=float).tobytes() != np.asarray(wantb, dtype=float).tobytes() \
                    or np.asarray(p.PSD, dtype=float).tobytes() != np.asarray(wantp, dtype=float).tobytes():
                bad('recorded-time-row', 'state after setPSDtoRecordedTime differs from the recorded row %d' % info['row'], detail=op)
    if kind == 'load':
        if float(np.sum(p.PSD)) != float(info['ndata']):
            bad('load-count', 'loaded %d radii, PSD sums to %r' % (info['ndata'], float(np.sum(p.PSD))))
        if np.asarray(p.PSDbounds).tobytes() != pre['bounds'].tobytes():
            bad('load-moved-bounds', 'bounds changed')
    return out


def build(base, hist):
    st = St(base)
    for op in hist:
        apply(st, op)
    return st


def expand(case):
    base, hist = case['base']['base'], case['hist']
    ops = case['base']['ops']
    st = build(base, hist)
    res = {'canon': canon(st), 'viol': [], 'succ': []}
    if not hist:
        res['viol'] = invariants(st, 'init') + moment_purity(st, 'init')
    for op in ops:
        if not enabled(st, op):
            continue
        s2 = copy.deepcopy(st)
        viol = []
        try:
            info = apply(s2, op)
        except Exception as e:
            viol.append({'sig': 'op/exception/base=%s/%s/%s' % (base, op, type(e).__name__),
                         'msg': 'history %r then %s raised %s: %s' % (hist, op, type(e).__name__, e)})
            res['succ'].append({'op': op, 'canon': 'dead', 'viol': viol, 'dead': True, 'outcome': 'exception'})
            continue
        viol += invariants(s2, op)
        if viol:
            # an inconsistent grid is reported and not explored further (the other oracles assume consistency)
            res['succ'].append({'op': op, 'canon': 'dead', 'viol': viol, 'dead': True, 'outcome': 'inconsistent'})
            continue
        viol += transition_oracles(s2, op, info, hist)
        viol += moment_purity(s2, op)
        oc = info['kind']
        if info.get('remeshed'):
            oc += '+remesh'
        if info.get('extended'):
            oc += '+extend'
        res['succ'].append({'op': op, 'canon': canon(s2), 'viol': viol, 'outcome': oc})
    return res


def run(ctx):
    quick = ctx.quick
    depth = 4 if quick else 5
    ops = OPS_QUICK if quick else OPS_THOROUGH
    bases = ['A', 'B', 'C'] if quick else ['A', 'B', 'C', 'D']
    ctx.rule = ('BFS over all histories of grid operations up to the depth on a real PopulationBalanceModel (state = history, '
                'rebuilt by replay; dedup by canonical grid+population+backup+flags+recorded rows); a state counts once')
    ctx.bounds = {'depth': depth, 'operations': ops, 'bases': {b: BASES[b] for b in bases}}
    ctx.assumptions = ['manual re-meshing keeps at least minBins/2+1 classes',
                       'revert is enabled only when a backup has been taken since the last reset/re-mesh (reset overwrites the backup)',
                       'UpdatePBMEuler with recording in adaptive mode is enabled only while bins <= maxBins (the models call adjustSizeClassesEuler right after each update)']
    for b in bases:
        ctx.bfs('hist-%s' % b, 'checks.c08:expand', [], depth, base={'base': b, 'ops': ops})
    if not quick:
        # the full operation alphabet one level shallower
        for b in bases:
            ctx.bfs('hist-full-%s' % b, 'checks.c08:expand', [], 4, base={'base': b, 'ops': OPS_QUICK})
