"""C16 - Eshelby elastic strain energy is a positive, volume-proportional quadratic form.

Bounded exhaustive exploration of the real kawin.precipitation.parameters.ElasticFactors / LebedevNodes:

  stage product   full product  matrix stiffness x rotation x semi-axes  (one case each)  x  precipitate
                  stiffness x quadrature order x 3x3-inverse routine x eigenstrain x size scale x
                  eigenstrain multiple (enumerated inside the case), every energy method of the ellipsoidal
                  description on every point.
  stage setters   every order (4!, 5!, 6!) of the setters {rotation, precipitate rotation, matrix stiffness,
                  precipitate stiffness, eigenstrain, shape} on a fresh StrainEnergy against one canonical order.
  stage lebedev   every monomial x^a y^b z^c, a+b+c <= stated order, for the three rules (vectorised).
  stage conv      tensor-rank conversions, rotations and every pair of the six elastic moduli.

Oracles (preference order of the author guide): structural facts, differential equality of two executions of
the real code, independent references written here from the maths (closed forms, textbook Eshelby tensor of
a sphere, Mura's form of the Eshelby tensor integrated with Gauss-Legendre x trapezoid, Mandel 6x6 algebra).
Nothing in the references calls the code under test.

What is asserted and why it is mathematically guaranteed is written next to each oracle.  In particular
rotation invariance is asserted only (a) for isotropic matrix AND precipitate stiffness (the rotated tensor is
the same tensor) and (b) for a consistent re-labelling of the axes by a signed permutation P (stiffness
rotation P.R, eigenstrain P e P^T, semi-axes permuted): the same physical system in other coordinates, and the
octahedrally symmetric Lebedev grid is mapped onto itself, so the equality holds to rounding.  The energy of a
sphere in a cubic matrix with a non-dilatational eigenstrain DOES depend on the orientation; that is not asserted.
"""
import itertools
import math

PROPERTY = 'C16'
LEVEL = 'exploration'

np = None
EF = None
LN = None


def _exact_sphere_rule(order):
    """Gauss-Legendre (in cos theta) x uniform (in phi) product rule, exact for every polynomial of degree <= order on the
    sphere, in the (phi, theta, weights) layout of LebedevNodes.loadPoints (weights sum to 1: the caller multiplies
    by 8*dA = 4 pi)."""
    n = (order + 2) // 2
    nphi = 2 * n
    xs, ws = np.polynomial.legendre.leggauss(n)
    th = np.arccos(xs)
    ph = (np.arange(nphi) + 0.5) * (2 * np.pi / nphi)
    PH, TH = np.meshgrid(ph, th)
    W = np.repeat(ws[:, None], nphi, axis=1) * (0.5 / nphi)
    return PH.ravel(), TH.ravel(), W.ravel()


_LEB_REPAIR = [
    ("s1 = np.array([1, 1, 1, 1, 2, 2, 2, 2, 3, 3, 3, 3])", "s1 = np.array([2, 2, 2, 2, 1, 1, 1, 1, 3, 3, 3, 3])"),
    ("s1 = np.array([1, 1, 1, 1, 3, 3, 3, 3])\n            theta = np.concatenate((theta, s1*np.pi/4))",
     "t3 = np.arccos(1/np.sqrt(3))\n            s1 = np.array([t3, t3, t3, t3, np.pi-t3, np.pi-t3, np.pi-t3, np.pi-t3])\n            theta = np.concatenate((theta, s1))"),
    ("u = np.argmin(t)\n            l = np.argmax(t)", "u = np.argmin(np.abs(p - np.pi/4))\n            l = 1 - u"),
    ("(np.pi/2-p[1])+op", "(np.pi/2-p[l])+op"),
]


def _rule_is_exact(fn):
    for order in (53, 83, 131):
        phi, th, w = fn(order)
        x, y, z = np.sin(th) * np.cos(phi), np.sin(th) * np.sin(phi), np.cos(th)
        for mono, ex in (((0, 0, 2), 1 / 3), ((2, 2, 0), 1 / 15), ((4, 0, 2), 1 / 35), ((3, 1, 0), 0.0), ((2, 2, 2), 1 / 105)):
            if abs(float(np.sum(w * x ** mono[0] * y ** mono[1] * z ** mono[2])) - ex) > 1e-12:
                return False
    return True


def _corrected_lebedev():
    """The shipped tables expanded with a corrected orbit expansion (the three slips in loadPoints repaired textually in a
    copy of its source).  If the shipped function is already exact it is used as it is; if the repair does not yield an
    exact rule the harness stops (HARNESS-ERROR) rather than checking with an unknown quadrature."""
    import inspect
    if _rule_is_exact(LN.loadPoints):
        return LN.loadPoints
    src = inspect.getsource(LN.loadPoints)
    for old, new in _LEB_REPAIR:
        if old not in src:
            raise RuntimeError('LebedevNodes.loadPoints changed: the harness-side repair no longer applies (%r)' % old[:40])
        src = src.replace(old, new)
    ns = dict(LN.__dict__)
    exec(src, ns)
    fixed = ns['loadPoints']
    # if the tables themselves are wrong (e.g. a mistyped weight) the repaired expansion is not exact either: that is
    # reported by the 'lebedev-tables' stage (and shows in the other stages), it is not a harness error
    return fixed


def prepare():
    global np, EF, LN
    import numpy as np
    from kawin.precipitation.parameters import ElasticFactors as EF
    from kawin.precipitation.parameters import LebedevNodes as LN
    # KNOWN FINDING (see known_findings.json, sigs lebedev/order=*/inexact/*): the shipped loadPoints() does not expand the
    # Lebedev orbits correctly (duplicate points; x^2 integrates to 0.322 instead of 1/3) and the repair cannot be
    # committed because three pinned values in the repository's own tests were produced with the defective rule.
    # The quadrature clause of C16 is decided by the 'lebedev' stage on the SHIPPED rule; so that the quadrature defect does
    # not mask everything else, the remaining stages own the quadrature (as engine E4 owns thermodynamics): the name
    # ElasticFactors.loadPoints is bound to the shipped tables with a corrected orbit expansion.  LN.loadPoints stays untouched.
    EF.loadPoints = _corrected_lebedev()


# ------------------------------------------------------------------------------------------------------
# tolerances (each with its origin)

RTOL_SCALE = 1e-10     # E(s r) = s^3 E(r), E(k eps) = k^2 E(eps): same algorithm on scaled input; only rounding of
                       # ~6e3 summed quadrature terms and of a 6x6 solve (cond <= ~1e3) differs
RTOL_SAME = 1e-9       # two algebraically identical routes through the real code (6x6 vs 3x3x3x3, Cramer vs LAPACK
                       # 3x3 inverse, Bohm with C_p = C_m vs homogeneous formula): cond(6x6) <= ~1e3 times 1e-13
RTOL_EXACT = 1e-9      # closed forms for isotropic matrix + sphere: the integrand is a polynomial of degree 4 in n, which
                       # each rule integrates exactly (weights are tabulated with 12 significant digits -> 1e-11)
ATOL_S = 1e-10         # Eshelby tensor components are O(1); same argument as RTOL_EXACT
REF_FLOOR = 1e-8       # reference Eshelby tensor converged to 1e-11 (absolute, components O(1)), amplified by the 6x6
                       # solve of the inhomogeneity problem (cond <= ~1e3)
REF_FACTOR = 10.0      # |E_order - E_ref| <= REF_FACTOR*|E_order - E_next_lower_order| + REF_FLOOR*|E_ref| : the
                       # quadrature converges geometrically for these analytic integrands, so the difference between two
                       # consecutive orders bounds the error of the higher one
ATOL_LEB = 1e-12       # DESIGN: monomial integrals (normalised to the sphere average, |value| <= 1) exact to 1e-12;
                       # the tabulated weights carry 15 decimals and there are < 6e3 of them
RTOL_LEB = 1e-9        # even monomials additionally to 1e-9 relative (their exact value can be 1e-30): all terms of the sum are
                       # positive, the tabulated weights carry >= 10 significant digits (5e-11), the node angles 16 digits
                       # amplified by the degree (131 * 1e-16)
RTOL_MOD = 1e-9        # modulus conversions: a handful of flops and one 6x6 inverse of the compliance (cond <= ~3e2 for
                       # nu <= 0.49)

# ------------------------------------------------------------------------------------------------------
# alphabet

GPA = 1e9
# isotropic materials are defined by (E, nu); the other four moduli follow from textbook formulas (all_moduli)
ISO = {'isoA': (168.4 * GPA, 0.3), 'isoB': (151.886 * GPA, 0.33), 'isoP': (260.0 * GPA, 0.2)}
# cubic materials (c11, c12, c44); Zener ratio 2 c44/(c11-c12) = 3, 1, 0.5; all mechanically stable
CUB = {'cubA3': (168.4 * GPA, 121.4 * GPA, 70.5 * GPA), 'cubA1': (168.4 * GPA, 121.4 * GPA, 23.5 * GPA),
       'cubA05': (168.4 * GPA, 121.4 * GPA, 11.75 * GPA)}
# matrix level -> (material, API route)
MATRICES = {
    'isoA:E,nu': ('isoA', 'moduli:E,nu'), 'isoB:G,K': ('isoB', 'moduli:G,K'), 'isoA:lam,M': ('isoA', 'moduli:lam,M'),
    'cubA3:const': ('cubA3', 'constants'), 'cubA1:const': ('cubA1', 'constants'), 'cubA05:const': ('cubA05', 'constants'),
    'cubA3:tensor': ('cubA3', 'tensor'),
}
PRECS = ['none', 'same', 'soft', 'stiff', 'isoP']      # soft = 0.5 x matrix, stiff = 3 x matrix, isoP = another isotropic solid
EIGS = {
    'dil': 0.01,
    'tet': [0.01, 0.01, 0.03],
    'orth': [0.022, 0.005, -0.003],
    'shear': [[0.0, 0.01, 0.0], [0.01, 0.0, 0.0], [0.0, 0.0, 0.0]],
    'gen': [[0.01, 0.004, -0.002], [0.004, 0.015, 0.003], [-0.002, 0.003, 0.03]],
}
AXES = {'sphere': (1.0, 1.0, 1.0), 'prolate3': (1.0, 1.0, 3.0), 'oblate3': (3.0, 3.0, 1.0), 'triax': (1.0, 2.0, 3.0),
        'xlong': (2.5, 1.0, 1.0), 'needle10': (1.0, 1.0, 10.0), 'plate10': (10.0, 10.0, 1.0)}
R0 = 1e-9
ORDERS = ['low', 'mid', 'high']
INVS = ['quick', 'numpy']
SCALES = [2.0, 10.0]
MULTS = [-1.0, 3.0]
RELABEL = ['x90', 'y90', 'z90']


def rot_matrix(name):
    if name == 'I':
        return [[1.0, 0.0, 0.0], [0.0, 1.0, 0.0], [0.0, 0.0, 1.0]]
    if name == 'x90':
        return [[1.0, 0.0, 0.0], [0.0, 0.0, -1.0], [0.0, 1.0, 0.0]]
    if name == 'y90':
        return [[0.0, 0.0, 1.0], [0.0, 1.0, 0.0], [-1.0, 0.0, 0.0]]
    if name == 'z90':
        return [[0.0, -1.0, 0.0], [1.0, 0.0, 0.0], [0.0, 0.0, 1.0]]
    if name == 'z30':
        c, s = math.cos(math.pi / 6), math.sin(math.pi / 6)
        return [[c, -s, 0.0], [s, c, 0.0], [0.0, 0.0, 1.0]]
    if name == 'gen':      # Rodrigues formula, axis (1,2,3)/sqrt(14), angle 0.7 rad
        ax = [1.0 / math.sqrt(14), 2.0 / math.sqrt(14), 3.0 / math.sqrt(14)]
        return _rodrigues(ax, 0.7)
    if name == 'gen2':     # axis (2,-1,1)/sqrt(6), angle 1.1 rad
        ax = [2.0 / math.sqrt(6), -1.0 / math.sqrt(6), 1.0 / math.sqrt(6)]
        return _rodrigues(ax, 1.1)
    raise KeyError(name)


def _rodrigues(ax, ang):
    c, s = math.cos(ang), math.sin(ang)
    K = [[0.0, -ax[2], ax[1]], [ax[2], 0.0, -ax[0]], [-ax[1], ax[0], 0.0]]
    R = [[0.0] * 3 for _ in range(3)]
    for i in range(3):
        for j in range(3):
            kk = sum(K[i][m] * K[m][j] for m in range(3))
            R[i][j] = (1.0 if i == j else 0.0) + s * K[i][j] + (1 - c) * kk
    return R


# ------------------------------------------------------------------------------------------------------
# independent references (written from the maths; none of them calls kawin)

VOIGT = [(0, 0), (1, 1), (2, 2), (1, 2), (0, 2), (0, 1)]     # order of the 6-vectors documented in ElasticFactors


def all_moduli(E, nu):
    """The six isotropic moduli from (E, nu) (Landau & Lifshitz / any elasticity text)."""
    G = E / (2 * (1 + nu))
    lam = E * nu / ((1 + nu) * (1 - 2 * nu))
    K = E / (3 * (1 - 2 * nu))
    M = lam + 2 * G
    return {'E': E, 'nu': nu, 'G': G, 'lam': lam, 'K': K, 'M': M}


def material_constants(mat):
    """(c11, c12, c44) of a named material."""
    if mat in ISO:
        m = all_moduli(*ISO[mat])
        return (m['lam'] + 2 * m['G'], m['lam'], m['G'])
    return CUB[mat]


def ref_c4(c11, c12, c44):
    """C_ijkl = c12 d_ij d_kl + c44 (d_ik d_jl + d_il d_jk) + (c11 - c12 - 2 c44) d_ijkl   (cubic, crystal axes)."""
    C = np.zeros((3, 3, 3, 3))
    for i, j, k, l in itertools.product(range(3), repeat=4):
        v = c12 * (i == j) * (k == l) + c44 * ((i == k) * (j == l) + (i == l) * (j == k))
        if i == j == k == l:
            v += c11 - c12 - 2 * c44
        C[i, j, k, l] = v
    return C


def ref_voigt66(c11, c12, c44):
    c = np.zeros((6, 6))
    for i in range(3):
        for j in range(3):
            c[i, j] = c11 if i == j else c12
        c[3 + i, 3 + i] = c44
    return c


def ref_rot4(R, C):
    return np.einsum('im,jn,ko,lp,mnop->ijkl', R, R, R, R, C)


def ref_mandel(C4):
    """6x6 Mandel matrix of a 4th-rank tensor with minor symmetries: double contraction = matrix product,
    tensor inverse = matrix inverse (no weight bookkeeping needed)."""
    M = np.zeros((6, 6))
    for I, (i, j) in enumerate(VOIGT):
        for J, (k, l) in enumerate(VOIGT):
            M[I, J] = C4[i, j, k, l] * (math.sqrt(2) if i != j else 1.0) * (math.sqrt(2) if k != l else 1.0)
    return M


def ref_mandel_vec(e):
    return np.array([e[i, j] * (math.sqrt(2) if i != j else 1.0) for i, j in VOIGT])


def ref_S_sphere_iso(nu):
    """Textbook Eshelby tensor of a sphere in an isotropic medium (Mura 1987, eq. 11.21):
    S_ijkl = (5nu-1)/(15(1-nu)) d_ij d_kl + (4-5nu)/(15(1-nu)) (d_ik d_jl + d_il d_jk)."""
    S = np.zeros((3, 3, 3, 3))
    a = (5 * nu - 1) / (15 * (1 - nu))
    b = (4 - 5 * nu) / (15 * (1 - nu))
    for i, j, k, l in itertools.product(range(3), repeat=4):
        S[i, j, k, l] = a * (i == j) * (k == l) + b * ((i == k) * (j == l) + (i == l) * (j == k))
    return S


def _S_mura(C4, a, n):
    """Mura 1987 eq. (17.19)-(17.21): S_ijmn = 1/(8 pi) C_pqmn int_{-1}^{1} dz int_0^{2pi} dth [G_ipjq + G_jpiq],
    G_ijkl = xi_k xi_l (K^-1)_ij, K_ik = C_ijkl xi_j xi_l, xi_i = zeta_i / a_i, zeta on the unit sphere.
    Gauss-Legendre (n nodes) in z, periodic trapezoid (2n nodes) in theta."""
    zs, wz = np.polynomial.legendre.leggauss(n)
    th = (np.arange(2 * n) + 0.5) * (math.pi / n)
    Z, T = np.meshgrid(zs, th, indexing='ij')
    W = (wz[:, None] * (math.pi / n) * np.ones_like(T)).ravel()
    Z, T = Z.ravel(), T.ravel()
    s = np.sqrt(1 - Z * Z)
    xi = np.array([s * np.cos(T) / a[0], s * np.sin(T) / a[1], Z / a[2]])           # (3, N)
    A = (xi[:, None, :] * xi[None, :, :]).transpose(2, 0, 1).reshape(-1, 9)            # (N, jl)
    K = (A @ C4.transpose(1, 3, 0, 2).reshape(9, 9)).reshape(-1, 3, 3)                 # K_n,ik = C_ijkl xi_j xi_l
    Kinv = np.linalg.inv(K).reshape(-1, 9)
    G = ((Kinv * W[:, None]).T @ A).reshape(3, 3, 3, 3)                                # int G_ijkl
    S = np.einsum('pqmn,ipjq->ijmn', C4, G) + np.einsum('pqmn,jpiq->ijmn', C4, G)
    return S / (8 * math.pi)


def ref_S(C4, axes):
    """Reference Eshelby tensor, node count doubled until two successive results agree to 1e-11."""
    a = [x / max(axes) for x in axes]
    n = 32
    S0 = _S_mura(C4, a, n)
    while True:
        n *= 2
        S1 = _S_mura(C4, a, n)
        err = float(np.max(np.abs(S1 - S0)))
        if err < 1e-11:
            return S1, n, err
        if n >= 1024:
            raise RuntimeError('reference Eshelby tensor not converged: %g at n=%d' % (err, n))    # harness error
        S0 = S1


def ref_energy(CM4, CP4, S4, eig, V):
    """Equivalent-inclusion method (Eshelby 1957; Mura ch. 4): the inhomogeneity with stiffness C* and stress-free
    strain e* is replaced by an inclusion with e** where  [(C*-C) S + C] e** = C* e* ; stress inside
    sigma = C (S - I) e** ;  energy = -1/2 V sigma : e*.   Homogeneous case: e** = e*."""
    CM, S, e = ref_mandel(CM4), ref_mandel(S4), ref_mandel_vec(eig)
    I = np.eye(6)
    if CP4 is None:
        ee = e
    else:
        CP = ref_mandel(CP4)
        ee = np.linalg.solve((CP - CM) @ S + CM, CP @ e)
    return float(-0.5 * V * e @ (CM @ (S - I) @ ee))


def eig_tensor(val):
    v = np.array(val, dtype=float)
    if v.ndim == 0:
        return float(v) * np.eye(3)
    if v.ndim == 1:
        return np.diag(v)
    return v


def has_shear_coupling(C4):
    """True when the 6x6 form couples normal and shear components or different shear components."""
    c11 = abs(C4[0, 0, 0, 0])
    for I, (i, j) in enumerate(VOIGT):
        for J, (k, l) in enumerate(VOIGT):
            if I != J and (I >= 3 or J >= 3) and abs(C4[i, j, k, l]) > 1e-9 * c11:
                return True
    return False


# ------------------------------------------------------------------------------------------------------
# driving the real API

def prec_constants(matname, prec):
    """(material kind, constants) of the precipitate level for a matrix level; None when not set."""
    mat, _ = MATRICES[matname]
    if prec == 'none':
        return None
    if prec == 'isoP':
        return ('iso', ISO['isoP'])
    f = {'same': 1.0, 'soft': 0.5, 'stiff': 3.0}[prec]
    if mat in ISO:
        E, nu = ISO[mat]
        return ('iso', (f * E, nu))
    c = CUB[mat]
    return ('cub', (f * c[0], f * c[1], f * c[2]))


def prec_c4(pc):
    if pc is None:
        return None
    if pc[0] == 'iso':
        m = all_moduli(*pc[1])
        return ref_c4(m['lam'] + 2 * m['G'], m['lam'], m['G'])
    return ref_c4(*pc[1])


def api_set_matrix(se, matname):
    mat, route = MATRICES[matname]
    if route.startswith('moduli:'):
        m = all_moduli(*ISO[mat])
        se.setModuli(**{k: m[k] for k in route[7:].split(',')})
    elif route == 'constants':
        se.setElasticConstants(*CUB[mat])
    elif route == 'tensor':
        se.setElasticTensor(ref_voigt66(*CUB[mat]).tolist())
    else:
        raise KeyError(route)


def api_set_prec(se, matname, prec):
    pc = prec_constants(matname, prec)
    if pc is None:
        return
    _, route = MATRICES[matname]
    if pc[0] == 'iso':
        E, nu = pc[1]
        se.setModuliPrecipitate(E=E, nu=nu)
    elif route == 'tensor':
        se.setElasticTensorPrecipitate(ref_voigt66(*pc[1]).tolist())
    else:
        se.setElasticConsantsPrecipitate(*pc[1])


def api_object(matname, prec, R):
    """Canonical order: rotations first, then shape, stiffness, precipitate stiffness (eigenstrain, quadrature order and
    inverse routine by the caller)."""
    se = EF.StrainEnergy()
    se.setRotationMatrix(R)
    se.setRotationPrecipitate(R)
    se.setEllipsoidal()
    api_set_matrix(se, matname)
    api_set_prec(se, matname, prec)
    return se


def api_energies(se, r, homogeneous, full=True):
    """Bohm = StrainEnergy.compute (the path the precipitation model uses); the homogeneous formulas ignore the
    precipitate stiffness and are evaluated only when none is set."""
    d = se.description
    out = {'Bohm': float(se.compute(r))}
    if full:
        out['Bohm2ndRank'] = float(d.strainEnergyBohm2ndRank(r))
    if homogeneous:
        out['Ellipsoid'] = float(d.strainEnergyEllipsoid(r))
        if full:
            out['Ellipsoid2ndRank'] = float(d.strainEnergyEllipsoid2ndRank(r))
    return out


def bulk_modulus(pc):
    if pc[0] == 'iso':
        return all_moduli(*pc[1])['K']
    return (pc[1][0] + 2 * pc[1][1]) / 3


class Viol:
    """Violations de-duplicated by signature inside one case (first message kept, occurrences counted)."""

    def __init__(self):
        self.d = {}
        self.order = []

    def add(self, sig, msg):
        if sig not in self.d:
            self.d[sig] = [msg, 0]
            self.order.append(sig)
        self.d[sig][1] += 1

    def out(self):
        return [{'sig': s, 'msg': '%s  [%d occurrence(s) in this case]' % (self.d[s][0], self.d[s][1])} for s in self.order]


def close(a, b, rtol):
    return math.isfinite(a) and math.isfinite(b) and abs(a - b) <= rtol * max(abs(a), abs(b))


# ------------------------------------------------------------------------------------------------------
# stage 1: product

def run_group(case):
    matname, rotname, axname = case['matrix'], case['rot'], case['axes']
    precs, orders, invs, eigs = case['precs'], case['orders'], case['invs'], case['eigs']
    scales, mults, relabel = case['scales'], case['mults'], case['relabel']
    mat, route = MATRICES[matname]
    V = Viol()
    nstates = ntrans = 0
    labels = set()

    R = np.array(rot_matrix(rotname))
    axes = AXES[axname]
    r = np.array(axes) * R0
    vol = 4 * math.pi / 3 * float(np.prod(r))
    CM0 = ref_c4(*material_constants(mat))
    CM = ref_rot4(R, CM0)
    iso_m = mat in ISO or mat == 'cubA1'
    sphere = axname == 'sphere'
    if iso_m and sphere:
        c11, c12, c44 = material_constants(mat)
        nu_m = c12 / (c11 + c12)                      # nu = lam / (2 (lam + G)), c11 + c12 = 2 (lam + G)
        Sref, nref, sref_err = ref_S_sphere_iso(nu_m), 0, 0.0
        exact = True
        labels.add('iso-sphere:textbook')
    else:
        Sref, nref, sref_err = ref_S(CM, axes)
        exact = False
        labels.add('reference:n=%d' % nref)
    couple_m = has_shear_coupling(CM)

    def cls(eigname, CP=None):
        sh = couple_m or bool(np.any(np.abs(eig_tensor(EIGS[eigname]) - np.diag(np.diag(eig_tensor(EIGS[eigname])))) > 0))
        if CP is not None:
            sh = sh or has_shear_coupling(CP)
        return 'shear' if sh else 'noshear'

    def tag(prec, order, inv, eigname):
        return 'matrix=%s rot=%s axes=%s prec=%s order=%s inv=%s eig=%s' % (matname, rotname, axname, prec, order, inv, eigname)

    E = {}           # (prec, order, inv, eig) -> {method: energy}
    for prec in precs:
        pc = prec_constants(matname, prec)
        CP0 = prec_c4(pc)
        CP = ref_rot4(R, CP0) if CP0 is not None else None
        iso_p = pc is None and iso_m or (pc is not None and (pc[0] == 'iso' or mat == 'cubA1'))
        homog = prec in ('none', 'same')
        try:
            se = api_object(matname, prec, R)
            d = se.description
        except Exception as e:      # the property promises an energy for every stable input
            V.add('product/exception/setup/%s' % type(e).__name__, '%s: %r' % (tag(prec, '-', '-', '-'), e))
            continue
        for order in orders:
            d.setLebedevIntegration(order)
            for inv in invs:
                d.setOhmInverseFunction(inv)
                # -- textbook Eshelby tensor of a sphere in an isotropic matrix, all 81 components
                if exact and prec == precs[0]:
                    try:
                        Scode = d.Sijmn(d.Dijkl(r, se.params.cMatrix_4th))
                        dev = float(np.max(np.abs(Scode - Sref)))
                        ntrans += 81
                        if not dev <= ATOL_S:
                            ijkl = np.unravel_index(int(np.argmax(np.abs(Scode - Sref))), Scode.shape)
                            V.add('product/eshelby-tensor/Sijmn/noshear',
                                  '%s: S%s = %.12g, textbook %.12g (max deviation %.3g > %g)'
                                  % (tag(prec, order, inv, '-'), tuple(int(x) + 1 for x in ijkl), Scode[ijkl], Sref[ijkl], dev, ATOL_S))
                    except Exception as e:
                        V.add('product/exception/Sijmn/%s' % type(e).__name__, '%s: %r' % (tag(prec, order, inv, '-'), e))
                for eigname in eigs:
                    key = (prec, order, inv, eigname)
                    eps = eig_tensor(EIGS[eigname])
                    c = cls(eigname, CP)
                    t = tag(prec, order, inv, eigname)
                    try:
                        se.setEigenstrain(EIGS[eigname])
                        en = api_energies(se, r, prec == 'none')
                    except Exception as e:
                        V.add('product/exception/energy/%s' % type(e).__name__, '%s: %r' % (t, e))
                        continue
                    E[key] = en
                    nstates += len(en)
                    # -- (1) non-negative: E = 1/2 int sigma:C^-1:sigma over all space for the exact Eshelby field;
                    #    the eigenstrains of the alphabet are far from an invariant-plane strain, so the exact
                    #    energy is > 0 with a margin of tens of percent, far above any quadrature error
                    for m, v in en.items():
                        ntrans += 1
                        if not (math.isfinite(v) and v >= 0.0):
                            V.add('product/nonneg/%s/%s' % (m, c), '%s: %s energy = %r' % (t, m, v))
                    # -- (2) cubic scaling with a uniform size scaling: D_ijkl is homogeneous of degree 0 in the radii
                    for s in scales:
                        try:
                            es = api_energies(se, s * r, prec == 'none')
                        except Exception as e:
                            V.add('product/exception/energy/%s' % type(e).__name__, '%s scale=%g: %r' % (t, s, e))
                            continue
                        nstates += len(es)
                        for m in en:
                            ntrans += 1
                            if not close(es[m], s ** 3 * en[m], RTOL_SCALE):
                                V.add('product/cubic-scaling/%s/%s' % (m, c), '%s: %s E(%g r) = %r, %g^3 E(r) = %r'
                                      % (t, m, s, es[m], s, s ** 3 * en[m]))
                    # -- (3) quadratic in the eigenstrain: every formula is a quadratic form in eps
                    for k in mults:
                        try:
                            se.setEigenstrain((k * eps).tolist())
                            ek = api_energies(se, r, prec == 'none')
                        except Exception as e:
                            V.add('product/exception/energy/%s' % type(e).__name__, '%s mult=%g: %r' % (t, k, e))
                            continue
                        nstates += len(ek)
                        for m in en:
                            ntrans += 1
                            if not close(ek[m], k * k * en[m], RTOL_SCALE):
                                V.add('product/quadratic-scaling/%s/%s' % (m, c), '%s: %s E(%g eps) = %r, %g^2 E(eps) = %r'
                                      % (t, m, k, ek[m], k, k * k * en[m]))
                    # -- (4) 6x6 and 3x3x3x3 formulations are the same contraction written in two index conventions
                    for m2, m4 in (('Ellipsoid2ndRank', 'Ellipsoid'), ('Bohm2ndRank', 'Bohm')):
                        if m2 in en:
                            ntrans += 1
                            if not close(en[m2], en[m4], RTOL_SAME):
                                V.add('product/rank-agree/%s/%s' % (m2, c), '%s: %s = %r but %s = %r (ratio %.6g)'
                                      % (t, m2, en[m2], m4, en[m4], en[m2] / en[m4] if en[m4] else float('nan')))
                    # -- (6) homogeneous-inclusion limit: with C_p = C_m the equivalent eigenstrain is the eigenstrain
                    if homog:
                        base = E.get(('none', order, inv, eigname), {}).get('Ellipsoid')
                        if base is not None:
                            ntrans += 1
                            if not close(en['Bohm'], base, RTOL_SAME):
                                V.add('product/homog-limit/Bohm/%s' % c, '%s: Bohm (compute) = %r, homogeneous inclusion '
                                      'strainEnergyEllipsoid = %r (ratio %.6g)' % (t, en['Bohm'], base, en['Bohm'] / base if base else float('nan')))
                    # -- (7) closed forms, isotropic matrix + sphere
                    if exact:
                        labels.add('closed-form')
                        eref = ref_energy(CM, CP, Sref, eps, vol)
                        for m in ('Ellipsoid', 'Bohm'):
                            if m in en:
                                ntrans += 1
                                if not close(en[m], eref, RTOL_EXACT):
                                    V.add('product/closed-form/%s/%s' % (m, c), '%s: %s = %r, textbook Eshelby tensor + '
                                          'equivalent inclusion = %r (rel %.3g)' % (t, m, en[m], eref, en[m] / eref - 1))
                        if eigname == 'dil' and iso_p:
                            e0 = float(eps[0, 0])
                            c11, c12, c44 = material_constants(mat)
                            if homog:
                                G, nu = c44, c12 / (c11 + c12)
                                ecf = 2 * G * (1 + nu) / (1 - nu) * e0 ** 2 * vol          # the statement's closed form
                            else:
                                Kp = bulk_modulus(pc)
                                ecf = 18 * Kp * c44 / (3 * Kp + 4 * c44) * e0 ** 2 * vol    # misfitting sphere, K_p, G_m
                            ntrans += 1
                            if not close(en['Bohm'], ecf, RTOL_EXACT):
                                V.add('product/closed-form-dilatation/Bohm/%s' % c, '%s: compute = %r, closed form = %r (rel %.3g)'
                                      % (t, en['Bohm'], ecf, en['Bohm'] / ecf - 1))
                            if homog and order == orders[0] and inv == invs[0]:
                                # spherical (Khachaturyan) approximation reduces to the same closed form for c11-c12 = 2 c44
                                try:
                                    sp = EF.StrainEnergy('sphere')
                                    sp.setRotationMatrix(R)
                                    api_set_matrix(sp, matname)
                                    api_set_prec(sp, matname, prec)
                                    sp.setEigenstrain(EIGS[eigname])
                                    esp = float(sp.compute(r))
                                    ntrans += 1
                                    nstates += 1
                                    if not close(esp, ecf, RTOL_EXACT):
                                        V.add('product/closed-form-dilatation/SphericalApprox/%s' % c,
                                              '%s: spherical approximation = %r, closed form %r' % (t, esp, ecf))
                                except Exception as e:
                                    V.add('product/exception/spherical/%s' % type(e).__name__, '%s: %r' % (t, e))
    # -- (5) both 3x3 inversion routines
    for (prec, order, inv, eigname), en in E.items():
        if inv != invs[0]:
            continue
        for inv2 in invs[1:]:
            en2 = E.get((prec, order, inv2, eigname))
            if en2 is None:
                continue
            for m in en:
                ntrans += 1
                if not close(en[m], en2[m], RTOL_SAME):
                    V.add('product/inverse-agree/%s' % m, '%s: %s with %s inverse = %r, with %s inverse = %r'
                          % (tag(prec, order, inv, eigname), m, inv, en[m], inv2, en2[m]))
    # -- (10) independent reference for everything that is not the exact case: tolerance from the convergence of the
    #    quadrature itself (REF_FACTOR, REF_FLOOR above); the lowest order is not compared
    if not exact:
        for prec in precs:
            pc = prec_constants(matname, prec)
            CP0 = prec_c4(pc)
            CP = ref_rot4(R, CP0) if CP0 is not None else None
            for eigname in eigs:
                eps = eig_tensor(EIGS[eigname])
                eref = ref_energy(CM, CP, Sref, eps, vol)
                eref_h = ref_energy(CM, None, Sref, eps, vol)
                c = cls(eigname, CP)
                for inv in invs:
                    for hi, lo in zip(orders[1:], orders[:-1]):
                        eh, el = E.get((prec, hi, inv, eigname)), E.get((prec, lo, inv, eigname))
                        if eh is None or el is None:
                            continue
                        for m, ref in (('Bohm', eref), ('Ellipsoid', eref_h)):
                            if m not in eh:
                                continue
                            ntrans += 1
                            tol = REF_FACTOR * abs(eh[m] - el[m]) + REF_FLOOR * abs(ref)
                            if not abs(eh[m] - ref) <= tol:
                                V.add('product/reference/%s/%s' % (m, c), '%s: %s = %r, independent reference (Mura integral n=%d, '
                                      'equivalent inclusion) = %r, rel %.3g; allowed %.3g (order %s gave %r)'
                                      % (tag(prec, hi, inv, eigname), m, eh[m], nref, ref, eh[m] / ref - 1, tol / abs(ref), lo, el[m]))
        labels.add('reference')
    # -- (9a) isotropic matrix and precipitate: the rotated stiffness is the same tensor, so is the energy
    if iso_m and rotname != 'I':
        labels.add('iso-rotation')
        for prec in precs:
            pc = prec_constants(matname, prec)
            if not (pc is None or pc[0] == 'iso' or mat == 'cubA1'):
                continue
            inv = invs[0]
            try:
                se0 = api_object(matname, prec, np.eye(3))
                se0.description.setOhmInverseFunction(inv)
            except Exception as e:
                V.add('product/exception/setup/%s' % type(e).__name__, '%s: %r' % (tag(prec, '-', inv, '-'), e))
                continue
            for order in orders:
                se0.description.setLebedevIntegration(order)
                for eigname in eigs:
                    en = E.get((prec, order, inv, eigname))
                    if en is None:
                        continue
                    try:
                        se0.setEigenstrain(EIGS[eigname])
                        e0 = api_energies(se0, r, prec == 'none', full=False)
                    except Exception as e:
                        V.add('product/exception/energy/%s' % type(e).__name__, '%s: %r' % (tag(prec, order, inv, eigname), e))
                        continue
                    nstates += len(e0)
                    for m in ('Bohm', 'Ellipsoid'):
                        if m in en:
                            ntrans += 1
                            if not close(en[m], e0[m], RTOL_SAME):
                                V.add('product/iso-rotation/%s/%s' % (m, cls(eigname)), '%s: %s = %r with the rotation, %r without '
                                      '(isotropic stiffness)' % (tag(prec, order, inv, eigname), m, en[m], e0[m]))
    # -- (9b) consistent re-labelling of the axes by a signed permutation P
    for pname in relabel:
        labels.add('relabel')
        P = np.array(rot_matrix(pname))
        r2 = np.abs(P) @ r                        # x'_j = +-x_i  ->  a'_j = a_i
        PR = P @ R
        for prec in precs:
            inv = invs[0]
            try:
                se2 = api_object(matname, prec, PR)
                se2.description.setOhmInverseFunction(inv)
            except Exception as e:
                V.add('product/exception/setup/%s' % type(e).__name__, '%s relabel=%s: %r' % (tag(prec, '-', inv, '-'), pname, e))
                continue
            for order in orders:
                se2.description.setLebedevIntegration(order)
                for eigname in eigs:
                    en = E.get((prec, order, inv, eigname))
                    if en is None:
                        continue
                    eps2 = P @ eig_tensor(EIGS[eigname]) @ P.T
                    try:
                        se2.setEigenstrain(eps2.tolist())
                        e2 = api_energies(se2, r2, prec == 'none', full=False)
                    except Exception as e:
                        V.add('product/exception/energy/%s' % type(e).__name__, '%s relabel=%s: %r' % (tag(prec, order, inv, eigname), pname, e))
                        continue
                    nstates += len(e2)
                    for m in ('Bohm', 'Ellipsoid'):
                        if m in en:
                            ntrans += 1
                            if not close(en[m], e2[m], RTOL_SAME):
                                V.add('product/relabel-rotation/%s/%s' % (m, cls(eigname)),
                                      '%s: %s = %r, the same system with axes re-labelled by %s (rotation P.R, eigenstrain P e P^T, '
                                      'radii %s) gives %r (rel %.3g)' % (tag(prec, order, inv, eigname), m, en[m], pname,
                                                                         (r2 / R0).tolist(), e2[m], e2[m] / en[m] - 1 if en[m] else float('nan')))
    return {'viol': V.out(), 'states': nstates, 'transitions': ntrans, 'traces': nstates,
            'outcome': ','.join(sorted(set(l.split(':')[0] for l in labels))) + ('|shear-coupled' if couple_m else '|uncoupled'),
            'nontrivial': nstates > 0, 'info': {'reference_nodes': nref, 'reference_convergence': sref_err}}


# ------------------------------------------------------------------------------------------------------
# stage 2: setter histories

# ------------------------------------------------------------------------------------------------------
# stage 'intervals': the documented alternative to the Lebedev rules - a mid-point rule on (phi, theta) intervals
# (setIntegrationIntervals).  The algebraic clauses of the statement hold for any quadrature and are asserted at rounding level;
# agreement with the independent reference is asserted only coarsely (1e-2 at 64 x 64 intervals, and the error must not grow by
# more than 1e-3 from 32 x 32 to 64 x 64): a mid-point rule converges slowly, what matters is that it converges to the right number.

def run_intervals(case):
    matname, rotname, axname, prec, eigname = case['matrix'], case['rot'], case['axes'], case['prec'], case['eig']
    mat, route = MATRICES[matname]
    V = Viol()
    R = np.array(rot_matrix(rotname))
    axes = AXES[axname]
    r = np.array(axes) * R0
    vol = 4 * math.pi / 3 * float(np.prod(r))
    CM = ref_rot4(R, ref_c4(*material_constants(mat)))
    pc = prec_constants(matname, prec)
    CP0 = prec_c4(pc)
    CP = ref_rot4(R, CP0) if CP0 is not None else None
    Sref, nref, _ = ref_S(CM, axes)
    eps = eig_tensor(EIGS[eigname])
    eref = ref_energy(CM, CP, Sref, eps, vol)
    t = 'matrix=%s rot=%s axes=%s prec=%s eig=%s' % (matname, rotname, axname, prec, eigname)
    nst = ntr = 0
    errs = {}
    try:
        se = api_object(matname, prec, R)
        d = se.description
        se.setEigenstrain(EIGS[eigname])
    except Exception as e:
        V.add('intervals/exception/setup/%s' % type(e).__name__, '%s: %r' % (t, e))
        return {'viol': V.out(), 'states': 0, 'outcome': 'exception'}
    worst_unequal = [0.0]
    # equal numbers of phi and theta intervals, then (thorough tier and every fourth quick case) unequal ones: (n, n/2) and (n/2, n)
    grids = [(n, n) for n in case['n']] + [g for n in case['n'][-1:] for g in ((n, n // 2), (n // 2, n)) if case.get('unequal')]
    for nphi, nth in grids:
        n = nphi if nphi == nth else (nphi, nth)
        for sym in ([False, True] if case['symmetric_ok'] else [False]):
            if sym and (nphi % 2 or nth % 2):
                continue
            tt = '%s intervals=%s%s' % (t, n, ' (one octant)' if sym else '')
            try:
                d.setIntegrationIntervals(nphi // 2 if sym else nphi, nth // 2 if sym else nth, assumeSymmetric=sym)
                en = {}
                for inv in INVS:
                    d.setOhmInverseFunction(inv)
                    en[inv] = api_energies(se, r, prec == 'none')
                e2 = api_energies(se, 2.0 * r, prec == 'none')
            except Exception as e:
                V.add('intervals/exception/energy/%s' % type(e).__name__, '%s: %r' % (tt, e))
                continue
            nst += 1
            a = en[INVS[-1]]
            for m, v in a.items():
                ntr += 4
                if not (math.isfinite(v) and v >= 0):
                    V.add('intervals/nonneg/%s' % m, '%s: %s = %r' % (tt, m, v))
                if not close(en[INVS[0]][m], v, RTOL_SAME):
                    V.add('intervals/inverse-routines/%s' % m, '%s: %s quick %r vs numpy %r' % (tt, m, en[INVS[0]][m], v))
                if not close(e2[m], 8.0 * v, RTOL_SCALE):
                    V.add('intervals/cubic-scaling/%s' % m, '%s: %s E(2r) = %r, 8 E(r) = %r' % (tt, m, e2[m], 8.0 * v))
            for m2, m4 in (('Ellipsoid2ndRank', 'Ellipsoid'), ('Bohm2ndRank', 'Bohm')):
                if m2 in a and not close(a[m2], a[m4], RTOL_SAME):
                    V.add('intervals/rank-agree/%s' % m4, '%s: 6x6 %r vs fourth rank %r' % (tt, a[m2], a[m4]))
            if 'Ellipsoid' in a and not close(a['Ellipsoid'], a['Bohm'], RTOL_SAME):
                V.add('intervals/homog-limit', '%s: homogeneous formula %r vs general %r' % (tt, a['Ellipsoid'], a['Bohm']))
            if nphi == nth:
                errs[(n, sym)] = abs(a['Bohm'] - eref) / abs(eref)
            elif max(axes) / min(axes) <= 3.0:
                # unequal numbers of intervals: nothing is promised about the accuracy of the mid-point rule; the bound only has to
                # separate "converging to the right number" (measured up to 1.2e-2 at (64, 32) for a 3:1 oblate particle on the
                # unchanged tree) from a wrong grid (errors of order 1)
                eu = abs(a['Bohm'] - eref) / abs(eref)
                worst_unequal[0] = max(worst_unequal[0], eu)
                if not eu <= 1e-1:
                    V.add('intervals/reference/unequal%s' % ('/octant' if sym else ''), '%s: energy %.3g away (relative) from the independent '
                          'reference %r' % (tt, eu, eref))
    if errs:
        for sym in (False, True):
            ks = sorted(k for k in errs if k[1] == sym)
            if not ks:
                continue
            last = errs[ks[-1]]
            if max(axes) / min(axes) > 3.0:
                continue          # a flat or long particle needs far more intervals than 64 x 64 (1.8 % at 10:1); nothing is promised there
            if not last <= 1e-2:
                V.add('intervals/reference%s' % ('/octant' if sym else ''), '%s: %d intervals give an energy %.3g away (relative) from the independent '
                      'reference %r' % (t, ks[-1][0], last, eref))
            if len(ks) > 1 and not last <= errs[ks[-2]] + 1e-3:
                V.add('intervals/not-converging%s' % ('/octant' if sym else ''), '%s: error %.3g at %d intervals, %.3g at %d'
                      % (t, errs[ks[-2]], ks[-2][0], last, ks[-1][0]))
    return {'viol': V.out(), 'states': nst, 'transitions': ntr, 'outcome': 'intervals/%s' % ('octant+full' if case['symmetric_ok'] else 'full'),
            'info': {'rel_err': {'%d%s' % (k[0], 's' if k[1] else ''): float('%.3g' % v) for k, v in errs.items()},
                     'worst_unequal_rel_err': float('%.3g' % worst_unequal[0])}}


SETTER_CANON = ['rot', 'rotP', 'stiff', 'prec', 'eig', 'shape']


def _apply_op(se, op, cfg):
    if op == 'rot':
        se.setRotationMatrix(rot_matrix(cfg['rot']))
    elif op == 'rotP':
        se.setRotationPrecipitate(rot_matrix(cfg['rotP']))
    elif op == 'stiff':
        api_set_matrix(se, cfg['matrix'])
    elif op == 'prec':
        api_set_prec(se, cfg['matrix'], cfg['prec'])
    elif op == 'eig':
        se.setEigenstrain(EIGS[cfg['eig']])
    elif op == 'shape':
        se.setEllipsoidal()
    else:
        raise KeyError(op)


def _run_history(hist, cfg, r):
    se = EF.StrainEnergy()
    for op in hist:
        _apply_op(se, op, cfg)
    e = float(se.compute(r))
    p = se.params
    return {'E': e, 'description': type(se.description).__name__,
            'cMatrix': np.array(p.cMatrix_4th, dtype=float).copy(), 'cPrec': np.array(p.cPrec_4th, dtype=float).copy(),
            'eigenstrain': np.array(p.eigenstrain, dtype=float).copy()}


def _canonical_vs_reference(cfg, ops, canon, r, V):
    """The canonical order itself against the independent reference, with INDEPENDENT matrix / precipitate rotations
    (the product stage uses equal rotations); tolerance as in the product stage from the two highest quadrature orders."""
    mat, _ = MATRICES[cfg['matrix']]
    CM = ref_rot4(np.array(rot_matrix(cfg['rot'])), ref_c4(*material_constants(mat)))
    CP = None
    if 'prec' in ops:
        RP = np.array(rot_matrix(cfg['rotP'])) if 'rotP' in ops else np.eye(3)
        CP = ref_rot4(RP, prec_c4(prec_constants(cfg['matrix'], cfg['prec'])))
    Sref, nref, _ = ref_S(CM, AXES[cfg['axes']])
    eref = ref_energy(CM, CP, Sref, eig_tensor(EIGS[cfg['eig']]), 4 * math.pi / 3 * float(np.prod(r)))
    try:
        se = EF.StrainEnergy()
        for op in canon:
            _apply_op(se, op, cfg)
        en = {}
        for order in ('mid', 'high'):
            se.description.setLebedevIntegration(order)
            en[order] = float(se.compute(r))
    except Exception as e:
        V.add('setters/exception/%s' % type(e).__name__, 'cfg=%r canonical history %s: %r' % (cfg, ','.join(canon), e))
        return
    tol = REF_FACTOR * abs(en['high'] - en['mid']) + REF_FLOOR * abs(eref)
    if not abs(en['high'] - eref) <= tol:
        V.add('setters/canonical-vs-reference/%s' % ('indep-rotations' if CP is not None and 'rotP' in ops and cfg['rot'] != cfg['rotP'] else 'one-rotation'),
              'cfg=%r: canonical history %s gives compute = %r, independent reference (Mura integral n=%d, equivalent inclusion) %r, '
              'rel %.3g, allowed %.3g' % (cfg, ','.join(canon), en['high'], nref, eref, en['high'] / eref - 1, tol / abs(eref)))


def run_setters(case):
    """All orders of case['ops'] that start with case['first'] against the canonical order; a fresh object per order."""
    cfg, ops, first = case['cfg'], case['ops'], case['first']
    r = np.array(AXES[cfg['axes']]) * R0
    V = Viol()
    canon = [o for o in SETTER_CANON if o in ops]
    ref = _run_history(canon, cfg, r)
    rest = [o for o in ops if o != first]
    n = 0
    skipped = 0
    outcomes = set()
    if first == ops[0]:
        _canonical_vs_reference(cfg, ops, canon, r, V)
    for tail in itertools.permutations(rest):
        hist = [first] + list(tail)
        if 'shape' in hist and 'stiff' in hist and hist.index('shape') < hist.index('stiff'):
            # StrainEnergy.update() documents that the description falls back to constant strain energy while the matrix
            # constants are not set: choosing the shape before the matrix stiffness is outside the documented use
            # (and outside the statement, which names rotation and stiffness order only)
            skipped += 1
            continue
        n += 1
        try:
            got = _run_history(hist, cfg, r)
        except Exception as e:
            V.add('setters/exception/%s' % type(e).__name__, 'cfg=%r history=%s: %r' % (cfg, ','.join(hist), e))
            outcomes.add('exception')
            continue
        # same setters, same arguments, only the order differs: the resulting energy must be the same number up to
        # rounding (the final tensors are produced by the same rotate/convert calls -> 1e-12 is generous)
        if close(got['E'], ref['E'], 1e-12):
            outcomes.add('same')
            continue
        diff = []
        if got['description'] != ref['description']:
            diff.append('description')
        for f in ('cMatrix', 'cPrec', 'eigenstrain'):
            if got[f].shape != ref[f].shape or not np.allclose(got[f], ref[f], rtol=1e-12, atol=0):
                diff.append(f)
        outcomes.add('differs:' + '+'.join(diff))
        V.add('setters/order-dependent/differs=%s' % ('+'.join(diff) or 'nothing-visible'),
              'cfg=%r: history %s gives compute(%s) = %r (%s), canonical order %s gives %r (%s)'
              % (cfg, ','.join(hist), r.tolist(), got['E'], got['description'], ','.join(canon), ref['E'], ref['description']))
    return {'viol': V.out(), 'states': n, 'transitions': n * len(ops), 'traces': n,
            'outcome': '|'.join(sorted(outcomes)), 'nontrivial': True}


QUAD_OPS = {'Lmid': ('setLebedevIntegration', ('mid',), {}), 'Lhigh': ('setLebedevIntegration', ('high',), {}),
            'Ioct8': ('setIntegrationIntervals', (8, 8), {}),                       # assumeSymmetric left at its default
            'Ifull16': ('setIntegrationIntervals', (16, 16), {'assumeSymmetric': False})}


def run_quadswitch(case):
    """Histories over the quadrature setters of one description object (seed s16e: a flag set by one quadrature survived the
    switch to another).  Oracle: the energy after the history equals the energy of a fresh object that only received the last
    setter of the history - same configuration, same quadrature, so the same number up to rounding, whatever its accuracy."""
    cfg, hist = case['cfg'], case['hist']
    r = np.array(AXES[cfg['axes']]) * R0
    V = Viol()
    canon = [o for o in SETTER_CANON if o in case['ops']]

    def build(qs):
        se = EF.StrainEnergy()
        for op in canon:
            _apply_op(se, op, cfg)
        for q in qs:
            name, a, kw = QUAD_OPS[q]
            getattr(se.description, name)(*a, **kw)
        return float(se.compute(r))
    try:
        got, ref = build(hist), build(hist[-1:])
    except Exception as e:
        V.add('quadrature-switch/exception/%s' % type(e).__name__, 'cfg=%r history=%s: %r' % (cfg, ','.join(hist), e))
        return {'viol': V.out(), 'states': 1, 'transitions': len(hist), 'outcome': 'exception'}
    if not close(got, ref, 1e-12):
        V.add('quadrature-switch/history-dependent/last=%s' % hist[-1],
              'cfg=%r: quadrature setters %s give compute = %r, a fresh object with only %s gives %r (rel %.3g)'
              % (cfg, ','.join(hist), got, hist[-1], ref, got / ref - 1 if ref else float('nan')))
    return {'viol': V.out(), 'states': 1, 'transitions': len(hist), 'traces': 1, 'outcome': 'last=%s' % hist[-1], 'nontrivial': len(hist) > 1}


# ------------------------------------------------------------------------------------------------------
# stage 3: Lebedev exactness

LEBEDEV_POINTS = {53: 974, 83: 2354, 131: 5810}        # documented in setLebedevIntegration


def _log_sphere_avg(a, b, c):
    """log of  (1/4pi) int x^a y^b z^c dOmega = Gamma((a+1)/2) Gamma((b+1)/2) Gamma((c+1)/2) / (2 pi Gamma((a+b+c+3)/2))
    for even a, b, c (Folland 2001, 'How to integrate a polynomial over a sphere'); zero if any exponent is odd."""
    lg = math.lgamma
    return lg((a + 1) / 2) + lg((b + 1) / 2) + lg((c + 1) / 2) - lg((a + b + c + 3) / 2) - math.log(2 * math.pi)


def run_lebedev(case):
    order, a_lo, a_hi = case['order'], case['a_lo'], case['a_hi']
    V = Viol()
    corrected = bool(case.get('corrected'))
    # corrected=True: the shipped TABLES under the harness-side corrected orbit expansion (must be exact: catches table typos
    # that the known finding about the shipped expansion would otherwise hide)
    phi, theta, w = (EF.loadPoints if corrected else LN.loadPoints)(order)
    phi, theta, w = np.asarray(phi, float), np.asarray(theta, float), np.asarray(w, float)
    x, y, z = np.sin(theta) * np.cos(phi), np.sin(theta) * np.sin(phi), np.cos(theta)
    nmono = 0
    if a_lo == 0:
        pts = np.round(np.array([x, y, z]).T, 9) + 0.0
        ndist = len(set(map(tuple, pts)))
        if len(w) != LEBEDEV_POINTS[order] or not np.all(w > 0):
            V.add('lebedev/order=%d/structure' % order, 'order %d: %d points (documented %d), min weight %r'
                  % (order, len(w), LEBEDEV_POINTS[order], float(w.min())))
    else:
        ndist = None
    N = order
    Yp = np.array([y ** k for k in range(N + 1)])
    Zp = np.array([z ** k for k in range(N + 1)])
    worst = {}
    for a in range(a_lo, min(a_hi, N) + 1):
        nb = N - a + 1
        Q = (Yp[:nb] * (w * x ** a)) @ Zp[:nb].T                       # Q[b, c] = sum_i w_i x^a y^b z^c
        for b in range(nb):
            for c in range(nb - b):
                nmono += 1
                even = not (a % 2 or b % 2 or c % 2)
                ex = math.exp(_log_sphere_avg(a, b, c)) if even else 0.0
                err = abs(float(Q[b, c]) - ex)
                if not (err <= ATOL_LEB and err <= RTOL_LEB * ex if even else err <= ATOL_LEB):
                    kind = 'even' if even else 'odd'
                    wk = worst.get(kind)
                    if wk is None or (a + b + c, -err) < (wk[0], -wk[1]):
                        worst[kind] = (a + b + c, err, (a, b, c), float(Q[b, c]), ex)
                    worst[kind + '_n'] = worst.get(kind + '_n', 0) + 1
    for kind in ('even', 'odd'):
        if kind in worst:
            deg, err, abc, q, ex = worst[kind]
            V.add('%s/order=%d/inexact/%s-monomials/failing=%d/distinct-points=%sof%d' % ('lebedev-tables' if corrected else 'lebedev', order, kind, worst[kind + '_n'], ndist, len(w)),
                  'order %d rule: sphere average of x^%d y^%d z^%d = %.15g by quadrature, exact %.15g (error %.3g; allowed %g '
                  'absolute and 1e-9 relative); '
                  '%d %s monomial(s) with a in [%d,%d] and total degree <= %d are not integrated exactly%s'
                  % (order, abc[0], abc[1], abc[2], q, ex, err, ATOL_LEB, worst[kind + '_n'], kind, a_lo, a_hi, N,
                     '' if ndist is None else '; %d distinct points among %d' % (ndist, len(w))))
    return {'viol': V.out(), 'states': nmono, 'transitions': nmono, 'traces': 1,
            'outcome': 'exact' if not worst else 'inexact', 'nontrivial': True,
            'info': {'monomials': nmono, 'points': int(len(w))}}


# ------------------------------------------------------------------------------------------------------
# stage 4: conversions

def _conv_matrices():
    sym = np.zeros((6, 6))
    k = 1
    for i in range(6):
        for j in range(i, 6):
            sym[i, j] = sym[j, i] = float(k)
            k += 1
    gen = np.arange(1.0, 37.0).reshape(6, 6)
    out = {'sym21': sym, 'gen36': gen}
    for name, c in CUB.items():
        out[name] = ref_voigt66(*c)
    out['isoA'] = ref_voigt66(*material_constants('isoA'))
    return out


def run_conv_rank(case):
    V = Viol()
    n = 0
    name = case['tensor']
    c2 = _conv_matrices()[name]
    vidx = {}
    for I, (i, j) in enumerate(VOIGT):
        vidx[(i, j)] = vidx[(j, i)] = I
    try:
        c4 = EF.convert2To4rankTensor(c2)
        for i, j, k, l in itertools.product(range(3), repeat=4):
            n += 1
            if c4[i, j, k, l] != c2[vidx[(i, j)], vidx[(k, l)]]:
                V.add('conv/2to4/entry', '%s: c4[%d,%d,%d,%d] = %r, expected c2[%d,%d] = %r'
                      % (name, i, j, k, l, c4[i, j, k, l], vidx[(i, j)], vidx[(k, l)], c2[vidx[(i, j)], vidx[(k, l)]]))
        back = EF.convert4To2rankTensor(c4)
        n += 1
        if not np.array_equal(back, c2):
            V.add('conv/2to4to2/round-trip', '%s: max deviation %r' % (name, float(np.max(np.abs(back - c2)))))
        again = EF.convert2To4rankTensor(back)
        n += 1
        if not np.array_equal(again, c4):
            V.add('conv/4to2to4/round-trip', '%s: max deviation %r' % (name, float(np.max(np.abs(again - c4)))))
        # rotations: against the einsum reference, back-rotation, composition; every rotation of the alphabet
        for rn in case['rots']:
            R = np.array(rot_matrix(rn))
            got = EF.rotateRank4Tensor(R, c4)
            n += 3
            scale = float(np.max(np.abs(c4)))
            if not np.allclose(got, ref_rot4(R, c4), rtol=0, atol=1e-12 * scale):
                V.add('conv/rotate4/reference', '%s rot=%s: deviation %r' % (name, rn, float(np.max(np.abs(got - ref_rot4(R, c4))))))
            if not np.allclose(EF.rotateRank4Tensor(R.T, got), c4, rtol=0, atol=1e-12 * scale):
                V.add('conv/rotate4/round-trip', '%s rot=%s' % (name, rn))
            # rotated tensor through the 6x6 form and back (the tensor keeps its minor symmetries)
            if not np.allclose(EF.convert2To4rankTensor(EF.convert4To2rankTensor(got)), got, rtol=0, atol=1e-12 * scale):
                V.add('conv/4to2to4/round-trip', '%s rotated by %s' % (name, rn))
            for rn2 in case['rots']:
                R2 = np.array(rot_matrix(rn2))
                n += 1
                if not np.allclose(EF.rotateRank4Tensor(R2, got), ref_rot4(R2 @ R, c4), rtol=0, atol=1e-11 * scale):
                    V.add('conv/rotate4/composition', '%s rot=%s then %s' % (name, rn, rn2))
            if name in ('isoA', 'cubA1'):
                n += 1
                if not np.allclose(got, c4, rtol=0, atol=1e-12 * scale):
                    V.add('conv/rotate4/isotropic-invariant', '%s rot=%s' % (name, rn))
            t2 = np.array(eig_tensor(EIGS['gen']))
            g2 = EF.rotateRank2Tensor(R, t2)
            n += 2
            if not np.allclose(g2, R @ t2 @ R.T, rtol=0, atol=1e-15):
                V.add('conv/rotate2/reference', 'rot=%s' % rn)
            if not np.allclose(EF.rotateRank2Tensor(R.T, g2), t2, rtol=0, atol=1e-15):
                V.add('conv/rotate2/round-trip', 'rot=%s' % rn)
        # double inversion of a 4th-rank tensor returns the tensor (well conditioned inputs only)
        if name not in ('sym21', 'gen36'):
            n += 1
            inv2 = EF.invert4rankTensor(EF.invert4rankTensor(c4))
            if not np.allclose(inv2, c4, rtol=0, atol=1e-9 * float(np.max(np.abs(c4)))):
                V.add('conv/invert4rank/round-trip', '%s: deviation %r' % (name, float(np.max(np.abs(inv2 - c4)))))
        # 6-vectors <-> symmetric 3x3
        for v in ([1.0, 2.0, 3.0, 4.0, 5.0, 6.0], [0.01, -0.02, 0.03, 0.0, 0.5, -7.0]):
            t = EF.convertVecTo2rankTensor(np.array(v))
            n += 3
            exp = np.zeros((3, 3))
            for I, (i, j) in enumerate(VOIGT):
                exp[i, j] = exp[j, i] = v[I]
            if not np.array_equal(t, exp):
                V.add('conv/vec-to-tensor/entry', 'v=%r gives %r' % (v, t.tolist()))
            if not np.array_equal(EF.convert2rankToVec(t), np.array(v)):
                V.add('conv/vec/round-trip', 'v=%r' % (v,))
            if not np.array_equal(EF.convertVecTo2rankTensor(EF.convert2rankToVec(exp)), exp):
                V.add('conv/tensor-vec-tensor/round-trip', 'v=%r' % (v,))
    except Exception as e:
        V.add('conv/exception/%s' % type(e).__name__, '%s: %r' % (name, e))
    return {'viol': V.out(), 'states': n, 'transitions': n, 'outcome': 'rank:%s' % ('ok' if not V.d else 'bad'), 'nontrivial': True}


MODULI = ['E', 'nu', 'G', 'lam', 'K', 'M']


def run_conv_moduli(case):
    """One isotropic solid (E, nu), every pair of the six moduli, through moduliToC, setModuli and setModuliPrecipitate."""
    E_, nu_ = case['E'], case['nu']
    m = all_moduli(E_, nu_)
    ref = ref_voigt66(m['lam'] + 2 * m['G'], m['lam'], m['G'])
    V = Viol()
    n = 0
    outcomes = set()
    for pair in itertools.combinations(MODULI, 2):
        pn = ','.join(pair)
        kw = {k: m[k] for k in pair}
        # (E, M) has two solutions (nu >= 0 and nu <= 0, see e.g. the table of elastic-moduli conversions); kawin documents
        # the nu >= 0 branch, so for nu < 0 only "the returned solid has the supplied E and M" is required
        unique = not (pair == ('E', 'M') and nu_ < 0)
        try:
            c = EF.moduliToC(**kw)
            se = EF.StrainEnergy()
            se.setModuli(**kw)
            se.setModuliPrecipitate(**kw)
            routes = {'moduliToC': np.array(c), 'setModuli': np.array(se.params.cMatrix_2nd),
                      'setModuliPrecipitate': np.array(se.params.cPrec_2nd)}
        except Exception as e:
            V.add('conv/moduli/exception/%s' % pn, 'E=%r nu=%r pair %s: %r' % (E_, nu_, pn, e))
            outcomes.add('exception')
            continue
        for rname, c in routes.items():
            n += 2
            if unique and not np.allclose(c, ref, rtol=0, atol=RTOL_MOD * m['M']):
                V.add('conv/moduli/tensor/%s' % pn, 'E=%r nu=%r pair %s via %s: max deviation %r of c11=%r'
                      % (E_, nu_, pn, rname, float(np.max(np.abs(c - ref))), m['M']))
            # round trip: the moduli of the returned solid reproduce the two supplied ones
            s = np.linalg.inv(c)
            back = {'E': 1 / s[0, 0], 'nu': -s[0, 1] / s[0, 0], 'G': c[3, 3], 'lam': c[0, 1],
                    'K': (c[0, 0] + 2 * c[0, 1]) / 3, 'M': c[0, 0]}
            for k in pair:
                if not abs(back[k] - m[k]) <= 1e-8 * max(abs(m[k]), 1e-3 * (1 if k == 'nu' else m['M'])):
                    V.add('conv/moduli/round-trip/%s' % pn, 'E=%r nu=%r pair %s via %s: %s comes back as %r instead of %r'
                          % (E_, nu_, pn, rname, k, back[k], m[k]))
            iso_dev = abs(c[0, 0] - c[0, 1] - 2 * c[3, 3])
            if not iso_dev <= 1e-8 * abs(c[0, 0]):
                V.add('conv/moduli/isotropy/%s' % pn, 'E=%r nu=%r pair %s via %s: c11-c12-2c44 = %r' % (E_, nu_, pn, rname, iso_dev))
        outcomes.add('unique' if unique else 'two-branch')
    # the other input routes give the same tensor
    try:
        c11, c12, c44 = m['lam'] + 2 * m['G'], m['lam'], m['G']
        for label, fn in (('elasticConstantToC', lambda: EF.elasticConstantToC(c11, c12, c44)),
                          ('setElasticConstants', lambda: _via(lambda se: se.setElasticConstants(c11, c12, c44))),
                          ('setElasticTensor(6x6)', lambda: _via(lambda se: se.setElasticTensor(ref.tolist()))),
                          ('setElasticTensor(3x3x3x3)', lambda: _via(lambda se: se.setElasticTensor(ref_c4(c11, c12, c44))))):
            n += 1
            got = np.array(fn())
            if not np.allclose(got, ref, rtol=0, atol=1e-12 * m['M']):      # same constants by another input route
                V.add('conv/routes/%s' % label, 'E=%r nu=%r: deviation %r' % (E_, nu_, float(np.max(np.abs(got - ref)))))
    except Exception as e:
        V.add('conv/routes/exception', 'E=%r nu=%r: %r' % (E_, nu_, e))
    return {'viol': V.out(), 'states': n, 'transitions': n, 'outcome': 'moduli:' + '|'.join(sorted(outcomes)), 'nontrivial': True}


def _via(setter):
    se = EF.StrainEnergy()
    setter(se)
    return se.params.cMatrix_2nd


# ------------------------------------------------------------------------------------------------------

def run(ctx):
    quick = ctx.quick
    if quick:
        matrices = ['isoA:E,nu', 'isoB:G,K', 'cubA3:const', 'cubA05:const']
        rots = ['I', 'z90', 'z30', 'gen']
        axes = ['sphere', 'prolate3', 'triax']
        precs = ['none', 'same', 'stiff']
        eigs = ['dil', 'tet', 'shear']
        relabel = ['x90']
        scales = [10.0]
        mults = [3.0]
    else:
        matrices = list(MATRICES)
        rots = ['I', 'x90', 'y90', 'z90', 'z30', 'gen']
        axes = list(AXES)
        precs = list(PRECS)
        eigs = list(EIGS)
        relabel = list(RELABEL)
        scales = list(SCALES)
        mults = list(MULTS)
    ctx.rule = ('full product matrix stiffness x rotation x semi-axes x precipitate stiffness x quadrature order x 3x3 inverse x '
                'eigenstrain x size scale x eigenstrain multiple on the real StrainEnergy/EllipsoidalEnergyDescription; every '
                'permutation of the setters; every monomial up to the stated order of each Lebedev rule; every pair of moduli. '
                'non-trivial = case that produced at least one energy / history / monomial')
    ctx.bounds = {'matrices': matrices, 'rotations': rots, 'semi_axes': {k: AXES[k] for k in axes}, 'precipitates': precs,
                  'orders': ORDERS, 'inverses': INVS, 'eigenstrains': eigs, 'scales': [1.0] + scales, 'multiples': [1.0] + mults,
                  'relabelling': relabel, 'lebedev_orders': sorted(LEBEDEV_POINTS), 'moduli_pairs': 15}
    ctx.assumptions = ['stiffness alphabet: isotropic and cubic, mechanically stable, Zener ratio 0.5..3; precipitate rotation = matrix '
                       'rotation in the product stage (independent in the setter stage)',
                       'comparison with the independent Eshelby reference uses the convergence of the quadrature orders as tolerance and '
                       'is therefore not applied to the lowest order (except isotropic matrix + sphere, where all orders are exact)',
                       '(E, M) with nu < 0: only the round trip of the supplied pair is required (the pair has two solutions)']

    # stage 1
    cases = []
    for mname in matrices:
        for rn in rots:
            for an in axes:
                cases.append({'matrix': mname, 'rot': rn, 'axes': an, 'precs': precs, 'orders': ORDERS, 'invs': INVS, 'eigs': eigs,
                              'scales': scales, 'mults': mults, 'relabel': relabel})
    ctx.product_run('product', 'checks.c16:run_group', cases, chunksize=1)

    # stage 1b: interval quadrature
    icases = []
    for mname in matrices:
        for rn in rots:
            for an in [a for a in axes if a != 'sphere'][:2 if quick else None]:
                for prec in ['none', 'stiff']:
                    icases.append({'matrix': mname, 'rot': rn, 'axes': an, 'prec': prec, 'eig': eigs[len(icases) % len(eigs)],
                                   'n': [32, 64], 'symmetric_ok': rn in ('none', 'id', 'I'),
                                   'unequal': (not quick) or len(icases) % 2 == 0})
    ctx.product_run('intervals', 'checks.c16:run_intervals', icases, chunksize=1)

    # stage 2
    scases = []
    cfgs = [{'matrix': 'cubA3:const', 'rot': 'z30', 'rotP': 'gen', 'prec': 'stiff', 'eig': 'tet', 'axes': 'triax'},
            {'matrix': 'cubA05:const', 'rot': 'gen', 'rotP': 'gen2', 'prec': 'isoP', 'eig': 'shear', 'axes': 'triax'},
            {'matrix': 'isoA:E,nu', 'rot': 'gen', 'rotP': 'z30', 'prec': 'stiff', 'eig': 'dil', 'axes': 'prolate3'}]
    if not quick:
        cfgs += [{'matrix': 'cubA3:tensor', 'rot': 'gen2', 'rotP': 'gen2', 'prec': 'soft', 'eig': 'gen', 'axes': 'oblate3'},
                 {'matrix': 'isoB:G,K', 'rot': 'z30', 'rotP': 'gen', 'prec': 'isoP', 'eig': 'orth', 'axes': 'xlong'}]
    opsets = [['rot', 'stiff', 'eig', 'shape'], ['rot', 'stiff', 'eig', 'shape', 'prec'],
              ['rot', 'stiff', 'eig', 'shape', 'prec', 'rotP']]
    for i, cfg in enumerate(cfgs):
        for ops in opsets:
            if quick and len(ops) == 6 and i > 0:
                continue
            for first in ops:
                scases.append({'cfg': cfg, 'ops': ops, 'first': first})
    ctx.product_run('setters', 'checks.c16:run_setters', scases, chunksize=1)
    qdepth = 3 if quick else 4
    qcases = [{'cfg': cfg, 'ops': opsets[1], 'hist': list(h)} for cfg in cfgs for k in range(2, qdepth + 1)
              for h in itertools.product(sorted(QUAD_OPS), repeat=k)]
    ctx.bounds['quadrature_switch'] = {'ops': {k: [v[0], list(v[1]), v[2]] for k, v in QUAD_OPS.items()}, 'depth': qdepth,
                                       'configurations': len(cfgs)}
    ctx.product_run('quadrature-switch', 'checks.c16:run_quadswitch', qcases)

    # stage 3
    lcases = []
    for order in sorted(LEBEDEV_POINTS):
        # one case per rule: the violation signature carries the number of failing monomials and of distinct points of
        # the whole rule, so that a known finding matches exactly this defect and nothing else
        lcases.append({'order': order, 'a_lo': 0, 'a_hi': order})
        lcases.append({'order': order, 'a_lo': 0, 'a_hi': order, 'corrected': True})
    ctx.product_run('lebedev', 'checks.c16:run_lebedev', lcases, chunksize=1)

    # stage 4
    ccases = [{'tensor': t, 'rots': ['I', 'x90', 'y90', 'z90', 'z30', 'gen', 'gen2']}
              for t in ['sym21', 'gen36', 'cubA3', 'cubA1', 'cubA05', 'isoA']]
    ctx.product_run('conv-rank', 'checks.c16:run_conv_rank', ccases, chunksize=1)
    mcases = [{'E': E_, 'nu': nu_} for E_ in ([168.4e9, 70e9] if quick else [168.4e9, 70e9, 1.0, 411e9])
              for nu_ in ([-0.3, 0.1, 0.3, 0.45] if quick else [-0.5, -0.3, -0.1, 0.05, 0.1, 0.2, 0.25, 0.3, 0.33, 0.4, 0.45, 0.49])]
    ctx.product_run('conv-moduli', 'checks.c16:run_conv_moduli', mcases, chunksize=1)
