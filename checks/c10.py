"""C10 - diffusivities are physically valid and match the free-energy curvature.

Exploration (E1): the full lattice (compositions per axis x temperatures) over the matrix region of every shipped
system, binary and ternary, in the user's element order and in a second order.  At every lattice point where the
single-phase local equilibrium converges and the matrix is locally stable by an independent finite-difference test
(others are excluded and counted):

  H     = dMudX(mu, cs, ref)          vs central differences of the equilibrium chemical potentials (getLocalEq)
  H     symmetric, positive definite
  D     = getInterdiffusivity(x, T)   eigenvalues real and > 0; equals  sum_i (delta_ik - x_k) x_i M_i dmu_i/dx_j  built
                                      from the mobility callables evaluated here and the finite-difference derivatives
  D*    = getTracerDiffusivity(x, T)  positive, equals R T M_i from the callables evaluated here
  binary: D = (x_B D*_A + x_A D*_B) Phi  (Darken) with Phi from the finite-difference activity
  mobility_matrix(cs): every column sums to zero over the substitutional rows (volume-fixed frame)
  second element order: same D / D* after permutation
"""
import itertools
import math

PROPERTY = 'C10'
LEVEL = 'exploration'

np = None
_SYS = {}

R_GAS = 8.314462618        # CODATA; kawin documents D* = M R T with R = 8.314 (6e-5 below) -> TOL_TRACER


def prepare():
    global np, GeneralThermodynamics, datasets, dMudX, mobility_matrix
    import numpy as np
    from kawin.thermo import GeneralThermodynamics
    import kawin.tests.datasets as datasets
    from kawin.thermo.FreeEnergyHessian import dMudX
    from kawin.thermo.Mobility import mobility_matrix


EXAMPLES = '/repo/examples/'       # data files (mutant copies carry only kawin/)

# axes: (element, low, high) for every independent element in the user's order; the lattice is the full product
# of n points per axis (n from the tier) x the temperatures.  Ranges: inside the matrix single-phase field or its
# supersaturated extension used by the precipitation / diffusion examples.
SYSTEMS = {
    'nicr':    dict(src=('datasets', 'NICRAL_TDB'), elements=['NI', 'CR'], phases=['FCC_A1'], phase='FCC_A1',
                    axes=[('CR', 0.02, 0.40)], T=[1073.15, 1273.15, 1473.15, 1573.15]),
    'nial':    dict(src=('datasets', 'NICRAL_TDB'), elements=['NI', 'AL'], phases=['FCC_A1'], phase='FCC_A1',
                    axes=[('AL', 0.01, 0.14)], T=[1073.15, 1273.15, 1473.15, 1573.15]),
    'nicral':  dict(src=('datasets', 'NICRAL_TDB'), elements=['NI', 'CR', 'AL'], phases=['FCC_A1'], phase='FCC_A1',
                    axes=[('CR', 0.02, 0.30), ('AL', 0.01, 0.12)], T=[1073.15, 1273.15, 1473.15, 1573.15],
                    reorder=['NI', 'AL', 'CR']),
    'nialcr':  dict(src=('datasets', 'NICRAL_TDB'), elements=['NI', 'AL', 'CR'], phases=['FCC_A1'], phase='FCC_A1',
                    axes=[('AL', 0.01, 0.12), ('CR', 0.02, 0.30)], T=[1073.15, 1273.15, 1473.15, 1573.15]),
    'alcrni':  dict(src=('datasets', 'NICRAL_TDB'), elements=['AL', 'CR', 'NI'], phases=['FCC_A1'], phase='FCC_A1',
                    axes=[('CR', 0.02, 0.30), ('NI', 0.60, 0.90)], T=[1073.15, 1273.15, 1473.15, 1573.15],
                    ref_range=(0.01, 0.12)),
    'fecrni-fcc': dict(src=('datasets', 'FECRNI_DB'), elements=['FE', 'CR', 'NI'], phases=['FCC_A1', 'BCC_A2'], phase='FCC_A1',
                       axes=[('CR', 0.05, 0.25), ('NI', 0.08, 0.40)], T=[1073.15, 1273.15, 1373.15, 1473.15],
                       reorder=['FE', 'NI', 'CR']),
    'fenicr-fcc': dict(src=('datasets', 'FECRNI_DB'), elements=['FE', 'NI', 'CR'], phases=['FCC_A1', 'BCC_A2'], phase='FCC_A1',
                       axes=[('NI', 0.08, 0.40), ('CR', 0.05, 0.25)], T=[1073.15, 1273.15, 1373.15, 1473.15]),
    # 773 K reaches into the Fe-Cr miscibility gap: those points are excluded by the finite-difference stability test
    'fecrni-bcc': dict(src=('datasets', 'FECRNI_DB'), elements=['FE', 'CR', 'NI'], phases=['FCC_A1', 'BCC_A2'], phase='BCC_A2',
                       axes=[('CR', 0.10, 0.40), ('NI', 0.01, 0.08)], T=[773.15, 1073.15, 1273.15, 1473.15]),
    'alzr':    dict(src=('datasets', 'ALZR_TDB'), elements=['AL', 'ZR'], phases=['FCC_A1'], phase='FCC_A1',
                    axes=[('ZR', 0.0005, 0.008)], T=[623.15, 673.15, 723.15, 823.15]),
    'almgsi':  dict(src=('file', 'AlMgSi.tdb'), elements=['AL', 'MG', 'SI'], phases=['FCC_A1'], phase='FCC_A1',
                    axes=[('MG', 0.001, 0.012), ('SI', 0.001, 0.012)], T=[423.15, 473.15, 523.15, 573.15],
                    reorder=['AL', 'SI', 'MG']),
    'cuti':    dict(src=('file', 'CuTi.tdb'), elements=['CU', 'TI'], phases=['FCC_A1'], phase='FCC_A1',
                    axes=[('TI', 0.002, 0.04)], T=[573.15, 623.15, 673.15, 773.15]),
    # the public mobility-correction factors (setMobilityCorrection) scale the mobility of an element everywhere it enters:
    # tracer diffusivity, mobility matrix and interdiffusivity must all carry the same factor
    'cuti-corr': dict(src=('file', 'CuTi.tdb'), elements=['CU', 'TI'], phases=['FCC_A1'], phase='FCC_A1',
                      axes=[('TI', 0.002, 0.04)], T=[623.15, 773.15], correction={'TI': 40.0}),
    # a solution phase with more than one mole of atoms per formula unit ((CU,TI)4(CU,TI)1: five): only the curvature clauses
    # apply (the database has no mobility model for it); the curvature of such phases enters the growth law of the KWN model
    'cuti-cu4ti': dict(src=('file', 'CuTi.tdb'), elements=['CU', 'TI'], phases=['FCC_A1', 'CU4TI'], phase='CU4TI',
                       axes=[('TI', 0.16, 0.24)], T=[573.15, 673.15, 773.15, 873.15], curvature_only=True),
    # mobilities supplied by the user as functions of temperature (setMobility: whole dictionary, then one element replaced through
    # the element argument); the independent value is the user's own function, not kawin's wrapper around it
    'nicral-usermob': dict(src=('datasets', 'NICRAL_TDB'), elements=['NI', 'CR', 'AL'], phases=['FCC_A1'], phase='FCC_A1',
                           axes=[('CR', 0.02, 0.30), ('AL', 0.01, 0.12)], T=[1073.15, 1473.15], usermob=True),
    # interstitial sublattice (harness-owned database, mc/interstitial_tdb.py): curvature, tracer diffusivities, eigenvalues and the
    # volume-fixed frame of the SUBSTITUTIONAL rows (interstitials diffuse on their own sublattice and do not enter that sum)
    'fecrc-int': dict(src=('tdb', 'interstitial'), elements=['FE', 'CR', 'C'], phases=['FCC_A1'], phase='FCC_A1',
                      axes=[('CR', 0.05, 0.25), ('C', 0.004, 0.03)], T=[1173.15, 1373.15], interstitials=['C']),
    'fecrcn-int': dict(src=('tdb', 'interstitial'), elements=['FE', 'CR', 'C', 'N'], phases=['FCC_A1'], phase='FCC_A1',
                       axes=[('CR', 0.05, 0.25), ('C', 0.004, 0.03), ('N', 0.002, 0.01)], T=[1273.15], interstitials=['C', 'N']),
    'fecrni-fcc-corr': dict(src=('datasets', 'FECRNI_DB'), elements=['FE', 'CR', 'NI'], phases=['FCC_A1', 'BCC_A2'], phase='FCC_A1',
                            axes=[('CR', 0.05, 0.25), ('NI', 0.08, 0.40)], T=[1273.15, 1473.15], correction={'CR': 25.0, 'FE': 0.2}),
}

# tolerances (relative to the max-norm of the reference matrix / vector)
TOL_FD = 1e-4        # H and D vs finite differences: DESIGN 1e-4; truncation <= (h/x)^2/3 <= 3.7e-6 with h <= x/300
#                      (mu ~ RT ln x), rounding ~ 1e-16 |mu| / h ~ 1e-11 / 1e-6 << H ~ RT/x
TOL_SYM = 1e-8       # symmetry of H (DESIGN)
TOL_TRACER = 1e-4    # tracer = R T M: covers kawin's rounded gas constant 8.314 (relative 5.6e-5)
TOL_DARKEN = 1e-4    # same finite-difference error as TOL_FD
TOL_COLSUM = 1e-12   # sum of a column of the mobility matrix relative to its largest entry: pure rounding
TOL_ORDER = 1e-8     # same equilibrium solved by two objects that differ in element order
TOL_FORM = 1e-6      # same composition in another argument form: same equilibrium up to the warm-start of the solver


def _arrh(m0, q):
    return lambda T: m0 * math.exp(-q / (8.314 * T)) / (8.314 * T)


USER_MOB = {'NI': _arrh(2.1e-4, 2.87e5), 'CR': _arrh(1.0, 1.0), 'AL': _arrh(7.5e-4, 2.84e5), 'CR*': _arrh(5.2e-4, 2.78e5)}


def _db_arg(s):
    kind, name = SYSTEMS[s]['src']
    if kind == 'tdb':
        from mc.interstitial_tdb import TDB
        return TDB
    return getattr(datasets, name) if kind == 'datasets' else EXAMPLES + name


def system(s, order=None):
    key = (s, tuple(order) if order else None)
    if key not in _SYS:
        d = SYSTEMS[s]
        _SYS[key] = GeneralThermodynamics(_db_arg(s), list(order or d['elements']), list(d['phases']))
        for el, fac in d.get('correction', {}).items():
            _SYS[key].setMobilityCorrection(el, fac)
        if d.get('usermob'):
            _SYS[key].setMobility({e: USER_MOB[e] for e in d['elements']}, d['phase'])
            _SYS[key].setMobility({'CR': USER_MOB['CR*']}, d['phase'], element='CR')
    return _SYS[key]


def lattice(s, n):
    d = SYSTEMS[s]
    axes = [np.linspace(lo, hi, n).tolist() for _, lo, hi in d['axes']]
    lo, hi = d.get('ref_range', (0.0, 1.0))
    return [list(p) for p in itertools.product(*axes) if lo <= 1.0 - sum(p) <= hi]


def _local(th, x, T, phase):
    """(mu in alphabetical order of the non-vacant elements, composition set) or None."""
    res, cs = th.getLocalEq(np.array(x, dtype=float), T, 0, [phase])
    mu = np.array(res.chemical_potentials, dtype=float)
    if np.any(np.isnan(mu)):
        return None
    return mu, cs[0]


def check_point(s, x, T, order=None):
    """Returns (outcome, violations, data) for one lattice point.  x is in the order of SYSTEMS[s]['axes']."""
    d = SYSTEMS[s]
    phase = d['phase']
    th = system(s)
    els_user = d['elements']                      # reference element first
    ref = els_user[0]
    solutes = els_user[1:]
    alpha = sorted(els_user)                      # pycalphad's order
    alpha_sol = [e for e in alpha if e != ref]
    n = len(els_user)
    viol = []

    def bad(oracle, msg):
        viol.append({'sig': '%s/%s/%s' % (s, phase, oracle),
                     'msg': '%s %s x=%s T=%g: %s' % (s, phase, dict(zip(solutes, x)), T, msg)})

    base = _local(th, x, T, phase)
    if base is None:
        return 'excluded:no-convergence', viol, None
    mu0, cs = base
    xfull = dict(zip(solutes, x))
    xfull[ref] = 1.0 - sum(x)
    xa = np.array([xfull[e] for e in alpha])

    # ---- finite differences of the equilibrium chemical potentials, 2nd order central.
    # step: h = min(1e-5, x_min/300) (DESIGN: 1e-5): for the dominating ideal term mu ~ RT ln x the truncation error of
    # the central difference relative to RT/x is (h/x)^2/3 <= 3.7e-6; rounding error ~ eps*|mu|/h <= 1e-11/1.6e-6
    # ~ 1e-5 J/mol against |H| >= RT ~ 4e3 J/mol.  Both are >= 25x below TOL_FD.
    h = min(1e-5, min(min(x), xfull[ref]) / 300.0)
    dmu = np.zeros((n, n - 1))                    # d mu_i / d x_j (x_ref compensating); i alphabetical, j = alpha_sol
    for j, e in enumerate(alpha_sol):
        k = solutes.index(e)
        xp = list(x); xp[k] += h
        xm = list(x); xm[k] -= h
        lp, lm = _local(th, xp, T, phase), _local(th, xm, T, phase)
        if lp is None or lm is None:
            return 'excluded:no-convergence-fd', viol, None
        dmu[:, j] = (lp[0] - lm[0]) / (2 * h)
        # the three local equilibria must lie on one branch: a phase with internal (ordering) degrees of freedom can converge to another
        # set of site fractions at a neighbouring composition, and a finite difference across two branches is no derivative.  For a
        # smooth potential one-sided differences agree to O(h mu'') ~ 3e-3 relative (h <= x/300)
        one_sided = np.abs((lp[0] - mu0) / h - (mu0 - lm[0]) / h)
        if np.max(one_sided) > 5e-2 * max(float(np.max(np.abs(dmu[:, j]))), 1e-300):
            return 'excluded:branch-switch-in-finite-difference', viol, None
    iref = alpha.index(ref)
    isol = [alpha.index(e) for e in alpha_sol]
    Hfd = dmu[isol, :] - dmu[iref, :][None, :]
    # independent stability test: the finite-difference curvature matrix is positive definite
    ev_fd = np.linalg.eigvalsh(0.5 * (Hfd + Hfd.T))
    if not np.all(ev_fd > 0):
        return 'excluded:spinodal', viol, None

    # ---- kawin's curvature
    H = np.asarray(dMudX(mu0, cs, ref), dtype=float)
    scaleH = float(np.max(np.abs(Hfd)))
    errH = float(np.max(np.abs(H - Hfd))) / scaleH
    if errH > TOL_FD:
        bad('dMudX-vs-finite-difference', 'relative error %.2e; dMudX=%s fd=%s' % (errH, H.tolist(), Hfd.tolist()))
    asym = float(np.max(np.abs(H - H.T))) / float(np.max(np.abs(H)))
    if asym > TOL_SYM:
        bad('dMudX-not-symmetric', 'relative asymmetry %.2e' % asym)
    evH = np.linalg.eigvalsh(0.5 * (H + H.T))
    if not np.all(evH > 0):
        bad('dMudX-not-positive-definite', 'eigenvalues %s (finite differences: %s)' % (evH.tolist(), ev_fd.tolist()))

    if d.get('curvature_only'):
        return 'checked', viol, {'errH': errH, 'errD': 0.0}

    # ---- mobilities from the callables, evaluated here
    mobc = th.mobCallables.get(phase)
    difc = th.diffCallables.get(phase)
    dof = np.array(cs.dof, dtype=float)
    if mobc is not None:
        corr = SYSTEMS[s].get('correction', {})
        if d.get('usermob'):
            M = np.array([USER_MOB['CR*' if e == 'CR' else e](T) for e in alpha])         # the user's functions themselves
        else:
            M = np.array([float(mobc[e](dof)) * corr.get(e, 1.0) for e in alpha])          # alphabetical
        tracer_ref = R_GAS * T * M
    else:
        M = None
        tracer_ref = np.array([float(difc[e](dof)) for e in alpha])

    # ---- tracer diffusivity (user order, reference element first)
    Dt = np.asarray(th.getTracerDiffusivity(np.array(x), T, phase=phase), dtype=float)
    Dt_alpha = np.array([Dt[els_user.index(e)] for e in alpha])
    if not np.all(Dt > 0):
        bad('tracer-not-positive', 'D* = %s' % Dt.tolist())
    err = float(np.max(np.abs(Dt_alpha - tracer_ref) / np.abs(tracer_ref)))
    if err > TOL_TRACER:
        bad('tracer-vs-RTM', 'relative error %.2e; D*=%s reference=%s (alphabetical %s)'
            % (err, Dt_alpha.tolist(), tracer_ref.tolist(), alpha))

    # ---- interdiffusivity (user order of the solutes)
    D = np.atleast_2d(np.asarray(th.getInterdiffusivity(np.array(x), T, phase=phase), dtype=float))
    ev = np.linalg.eigvals(D)
    if np.any(np.abs(np.imag(ev)) > 0) or not np.all(np.real(ev) > 0):
        bad('interdiffusivity-eigenvalues', 'eigenvalues %s of D=%s' % (ev.tolist(), D.tolist()))
    perm = [alpha_sol.index(e) for e in solutes]      # user solute order -> index in alpha_sol
    inter = d.get('interstitials')
    if inter:
        Dref = None       # the closed form below is the substitutional one; with interstitials only the eigenvalue clause applies
    elif M is not None:
        # D_kj = sum_i (delta_ik - x_k) x_i M_i d mu_i/d x_j   (all elements substitutional in the shipped matrix phases)
        Dref_a = np.zeros((n - 1, n - 1))
        for kk, ek in enumerate(alpha_sol):
            k = alpha.index(ek)
            for j in range(n - 1):
                Dref_a[kk, j] = sum(((1.0 if i == k else 0.0) - xa[k]) * xa[i] * M[i] * dmu[i, j] for i in range(n))
        Dref = Dref_a[np.ix_(perm, perm)]
    else:
        # database with diffusivity (not mobility) parameters: D_kk is the diffusivity function of element k itself
        Dref = np.diag([tracer_ref[alpha.index(e)] for e in solutes])
    errD = float(np.max(np.abs(D - Dref))) / float(np.max(np.abs(Dref))) if Dref is not None else 0.0
    if errD > TOL_FD:
        bad('interdiffusivity-vs-mobility-times-curvature', 'relative error %.2e; D=%s reference=%s' % (errD, D.tolist(), Dref.tolist()))

    # ---- binary: Darken with kawin's own tracer diffusivities and the finite-difference thermodynamic factor
    if n == 2 and M is not None:
        b = solutes[0]
        ib, ia = alpha.index(b), alpha.index(ref)
        xB, xA = xfull[b], xfull[ref]
        R_K = 8.314           # the gas constant inside kawin's D* = M R T; it cancels against Phi
        phi = xA * xB / (R_K * T) * (dmu[ib, 0] - dmu[ia, 0])
        dark = (xB * Dt_alpha[ia] + xA * Dt_alpha[ib]) * phi
        e = abs(float(D[0, 0]) - dark) / abs(dark)
        if e > TOL_DARKEN:
            bad('darken', 'D=%r, (xB D*_A + xA D*_B) Phi=%r, Phi=%r, relative error %.2e' % (float(D[0, 0]), dark, phi, e))

    # ---- volume-fixed frame: substitutional rows of each column of the mobility matrix sum to zero
    if mobc is not None:
        MM = np.asarray(mobility_matrix(cs, mobc, mobility_correction=dict(th.mobility_correction)), dtype=float)
        if inter:
            rows = [i for i, e in enumerate(alpha) if e not in inter]
            MM = MM[np.ix_(rows, rows)]       # substitutional block; the interstitial rows/columns carry no substitutional flux
        cols = np.abs(MM.sum(axis=0)) / np.max(np.abs(MM), axis=0)
        if np.any(cols > TOL_COLSUM):
            bad('mobility-matrix-column-sum', 'relative column sums %s of %s' % (cols.tolist(), MM.tolist()))

    # ---- argument forms: the queries accept the composition with the reference element included (first entry, dropped by
    # kawin.thermo.utils._process_x) and, for a binary, as a bare scalar.  The same physical composition must give the same
    # answer; a form the library rejects with an exception is counted, not judged (seed s10e dropped the wrong entry).
    xfull_user = [xfull[ref]] + list(x)
    forms = []
    if n >= 3:
        forms.append(('full', np.array(xfull_user)))
        forms.append(('full-list', list(xfull_user)))
    else:
        forms.append(('scalar', float(x[0])))
    for fname, xf in forms:
        try:
            Df = np.atleast_2d(np.asarray(th.getInterdiffusivity(xf, T, phase=phase), dtype=float))
            Dtf = np.asarray(th.getTracerDiffusivity(xf, T, phase=phase), dtype=float)
        except Exception:
            continue
        if Df.shape != D.shape or float(np.max(np.abs(Df - D))) > TOL_FORM * float(np.max(np.abs(D))):
            bad('argument-form/%s/interdiffusivity' % fname, 'x=%r gives %s, solute form gives %s' % (xf, Df.tolist(), D.tolist()))
        if Dtf.shape != Dt.shape or float(np.max(np.abs(Dtf - Dt) / np.abs(Dt))) > TOL_FORM:
            bad('argument-form/%s/tracer' % fname, 'x=%r gives %s, solute form gives %s' % (xf, Dtf.tolist(), Dt.tolist()))
    try:
        lf = _local(th, xfull_user, T, phase)
    except Exception:
        lf = None
    if lf is not None:
        if float(np.max(np.abs(lf[0] - mu0))) > TOL_FORM * max(float(np.max(np.abs(mu0))), 1.0):
            bad('argument-form/full/chemical-potentials', 'full composition %s gives mu=%s, solute form gives %s'
                % (xfull_user, lf[0].tolist(), mu0.tolist()))
        Xf = np.array(lf[1].X, dtype=float)
        if float(np.max(np.abs(Xf - xa))) > 1e-8:
            bad('argument-form/full/equilibrium-composition', 'full composition %s equilibrated at %s (alphabetical %s)'
                % (xfull_user, Xf.tolist(), alpha))

    # ---- second element order
    if order is not None:
        th2 = system(s, order)
        sol2 = order[1:]
        x2 = [xfull[e] for e in sol2]
        D2 = np.atleast_2d(np.asarray(th2.getInterdiffusivity(np.array(x2), T, phase=phase), dtype=float))
        p2 = [sol2.index(e) for e in solutes]
        eo = float(np.max(np.abs(D2[np.ix_(p2, p2)] - D))) / float(np.max(np.abs(D)))
        if eo > TOL_ORDER:
            bad('element-order/interdiffusivity', 'order %s gives %s, order %s gives %s (relative %.2e)'
                % (order, D2.tolist(), els_user, D.tolist(), eo))
        Dt2 = np.asarray(th2.getTracerDiffusivity(np.array(x2), T, phase=phase), dtype=float)
        Dt2u = np.array([Dt2[order.index(e)] for e in els_user])
        eo = float(np.max(np.abs(Dt2u - Dt) / np.abs(Dt)))
        if eo > TOL_ORDER:
            bad('element-order/tracer', 'order %s gives %s, order %s gives %s' % (order, Dt2.tolist(), els_user, Dt.tolist()))
    return 'checked', viol, {'errH': errH, 'errD': errD}


def run_points(case):
    s, T, pts = case['sys'], case['T'], case['points']
    order = SYSTEMS[s].get('reorder')
    viol, outcomes = [], {}
    worstH = worstD = 0.0
    nchk = 0
    for x in pts:
        try:
            oc, v, data = check_point(s, x, T, order)
        except Exception as e:          # the queries are documented to work on the whole single-phase field
            import traceback
            oc, v, data = 'exception', [{'sig': '%s/%s/exception' % (s, SYSTEMS[s]['phase']),
                                         'msg': '%s x=%s T=%g: %s: %s\n%s' % (s, x, T, type(e).__name__, e,
                                                                              traceback.format_exc()[-600:])}], None
        outcomes[oc] = outcomes.get(oc, 0) + 1
        seen = set()
        for vv in v:
            if vv['sig'] not in seen and sum(1 for w in viol if w['sig'] == vv['sig']) < 3:
                viol.append(vv)
                seen.add(vv['sig'])
        if data:
            nchk += 1
            worstH, worstD = max(worstH, data['errH']), max(worstD, data['errD'])
    return {'viol': viol, 'states': len(pts), 'transitions': nchk, 'traces': len(pts),
            'outcome': ','.join('%s=%d' % kv for kv in sorted(outcomes.items())), 'nontrivial': nchk > 0,
            'info': {'outcomes': outcomes, 'worst_rel_err_H_vs_fd': worstH, 'worst_rel_err_D_vs_ref': worstD}}


def run(ctx):
    quick = ctx.quick
    n1 = 20 if quick else 40         # points per axis, binaries
    n2 = 8 if quick else 14          # points per axis, ternaries
    ctx.rule = ('full lattice (points per axis x temperatures) over the matrix region of every shipped system; every '
                'oracle evaluated at every point that converges and is locally stable by the finite-difference test; '
                'non-trivial = group with at least one checked point')
    ctx.bounds = {'systems': {k: {kk: v[kk] for kk in ('elements', 'phase', 'axes', 'T')} for k, v in SYSTEMS.items()},
                  'points_per_axis': {'binary': n1, 'ternary': n2},
                  'tolerances': {'fd': TOL_FD, 'symmetry': TOL_SYM, 'tracer': TOL_TRACER, 'darken': TOL_DARKEN,
                                 'column_sum': TOL_COLSUM, 'element_order': TOL_ORDER}}
    ctx.assumptions = ['pycalphad\'s chemical potentials are trusted (the reference differentiates them numerically)',
                       'all matrix phases of the shipped systems are substitutional with a vacancy-only second sublattice',
                       'points where the single-phase local equilibrium does not converge or the finite-difference '
                       'curvature is not positive definite are excluded and counted in the outcome histogram']
    cases = []
    for s, d in SYSTEMS.items():
        n = n1 if len(d['axes']) == 1 else n2
        pts = lattice(s, n)
        Ts = d['T'] if (not quick or len(d['T']) < 3) else [d['T'][0], d['T'][2]]        # quick: 2 of the 4 temperatures
        for T in Ts:
            g = 8 if len(d['axes']) == 1 else 6
            for i in range(0, len(pts), g):
                cases.append({'sys': s, 'T': T, 'points': pts[i:i + g]})
    res = ctx.product_run('lattice', 'checks.c10:run_points', cases, chunksize=1)
    tot = {}
    wH = wD = 0.0
    for r in res:
        for k, v in r.get('info', {}).get('outcomes', {}).items():
            tot[k] = tot.get(k, 0) + v
        wH = max(wH, r.get('info', {}).get('worst_rel_err_H_vs_fd', 0.0))
        wD = max(wD, r.get('info', {}).get('worst_rel_err_D_vs_ref', 0.0))
    ctx.extra['points'] = tot
    ctx.extra['worst_rel_err_H_vs_fd'] = wH
    ctx.extra['worst_rel_err_D_vs_ref'] = wD
    if not tot.get('checked'):
        raise RuntimeError('no lattice point was checked')
