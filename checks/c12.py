"""C12 - driving force, phase boundary and critical radius agree with each other.

Exploration (E1 + E3).

stage 'binary'   per (system, temperature): Gibbs-Thomson lattice g = 0 ... beyond the stability limit, supersaturation lattice
                 round the planar solvus, four driving-force methods (one BinaryThermodynamics object per method, every query
                 with removeCache=True, so no cached composition set is shared - history dependence is C09's subject).
                 Systems: Al-Zr (Al3Zr, stoichiometric), Cu-Ti (Cu4Ti, two mixing sublattices), the analytic binary of
                 mc/synth_thermo.py (conformance of the stub: same oracle, offset 0).
                 Oracles
                   (1) DF_tangent(x_alpha(T, g), T) = g + gOffset   wherever x_alpha is not the -1 sentinel
                       (gOffset = GeneralThermodynamics.gOffset = 1 J/mol is added to the precipitate in the equilibrium that
                       defines x_alpha and not in the parallel-tangent solve)
                   (2) stoichiometric precipitate: 'approximate' and 'sampling' carry the offset on both sides:
                       DF(x_alpha(T, g), T) = g; all methods equal the tangent value to the offset
                   (3) DF changes sign at x_alpha(T, 0): negative below, positive above, outside the stated band
                   (4) DF strictly increasing in x for every method
                   (5) x_alpha non-decreasing in g, x_alpha(T, g) >= x_alpha(T, 0); once -1 always -1 for larger g
                   (6) the four methods agree in sign outside the band round the solvus
                 'curvature' is documented as a first-order expansion in the supersaturation ("assumes small saturation",
                 "not recommended"): its value is compared only for |s| <= 0.1 with a tolerance of |s| * |DF| (the neglected second
                 order term of ln(1 + s)); its sign and monotonicity are checked everywhere.
stage 'states'   every monitored state of analytic binary and ternary precipitation runs (reduced products of
                 mc/precip_product.py): for every phase with positive driving force and Rcrit > Rmin (the clamp), the growth rate
                 at every size-class boundary at least one class above Rcrit is > 0 and at least one class below is < 0.
                 Which values belong together: KWNBase.postProcess computes mass balance, driving force, Rcrit
                 (_calcNucleationRate) and the growth rates (_growthRate) from the same new distribution and appends them as row n;
                 _updateParticleSizeDistribution may then re-mesh and recomputes model.growth from row n on the new boundaries
                 before the observers are called.  So monitor rows[n]['post']['growth'/'bounds'] belong to pData.Rcrit[n],
                 pData.drivingForce[n].  Radius conventions: PSD boundaries are the equivalent spherical radius for bulk /
                 dislocation sites with any shape (Rcrit = 2 f(ar) gamma / dG and the Gibbs-Thomson energy 2 f(ar(R)) gamma Vm / R
                 use the same thermodynamic factor when the aspect ratio is constant, which the harness configures), and the
                 radius of curvature of the caps for grain-boundary, edge and corner sites (Clemm-Fisher: R* = 2 (a gamma - b gamma_gb) /
                 (3 c dG), which reduces to 2 gamma / dG for all three sites, while the Gibbs-Thomson energy of these spherical caps is
                 2 gamma Vm / R: the sign test below therefore also checks that reduction).
                 Binary, non-isothermal: the size-class -> interfacial composition table is documented to be rebuilt when the
                 temperature has moved by more than maxTempChange (1 K) since the last rebuild, so the growth rates may belong to a
                 temperature up to 1 K away from the one Rcrit was computed at; in those states Rcrit is replaced by the interval
                 [Rcrit(T - 1 K), Rcrit(T + 1 K)] computed from the analytic backend; isothermal and ternary states are checked exactly.
"""
PROPERTY = 'C12'
LEVEL = 'exploration'

np = None

# ------------------------------------------------------------------------------------------------------------------
# tolerances / bands
TOL_ABS = 0.5        # J/mol  (DESIGN: 0.5 J/mol + 1e-4 rel): half the documented offset, so a missing / doubled offset shows
TOL_REL = 1e-4       # pycalphad site fractions are converged to 5e-9 absolute; x_alpha ~ 1e-5 ... 1e-2 -> d(DF) = x_b R T dx/x <~ 1e-4 DF
METHODS = ['tangent', 'approximate', 'sampling', 'curvature']
OFFSET = {'tangent': 1.0, 'approximate': 0.0, 'sampling': 0.0, 'curvature': 0.0, 'analytic': 0.0}

BIN_SYSTEMS = {
    # T: inside the range where the precipitate is stable next to the FCC matrix and used by kawin's tests / examples.
    # band: |DF_tangent| below which signs are not compared.  Al3Zr is a single point in composition space, the sampling method
    # is exact there; Cu4Ti is sampled with 2000 points per degree of freedom, the best sample misses the parallel tangent by up
    # to ~10 J/mol (measured), 'approximate' evaluates the precipitate at its equilibrium instead of its parallel-tangent
    # composition (always an under-estimate, but of the right sign by convexity)
    'alzr': dict(kind='real', db=('datasets', 'ALZR_TDB'), elements=['AL', 'ZR'], phases=['FCC_A1', 'AL3ZR'], guess=None,
                 T=(523.15, 823.15), stoich=True, band=5.0),
    'cuti': dict(kind='real', db=('file', 'CuTi.tdb'), elements=['CU', 'TI'], phases=['FCC_A1', 'CU4TI'], guess=0.15,
                 T=(573.15, 773.15), stoich=False, band=50.0),
    # solute listed after a solvent that sorts behind it (AL < NI): the composition index of pycalphad's alphabetical order is the
    # other one ("reverse" branch of BinaryThermodynamics).  Ordered L12 precipitate; Gibbs-Thomson energies above 1 kJ/mol pick up
    # a second, Al-rich FCC_A1 + FCC_L12 tie-line of this database, which is outside the statement: lattice cut at gmax
    'nial': dict(kind='real', db=('datasets', 'NICRAL_TDB'), elements=['NI', 'AL'], phases=['FCC_A1', 'FCC_L12'], guess=None,
                 T=(873.15, 1073.15), stoich=False, band=50.0, gmax=1000.0),
    'analytic': dict(kind='analytic', T=(600.0, 1100.0), stoich=True, band=1e-6),
}
EXAMPLES = '/repo/examples/'       # data files (mutant copies carry only kawin/)
G_LATTICE_Q = [0.0, 1.0, 30.0, 300.0, 1000.0, 3000.0, 6000.0, 10000.0, 20000.0, 40000.0, 80000.0]
G_LATTICE_T = [0.0, 0.3, 1.0, 3.0, 10.0, 30.0, 100.0, 300.0, 600.0, 1000.0, 2000.0, 3000.0, 4500.0, 6000.0, 8000.0, 10000.0, 13000.0,
               16000.0, 20000.0, 25000.0, 30000.0, 40000.0, 60000.0, 80000.0, 120000.0]
S_LATTICE_Q = [-0.6, -0.2, -0.05, 0.05, 0.2, 0.6, 1.5, 4.0]
S_LATTICE_T = [-0.8, -0.6, -0.4, -0.2, -0.1, -0.05, -0.02, 0.02, 0.05, 0.1, 0.2, 0.4, 0.6, 1.0, 1.5, 2.5, 4.0, 7.0]
_BT = {}


def prepare():
    global np
    import numpy as np
    import kawin.precipitation  # noqa: F401
    from mc import precip, precip_product  # noqa: F401
    for s, d in BIN_SYSTEMS.items():
        if d['kind'] == 'real':
            for m in METHODS:
                _btherm(s, m)


def _btherm(sysname, method):
    key = (sysname, method)
    if key not in _BT:
        d = BIN_SYSTEMS[sysname]
        if d['kind'] == 'analytic':
            from mc import synth_thermo as st
            _BT[key] = st.SynthBinary([st.BinaryPhase('P1', 0.25, 8.0, 60000.0)])
        else:
            from kawin.thermo import BinaryThermodynamics
            import kawin.tests.datasets as datasets
            kind, name = d['db']
            db = getattr(datasets, name) if kind == 'datasets' else EXAMPLES + name
            th = BinaryThermodynamics(db, list(d['elements']), list(d['phases']), drivingForceMethod=method)
            if d['guess'] is not None:
                th.setGuessComposition(d['guess'])
            th.setDFSamplingDensity(2000)
            th.setEQSamplingDensity(500)
            _BT[key] = th
    return _BT[key]


def _df(th, x, T):
    """driving force at one (x, T) as float, None when the method reports no result"""
    dg, _ = th.getDrivingForce(x, T, removeCache=True)
    if dg is None:
        return None
    dg = np.asarray(dg)
    if dg.dtype == object:
        return None
    return float(dg)


def run_binary(case):
    sysname, T = case['system'], case['T']
    d = BIN_SYSTEMS[sysname]
    methods = ['analytic'] if d['kind'] == 'analytic' else METHODS
    glat = np.array(case['g'], dtype=float)
    slat = list(case['s'])
    viol, seen = [], set()
    tag = '%s T=%g' % (sysname, T)

    def bad(kind, msg):
        sig = 'binary/%s/%s' % (sysname, kind)
        if sig not in seen:
            seen.add(sig)
            viol.append({'sig': sig, 'msg': '%s: %s' % (tag, msg)})

    def tol(v):
        return TOL_ABS + TOL_REL * abs(v)

    ths = {m: _btherm(sysname, m) for m in methods}
    for th in ths.values():
        th.clearCache()
    ic = ths[methods[0]]
    # the array is copied: BinaryThermodynamics adds the offset to the caller's array in place (reported under C09)
    xa, xb = ic.getInterfacialComposition(T, glat.copy())
    xa, xb = np.atleast_1d(np.array(xa, dtype=float)), np.atleast_1d(np.array(xb, dtype=float))
    stable = xa != -1
    nq = len(glat)
    # the precipitation model queries the table with the smallest radius (largest Gibbs-Thomson energy, possibly unstable) first:
    # the answer for a given g must not depend on the position / order of the entries of the array
    xa_d, xb_d = ic.getInterfacialComposition(T, glat[::-1].copy())
    xa_d, xb_d = np.atleast_1d(np.array(xa_d, dtype=float))[::-1], np.atleast_1d(np.array(xb_d, dtype=float))[::-1]
    nq += len(glat)
    if np.any((xa_d == -1) != (xa == -1)) or not np.allclose(xa_d[stable], xa[stable], rtol=1e-8, atol=0) \
            or not np.allclose(xb_d[stable], xb[stable], rtol=1e-8, atol=0):
        bad('depends-on-order-of-g-array', 'ascending g gives x_alpha %r, the same energies in descending order give %r' % (xa.tolist(), xa_d.tolist()))
    # (5) sentinel and monotonicity structure
    if not stable[0]:
        return {'viol': viol, 'states': 1, 'transitions': nq, 'outcome': '%s/no-solvus' % sysname, 'nontrivial': False,
                'info': {'xa': xa.tolist()}}
    if np.any((xa == -1) != (xb == -1)):
        bad('sentinel-mismatch', 'matrix sentinel pattern %r, precipitate %r' % (xa.tolist(), xb.tolist()))
    first_unstable = int(np.argmax(~stable)) if np.any(~stable) else len(glat)
    if np.any(stable[first_unstable:]):
        j = first_unstable + int(np.argmax(stable[first_unstable:]))
        bad('stable-again', 'x_alpha is the -1 sentinel at g=%g but %r at the larger g=%g' % (glat[first_unstable], xa[j], glat[j]))
    xs = xa[:first_unstable]
    if np.any(np.diff(xs) < -1e-9 * xs[:-1]):
        j = int(np.argmax(np.diff(xs) < -1e-9 * xs[:-1]))
        bad('xalpha-decreasing', 'x_alpha(g=%g)=%r > x_alpha(g=%g)=%r' % (glat[j], xs[j], glat[j + 1], xs[j + 1]))
    if np.any((xs <= 0) | (xs >= 1)):
        bad('xalpha-range', 'x_alpha = %r' % xs.tolist())
    x0 = float(xs[0])
    # (1), (2) DF at the interfacial composition
    worst = {}
    for m, th in ths.items():
        for j in range(first_unstable):
            if m == 'curvature' and glat[j] > 0:
                continue            # first-order method: value compared on the supersaturation lattice below
            if m != 'tangent' and m != 'analytic' and not d['stoich']:
                continue            # only the parallel-tangent value is the nucleation driving force of a solution phase
            v = _df(th, float(xs[j]), T)
            nq += 1
            if v is None:
                bad('DF-none/%s' % m, 'no driving force at x_alpha(g=%g)=%r' % (glat[j], xs[j]))
                continue
            dev = v - glat[j] - OFFSET[m]
            worst[m] = max(worst.get(m, 0.0), abs(dev))
            if abs(dev) > tol(glat[j]):
                bad('DF-at-xalpha/%s' % m, 'g=%g: x_alpha=%r, DF(x_alpha)=%r, expected g + %g (deviation %.4g J/mol > %.3g)'
                    % (glat[j], xs[j], v, OFFSET[m], dev, tol(glat[j])))
    # supersaturation lattice, kept inside the matrix side of the two-phase field (x below 80 % of the precipitate composition:
    # beyond the precipitate composition "more solute" is no longer "more supersaturation")
    slat = [s for s in slat if x0 * (1 + s) < 0.8 * float(xb[0])]
    xl = [x0 * (1 + s) for s in slat]
    DF = {}
    for m, th in ths.items():
        DF[m] = [_df(th, x, T) for x in xl]
        nq += len(xl)
    ref = DF['tangent'] if 'tangent' in DF else DF['analytic']
    refoff = OFFSET['tangent' if 'tangent' in DF else 'analytic']
    band = d['band']
    for m in DF:
        vals = DF[m]
        if any(v is None for v in vals):
            j = [i for i, v in enumerate(vals) if v is None][0]
            bad('DF-none/%s' % m, 'no driving force at x = x_alpha(0) * (1 %+g)' % slat[j])
            continue
        # (4) strictly increasing
        for j in range(len(vals) - 1):
            if not (vals[j + 1] > vals[j]):
                bad('DF-not-increasing/%s' % m, 'DF(x=%r)=%r but DF(x=%r)=%r' % (xl[j], vals[j], xl[j + 1], vals[j + 1]))
                break
        for j, s in enumerate(slat):
            r = ref[j]
            if r is None or abs(r) < band:
                continue
            # (3) sign change at the planar solvus, (6) sign agreement
            if (vals[j] > 0) != (s > 0):
                bad('DF-sign-vs-solvus/%s' % m, 'x = x_alpha(T,0) * (1 %+g) = %r: DF = %r' % (s, xl[j], vals[j]))
            if (vals[j] > 0) != (r > 0):
                bad('DF-sign-vs-tangent/%s' % m, 'x = %r: DF_%s = %r but DF_tangent = %r' % (xl[j], m, vals[j], r))
        # (2) value agreement for the stoichiometric precipitate
        if d['stoich'] and m not in ('tangent', 'analytic'):
            for j, s in enumerate(slat):
                r = ref[j]
                if r is None:
                    continue
                dev = (vals[j] - OFFSET[m]) - (r - refoff)
                t = tol(r)
                if m == 'curvature':
                    if s < 0 or abs(s) > 0.1:
                        continue        # below the solvus the method falls back to sampling; far above it is out of its stated range
                    t += abs(s) * abs(r)
                worst['value/' + m] = max(worst.get('value/' + m, 0.0), abs(dev))
                if abs(dev) > t:
                    bad('DF-value-vs-tangent/%s' % m, 'x = x_alpha(T,0) * (1 %+g) = %r: DF_%s = %r, DF_tangent = %r (offsets %g / %g; deviation %.4g > %.3g)'
                        % (s, xl[j], m, vals[j], r, OFFSET[m], refoff, dev, t))
    oc = '%s/stable-g=%d/of=%d' % (sysname, first_unstable, len(glat))
    return {'viol': viol, 'states': len(glat) + len(xl), 'transitions': nq, 'evaluations': nq, 'outcome': oc,
            'nontrivial': 1 < first_unstable < len(glat),
            'info': {'x_alpha': xs.tolist(), 'first_unstable_g': (None if first_unstable == len(glat) else float(glat[first_unstable])),
                     'worst_dev_J_per_mol': {k: float('%.4g' % v) for k, v in worst.items()},
                     'DF_tangent': [None if v is None else float('%.6g' % v) for v in ref]}}


def _lin(lo, hi, n):
    return [lo + (hi - lo) * i / (n - 1) for i in range(n)] if n > 1 else [0.5 * (lo + hi)]


def binary_cases(quick):
    out = []
    for s, d in BIN_SYSTEMS.items():
        nT = 3 if quick else (25 if d['kind'] == 'real' else 41)
        for T in _lin(d['T'][0], d['T'][1], nT):
            gl = [g for g in (G_LATTICE_Q if quick else G_LATTICE_T) if g <= d.get('gmax', float('inf'))]
            out.append({'system': s, 'T': round(T, 6), 'g': gl, 's': S_LATTICE_Q if quick else S_LATTICE_T})
    return out


# ------------------------------------------------------------------------------------------------------------------
# stage 'tarrays': the same clause for array-valued temperature - every entry (T_i, g_i) of an array call is the answer of the
# scalar call at (T_i, g_i), whatever the shape of the temperature sequence (a thermal cycle returns to its first value)

T_PATTERNS = {'const': [0, 0, 0], 'up': [0, 1, 2], 'cycle': [0, 1, 0], 'cycle4': [0, 1, 1, 0], 'down-up': [2, 0, 2], 'pair': [0, 1],
              'plateau-end': [0, 1, 1], 'cycle5': [0, 2, 1, 2, 0]}


def run_tarrays(case):
    sysname, pattern, gs = case['system'], case['pattern'], case['g']
    d = BIN_SYSTEMS[sysname]
    th = _btherm(sysname, 'analytic' if d['kind'] == 'analytic' else 'tangent')
    th.clearCache()
    Ts = _lin(d['T'][0], d['T'][1], 5)[1:4]
    idx = T_PATTERNS[pattern]
    Tarr = np.array([Ts[i] for i in idx], dtype=float)
    garr = np.array([gs[k % len(gs)] for k in range(len(idx))], dtype=float)
    viol = []
    xa, xb = th.getInterfacialComposition(Tarr.copy(), garr.copy())
    xa, xb = np.atleast_1d(np.array(xa, dtype=float)), np.atleast_1d(np.array(xb, dtype=float))
    nq = 1
    if xa.shape != Tarr.shape or xb.shape != Tarr.shape:
        viol.append({'sig': 'binary/%s/T-array/shape/%s' % (sysname, pattern),
                     'msg': '%s: %d temperatures give x_alpha of shape %r' % (sysname, len(Tarr), xa.shape)})
    else:
        for k in range(len(Tarr)):
            a1, b1 = th.getInterfacialComposition(float(Tarr[k]), float(garr[k]))
            a1, b1 = float(np.squeeze(a1)), float(np.squeeze(b1))
            nq += 1
            ok = (a1 == -1) == (xa[k] == -1) and abs(xa[k] - a1) <= 1e-8 * abs(a1) and abs(xb[k] - b1) <= 1e-8 * abs(b1)
            if not ok:
                viol.append({'sig': 'binary/%s/T-array/entry-differs-from-scalar-call/%s' % (sysname, pattern),
                             'msg': '%s: T=%r g=%r: entry %d (T=%g, g=%g) is x_alpha=%r x_beta=%r, the scalar call gives %r %r'
                             % (sysname, Tarr.tolist(), garr.tolist(), k, Tarr[k], garr[k], xa[k], xb[k], a1, b1)})
                break
    return {'viol': viol, 'states': len(idx), 'transitions': nq, 'outcome': '%s/%s' % (sysname, pattern), 'nontrivial': len(set(idx)) > 1}


def tarray_cases(quick):
    out = []
    for s in BIN_SYSTEMS:
        for pattern in T_PATTERNS:
            for gs in ([[0.0, 1000.0, 3000.0]] if quick else [[0.0, 1000.0, 3000.0], [2000.0], [6000.0, 300.0]]):
                gs = [min(g, BIN_SYSTEMS[s].get('gmax', g)) for g in gs]
                out.append({'system': s, 'pattern': pattern, 'g': gs})
    return out


# ------------------------------------------------------------------------------------------------------------------
# stage 'states'

def run_states(case):
    from mc import precip
    pack = None
    if case['system'] == 'bin':
        # The binary growth law divides by (x_beta V_alpha / V_beta - x_alpha(R)).  With real databases x_alpha << x_beta wherever the
        # precipitate is reported stable (Al-Zr: <= 0.03 against 0.24).  The stub's default stability limit (0.2) lies above
        # x_beta V_alpha / V_beta for the large molar-volume ratios of this product (0.25 / 1.3 = 0.19): a size class in that window
        # gets a growth rate of +inf, which is outside "the range in which the precipitate is stable".  The limit of the stub is
        # therefore lowered to 60 % of x_beta V_alpha / V_beta; kawin then treats those classes as unstable (sentinel), as with a
        # real backend.
        cf = precip.cfg_full(case)
        therm, names, elements = precip.make_thermo(cf, cf.get('faults'))
        for nm, ph in therm.prec.items():
            ph.xlim = min(ph.xlim, 0.6 * ph.xb / (cf['vm'] * precip.PHASE_PARAMS.get(nm, (1.0, 1.0))[1]))
        pack = (therm, names, elements)
    r = precip.run_model(case, hooks=False, therm_pack=pack)
    m, c, mon = r['model'], r['cfg'], r['monitor']
    d = m.pData
    P = len(m.phases)
    viol, seen = [], set()
    iso = c['temp'].startswith('iso')
    shape = c['shape']
    sites = c['site'] if isinstance(c['site'], list) else [c['site']] * P
    tag = '%s nphases=%d site=%s shape=%s ratio=%g gamma=%g vm=%g it=%s temp=%s' % (c['system'], P, c['site'], shape, c['ratio'], c['gamma'],
                                                                                    c['vm'], c['it'], c['temp'])
    stats = {'states': 0, 'eligible': 0, 'above': 0, 'below': 0, 'clamped': 0, 'negDF': 0, 'both-sides': 0, 'all-zero-growth': 0}

    def bad(kind, n, p, msg):
        conv = 'gb' if sites[p] not in ('bulk', 'dislocations') else ('sphere' if shape == 'sphere' else 'shape')
        sig = 'states/%s/%s/%s/%s' % (kind, c['system'], 'iso' if iso else 'noniso', conv)
        if sig not in seen:
            seen.add(sig)
            viol.append({'sig': sig, 'msg': '%s: step %d (t=%g, T=%g) phase %d (%s): %s' % (tag, n, d.time[n], d.temperature[n], p, sites[p], msg)})

    N = min(d.n, len(mon.rows) - 1)
    for n in range(1, N + 1):
        post = mon.rows[n].get('post')
        if post is None:
            continue
        for p in range(P):
            stats['states'] += 1
            dG, Rc = float(d.drivingForce[n, p]), float(d.Rcrit[n, p])
            Rmin = m.precipitateParameters[p].Rmin
            if not (dG > 0):
                stats['negDF'] += 1
                continue
            if not (Rc > Rmin):
                stats['clamped'] += 1        # Rcrit is the clamp value, not the root of dG = Gibbs-Thomson energy
                continue
            g, b = post['growth'][p], post['bounds'][p]
            if g is None or len(g) != len(b):
                bad('growth-shape', n, p, 'growth has %r entries for %d class boundaries' % (None if g is None else len(g), len(b)))
                continue
            stats['eligible'] += 1
            if not np.any(g != 0):
                stats['all-zero-growth'] += 1
            Rlo = Rhi = Rc
            if c['system'] == 'bin' and not iso:
                # documented contract (setConstraints: "maxTempChange - maximum temperature change before lookup table is updated
                # (only for Euler in binary case) (1 K)"): the interfacial-composition table, hence the growth rates, may belong to
                # a temperature up to maxTempChange away.  Rcrit ~ 1/dG; the driving force at T +- maxTempChange comes from the
                # analytic backend the harness owns, not from kawin
                th, nm = r['therm'], m.precipitateParameters[p].phase
                xm, Tn, dT = float(d.composition[n, 0]), float(d.temperature[n]), float(m.constraints.maxTempChange)
                g0 = float(th.getDrivingForce(xm, Tn, precPhase=nm)[0])
                gs = [float(th.getDrivingForce(xm, Tn + q * dT, precPhase=nm)[0]) for q in (-1.0, 1.0)]
                # with elastic strain energy the critical radius follows the NET driving force: the volumetric elastic term is what
                # separates the recorded driving force from the chemical one of the backend at the same temperature
                vmb = float(m.precipitateParameters[p].volume.Vm)
                eel = g0 / vmb - dG
                if abs(eel) <= 1e-9 * abs(dG):
                    eel = 0.0
                g0, gs = g0 - eel * vmb, [v - eel * vmb for v in gs]
                if g0 > 0 and min(gs) > 0:
                    Rlo, Rhi = Rc * min(1.0, g0 / max(gs)), Rc * max(1.0, g0 / min(gs))
                    stats['widened'] = stats.get('widened', 0) + 1
                else:
                    stats['near-solvus-skipped'] = stats.get('near-solvus-skipped', 0) + 1
                    continue
            ia = np.argwhere(b > Rhi)
            ib = np.argwhere(b < Rlo)
            chk = 0
            if len(ia) and ia[0][0] + 1 < len(b):
                k = int(ia[0][0]) + 1                      # at least one class above Rcrit
                stats['above'] += 1
                chk += 1
                if not np.all(g[k:] > 0):
                    j = k + int(np.argmax(~(g[k:] > 0)))
                    bad('not-growing-above-Rcrit', n, p, 'driving force %.6g J/m3, Rcrit=%.6g m; boundary R=%.6g m (%d classes above Rcrit) has growth rate %.6g m/s; '
                        'growth changes sign between R=%s' % (dG, Rc, b[j], j - int(ia[0][0]), g[j], _crossing(b, g)))
            if len(ib) and ib[-1][0] - 1 >= 0:
                k = int(ib[-1][0]) - 1                     # at least one class below Rcrit
                stats['below'] += 1
                chk += 1
                if not np.all(g[:k + 1] < 0):
                    j = int(np.argmax(~(g[:k + 1] < 0)))
                    bad('not-shrinking-below-Rcrit', n, p, 'driving force %.6g J/m3, Rcrit=%.6g m; boundary R=%.6g m (%d classes below Rcrit) has growth rate %.6g m/s; '
                        'growth changes sign between R=%s' % (dG, Rc, b[j], int(ib[-1][0]) - j, g[j], _crossing(b, g)))
            if chk == 2:
                stats['both-sides'] += 1
    err = r['error']
    oc = '%s/%s/%s/%s%s' % (c['system'], 'iso' if iso else 'noniso', shape if shape != 'sphere' else 'sphere', 'both' if stats['both-sides'] else
                            ('one-side' if stats['eligible'] else 'none'), '' if err is None else '/' + err[0])
    return {'viol': viol, 'states': stats['states'], 'transitions': stats['above'] + stats['below'], 'outcome': oc,
            'nontrivial': stats['both-sides'] > 0, 'info': stats}


def _crossing(b, g):
    sgn = np.sign(g)
    idx = np.argwhere(sgn[1:] != sgn[:-1])
    if not len(idx):
        return 'nowhere (all %s)' % ('positive' if sgn[0] > 0 else 'negative' if sgn[0] < 0 else 'zero')
    return ', '.join('[%.4g, %.4g]' % (b[i[0]], b[i[0] + 1]) for i in idx[:3])


def state_cases(quick):
    from mc import core, precip_product as pp
    base = {'tf': 20.0, 'constraints': {'dtScale': 0.05}, 'max_steps': 2500, 'record': False}
    out = []
    # reduced main product of mc/precip_product.py (precipitate diffusion and solve split do not enter the growth law)
    lv = {'system': ['bin', 'tern'],
          'nphases': [1, 2] if quick else [1, 2, 3],
          'site': ['bulk', 'grain boundaries', 'grain corners'] if quick else ['bulk', 'dislocations', 'grain boundaries', 'grain edges', 'grain corners'],
          'it': ['euler', 'rk4'],
          'temp': ['iso', 'hrh'] if quick else ['iso', 'iso_mid', 'heat', 'cool', 'hrh', 'updown', 'slowheat']}
    for cc in core.product(lv, pp.valid):
        dd = dict(base)
        dd.update(cc)
        out.append(dd)
    # interfacial energy x molar volume x shape (bulk sites)
    lv = {'system': ['bin', 'tern'],
          'shape': ['sphere', 'needle', 'plate', 'cubic'],
          'ratio': [3.0] if quick else [1.5, 3.0],
          'gamma': [0.07, 0.15] if quick else [0.07, 0.1, 0.15],
          'vm': [0.8, 1.3],
          'it': ['euler'] if quick else ['euler', 'rk4'],
          'temp': ['iso'] if quick else ['iso', 'hrh']}
    for cc in core.product(lv, lambda c_: not (c_['shape'] == 'sphere' and c_['ratio'] != lv['ratio'][0])):
        dd = dict(base)
        dd.update(cc)
        dd['site'] = 'bulk'
        out.append(dd)
    # elastic strain energy per phase (it enters the driving force for nucleation and the Gibbs-Thomson term of every size class alike)
    strain = {'P1': {'eig': [0.012, 0.012, 0.012], 'calc': False}, 'P2': {'eig': [0.008, 0.008, 0.004], 'calc': False}}
    # (ternary runs evaluate the Eshelby energy for every size class at every step - minutes to more than half an hour per run at the
    #  full horizon: thorough tier only, one phase, isothermal, short horizon)
    for system in (['bin'] if quick else ['bin', 'tern']):
        for nph in ([1, 2] if system == 'bin' else [1]):
            for it in ('euler', 'rk4'):
                for temp in (['iso'] if (quick or system == 'tern') else ['iso', 'hrh']):
                    dd = dict(base)
                    dd.update({'system': system, 'nphases': nph, 'it': it, 'temp': temp, 'strain': strain, 'site': 'bulk'})
                    if system == 'tern':
                        dd['tf'] = 6.0
                    out.append(dd)
    return out


def run(ctx):
    quick = ctx.quick
    ctx.rule = ('stage binary: full lattice temperature x Gibbs-Thomson energy x supersaturation x driving-force method per binary system; '
                'non-trivial = temperature at which the g lattice crosses the stability limit.  stage states: full products of precipitation '
                'configurations, every monitored state of every run; non-trivial = run with states that have size classes on both sides of Rcrit')
    ctx.assumptions = ['one thermodynamics object per driving-force method, every query with removeCache=True (history dependence is C09)',
                       "'curvature' driving force compared in value only for 0 <= s <= 0.1 with tolerance |s| |DF| (documented first-order method)",
                       'for the solution phase Cu4Ti only the parallel-tangent value is compared with g; the other methods are compared in sign and monotonicity',
                       'analytic backends (mc/synth_thermo.py) in the precipitation-state stage; constant aspect ratio for non-spherical shapes',
                       'analytic binary: stability limit of the stub lowered to 0.6 x_beta V_alpha/V_beta (the binary growth law has a pole at x_alpha = x_beta V_alpha/V_beta)',
                       'states with Rcrit clamped to Rmin or with non-positive driving force are counted, not checked (as the property states)']
    bc, sc = binary_cases(quick), state_cases(quick)
    ctx.bounds = {'binary_cases': len(bc), 'systems': {k: {'T': v['T'], 'band_J_per_mol': v['band']} for k, v in BIN_SYSTEMS.items()},
                  'g_lattice': bc[0]['g'], 's_lattice': bc[0]['s'], 'tol_abs_J_per_mol': TOL_ABS, 'tol_rel': TOL_REL,
                  'state_runs': len(sc), 'horizon_steps': 2500}
    ctx.product_run('binary', 'checks.c12:run_binary', bc, chunksize=1)
    ctx.product_run('tarrays', 'checks.c12:run_tarrays', tarray_cases(quick))
    ctx.product_run('states', 'checks.c12:run_states', sc, chunksize=1)
