"""C13 - temperature schedules are followed faithfully.

Every accepted step of every run of four configuration products is a state on which the invariants are evaluated
(E1 + E3; the real PrecipitateModel on the analytic backends of mc/synth_thermo.py, the real SinglePhaseModel /
HomogenizationModel on the analytic environments of mc/diff_env.py).

stage schedule   schedule (constant | (hours, K) break points with 2-4 points incl. clamped ends | functions) x system x
                 phases x iterator x number of solve calls; each case is run once per *specification route*
                   setter            model.setTemperature(...)
                   ctor              PrecipitateModel(..., temperatureParameters=TemperatureParameters(...))
                   mutate            model.temperatureParameters.setIsothermalTemperature/-Array/-Function(...)
                   ctor-other+setter constructor given a schedule of another kind, then setTemperature(...)
                   ctor+mutate       the caller's TemperatureParameters object mutated after the model was constructed
                   setter-other+setter
                 O1  pData.temperature[n] == schedule(pData.time[n]) bit for bit at every recorded step of every route
                 O2  every route has _isIsothermal == (schedule is a constant) and a pData history that is bit-identical to
                     the setter route
stage respec     the schedule is replaced between two solve calls (by setter / by mutation): O1 piecewise, O2 flag
stage lookup     binary, ramps +-{0.1, 5, 100, 3000} K/h, hold-ramp-hold, up-down, saw-tooth x maxTempChange {1, 5} x
                 maxNonIsothermalDT {1, 10} x iterator x phases
                 O3  at every recorded step n and for every phase the temperature the tables in force were computed at is within
                     maxTempChange of pData.temperature[n]  (also evaluated on every binary run of the other stages)
stage real       the same O1/O3 on the Al-Zr pycalphad backend (conformance of the analytic stand-in): the table temperature is
                 read off an independently tabulated planar solvus (0.05 K grid of direct thermodynamic queries)
stage diffusion  SinglePhaseModel / HomogenizationModel x (constant | (hours, K) | field T(z, t)) x route x iterator x elements
                 O4  every temperature that reaches the thermodynamic environment for node i in an evaluation at time t is
                     schedule(z_i, t) bit for bit; an evaluation happens at every accepted step's start time; routes give
                     bit-identical recorded profiles

Which temperature does xEqAlpha[n] belong to (O3)?  postProcess(t_n, x) -> _calculateDependentTerms sets Y.temperature =
schedule(t_n) and, last, calls _growthRateBinary(Y).  That function decides - from the drift accumulated in model.dTemp since
the table was built - whether to rebuild the table at schedule(t_n) (then Y.xEqAlpha is the new planar equilibrium) or to keep
it (then Y.xEqAlpha is copied from row n-1).  Y becomes row n.  So row n carries, side by side, T_n = temperature[n] and the
planar equilibrium composition of the table that produced the growth rates stored for state n (the ones the next step starts
from).  On the analytic backend x_e(T) = A exp(-Q/RT) is strictly monotone, so T_table = BinaryPhase.T_of_xe(xEqAlpha[n]) is
exact (rounding ~1e-13 K), and the statement requires |T_table - T_n| <= maxTempChange.  The per-size-class table PSDXalpha
is observed after the step's grid clean-up (coupling slot): every class i above the stability cut-off holds
x_e(T) exp(g_i / (x_b R T)) with g_i = 2 gamma Vm_beta / r_i known from the configuration (spherical precipitates), so
T_i = (Q - g_i / x_b) / (R ln(A / x_i)) is recovered per class (classes appended later are computed at a later temperature)
and the same bound is asserted for every class.  RK4: the stages at t + dt/2 may rebuild the table too; the statement only
speaks about recorded steps, so only the tables standing at the end of each accepted step are examined.
"""
import math

PROPERTY = 'C13'
LEVEL = 'model_checking'

np = None
RGAS = 8.314
# tolerance of O3 on top of maxTempChange: T_of_xe and the per-class inversion round at ~1e-13 K, kawin's accumulated dTemp is a
# telescoping float sum of up to a few thousand differences of numbers ~1e3 (<= 1e-9 K)
TOL_T = 1e-8
MAX_STEPS = 12000


def prepare():
    global np, precip, st, PrecipitateModel, TemperatureParameters, VolumeParameter, SolverType, PrecipitationData
    global SinglePhaseModel, HomogenizationModel, DiffTemperatureParameters, HomogenizationParameters, diff_env
    import numpy as np
    import kawin.precipitation  # noqa: F401
    from kawin.precipitation import PrecipitateModel
    from kawin.precipitation.PrecipitationParameters import TemperatureParameters, PrecipitationData
    from kawin.precipitation.parameters.Volume import VolumeParameter
    from kawin.solver.Solver import SolverType
    from kawin.diffusion import SinglePhaseModel, HomogenizationModel
    from kawin.diffusion.DiffusionParameters import TemperatureParameters as DiffTemperatureParameters
    from kawin.diffusion.HomogenizationParameters import HomogenizationParameters
    from mc import precip, synth_thermo as st, diff_env
    # real backend for the conformance stage (Al-Zr, as in kawin/tests/test_precipitation.py), built once in the parent and
    # inherited by the workers, together with its planar solvus x_e(T) on a 0.05 K grid (independent of the precipitation model:
    # direct queries of the thermodynamics object) that is used to read a table temperature off a recorded xEqAlpha
    from kawin.tests.datasets import ALZR_TDB
    from kawin.thermo import BinaryThermodynamics
    th = BinaryThermodynamics(ALZR_TDB, ['AL', 'ZR'], ['FCC_A1', 'AL3ZR'], drivingForceMethod='tangent')
    th.setDFSamplingDensity(2000)
    th.setEQSamplingDensity(500)
    th.setDiffusivity(lambda T: 0.0768 * np.exp(-242000 / (8.314 * T)), 'FCC_A1')
    Tg = np.arange(REAL_T0 - 8.0, REAL_T0 + 16.0, 0.05)
    xg = np.array([float(th.getInterfacialComposition(T, 0, precPhase='AL3ZR')[0]) for T in Tg])
    if not np.all(np.diff(xg) > 0):
        raise RuntimeError('Al-Zr solvus grid is not strictly increasing: the table temperature cannot be read off xEqAlpha')
    th.clearCache()
    _REAL.update(therm=th, Tg=Tg, xg=xg)


# ----------------------------------------------------------------------------------------------------------
# schedules: a JSON description -> (arguments handed to kawin, reference callable, second independent reference)

def make_fn(spec):
    """User functions T(t [s]) -> K (plain python, pure)."""
    k = spec['fn']
    if k == 'ramp':
        T0, r = spec['T0'], spec['rate'] / 3600.0          # rate in K/h
        return lambda t: T0 + r * t
    if k == 'hrh':
        T0, T1, t1, t2 = spec['T0'], spec['T1'], spec['t1'], spec['t2']

        def hrh(t):
            if t <= t1:
                return T0
            if t >= t2:
                return T1
            return T0 + (T1 - T0) * (t - t1) / (t2 - t1)
        return hrh
    if k == 'saw':
        T0, amp, per = spec['T0'], spec['amp'], spec['period']

        def saw(t):
            u = (t / per) % 1.0
            return T0 + amp * (2 * u if u < 0.5 else 2 - 2 * u)
        return saw
    raise KeyError(k)


def interp_plain(hours, temps, t):
    """Independent linear interpolation of (hours, K) break points at t seconds, ends clamped (plain loop)."""
    h = t / 3600.0
    if h <= hours[0]:
        return temps[0]
    if h >= hours[-1]:
        return temps[-1]
    for i in range(len(hours) - 1):
        if hours[i] <= h <= hours[i + 1]:
            return temps[i] + (temps[i + 1] - temps[i]) * (h - hours[i]) / (hours[i + 1] - hours[i])
    raise AssertionError('unreachable')


class Sched:
    def __init__(self, spec):
        self.spec = spec
        self.form = spec['form']
        self.isothermal = self.form == 'const'
        if self.form == 'const':
            T = spec['T']
            self.args = (T,)
            self.ref = lambda t: T
            self.ref2 = None
        elif self.form == 'array':
            hrs, Ts = list(spec['hours']), list(spec['temps'])
            self.args = (hrs, Ts)
            # documented semantics: linear interpolation between the break points, times in hours; bit-for-bit reference =
            # numpy's interpolation of t/3600, second reference = the plain loop above (agreement to 1e-12 relative: the two
            # evaluate slope*(x-x0)+y0 in a different order)
            self.ref = lambda t: np.interp(t / 3600, hrs, Ts)
            self.ref2 = lambda t: interp_plain(hrs, Ts, t)
        elif self.form == 'fn':
            f = make_fn(spec)
            self.args = (f,)
            self.ref = f              # the same callable the model was given
            self.ref2 = None
        else:
            raise KeyError(self.form)

    def other(self):
        """A schedule of a different kind (for the routes that overwrite an earlier specification)."""
        if self.form == 'const':
            return Sched({'form': 'array', 'hours': [0.0, 0.004], 'temps': [760.0, 840.0]})
        return Sched({'form': 'const', 'T': 850.0})

    def label(self):
        s = self.spec
        if self.form == 'const':
            return 'const'
        if self.form == 'array':
            return 'array%d' % len(s['hours'])
        return 'fn-' + s['fn']


def _mutate(tp, s):
    if s.form == 'const':
        tp.setIsothermalTemperature(*s.args)
    elif s.form == 'array':
        tp.setTemperatureArray(*s.args)
    else:
        tp.setTemperatureFunction(*s.args)


ROUTES = ['setter', 'ctor', 'mutate', 'ctor-other+setter', 'ctor+mutate', 'setter-other+setter']


def build(cfg, sched, route):
    """precip.build_model with the temperature specification routed as asked (everything else identical)."""
    c = precip.cfg_full(cfg)
    therm, names, elements = precip.make_thermo(c, None)
    kw = {}
    tp = None
    if route == 'ctor':
        kw['temperatureParameters'] = TemperatureParameters(*sched.args)
    elif route == 'ctor-other+setter':
        kw['temperatureParameters'] = TemperatureParameters(*sched.other().args)
    elif route == 'ctor+mutate':
        tp = TemperatureParameters(*sched.other().args)
        kw['temperatureParameters'] = tp
    m = PrecipitateModel(phases=names, elements=elements, **kw)
    pb = c['pbm']
    m.setPBMParameters(cMin=pb[0], cMax=pb[1], bins=pb[2], minBins=pb[3], maxBins=pb[4], adaptive=c['adaptive'])
    m.setInitialComposition(0.01 if len(elements) == 1 else [0.02, 0.01])
    if route == 'setter':
        m.setTemperature(*sched.args)
    elif route == 'mutate':
        _mutate(m.temperatureParameters, sched)
    elif route == 'ctor-other+setter':
        m.setTemperature(*sched.args)
    elif route == 'ctor+mutate':
        _mutate(tp, sched)
    elif route == 'setter-other+setter':
        m.setTemperature(*sched.other().args)
        m.setTemperature(*sched.args)
    elif route != 'ctor':
        raise KeyError(route)
    m.setVolumeAlpha(precip.VMA, VolumeParameter.MOLAR_VOLUME, 4)
    m.setNucleationDensity(grainSize=1, dislocationDensity=1e15)
    m.setGrainBoundaryEnergy(c['gbe'])
    for nme in names:
        gm, vmm = precip.PHASE_PARAMS.get(nme, (1.0, 1.0))
        m.setInterfacialEnergy(c['gamma'] * gm, phase=nme)
        m.setVolumeBeta(precip.VMA * c['vm'] * vmm, VolumeParameter.MOLAR_VOLUME, 4, phase=nme)
        m.setNucleationSite(c['site'], phase=nme)
        m.setInfinitePrecipitateDiffusivity(True, phase=nme)
    if c['constraints']:
        m.setConstraints(**c['constraints'])
    m.setThermodynamics(therm)
    return m, therm, names, c


class Mon:
    """Coupling-slot observer: after every accepted step the per-class interfacial table of a binary model is copied."""

    def __init__(self, model, binary, max_steps=MAX_STEPS):
        self.binary, self.max_steps = binary, max_steps
        self.tabs = {}
        model.addCouplingModel(self)

    def snap(self, model):
        if self.binary:
            self.tabs[int(model.pData.n)] = [(np.array(model.PBM[p].PSDbounds, copy=True),
                                              np.array(model.PSDXalpha[p][:, 0], copy=True),
                                              int(model.RdrivingForceIndex[p])) for p in range(len(model.phases))]

    def updateCoupledModel(self, model):
        self.snap(model)
        if model.pData.n > self.max_steps:
            raise precip.StepLimit()


def run_one(cfg, sched, route, parts=1, respec=None):
    """One execution.  respec = (Sched, how): the schedule is replaced after the first of two solve calls."""
    m, therm, names, c = build(cfg, sched, route)
    binary = c['system'] == 'bin'
    mon = Mon(m, binary)
    it = SolverType.EXPLICITEULER if c['it'] == 'euler' else SolverType.RK4
    err, flags, cut = None, [], None
    tf = c['tf']
    try:
        m.setup()                 # idempotent; lets the observer see the tables of row 0
        mon.snap(m)
        flags.append(bool(m.temperatureParameters._isIsothermal))
        for k in range(parts):
            if respec is not None and k == 1:
                cut = int(m.pData.n)
                if respec[1] == 'setter':
                    m.setTemperature(*respec[0].args)
                else:
                    _mutate(m.temperatureParameters, respec[0])
                flags.append(bool(m.temperatureParameters._isIsothermal))
            m.solve(tf / parts, solverType=it, **c['solve'])
    except precip.StepLimit:
        err = ('StepLimit', 'more than %d accepted steps' % MAX_STEPS)
    except Exception as e:
        import traceback
        tb = traceback.extract_tb(e.__traceback__)
        where = '%s:%s' % (tb[-1].filename.split('/')[-1], tb[-1].name) if tb else '?'
        err = (type(e).__name__, '%s at %s' % (e, where))
    return {'model': m, 'therm': therm, 'names': names, 'cfg': c, 'mon': mon, 'error': err, 'flags': flags, 'cut': cut}


# ----------------------------------------------------------------------------------------------------------
# oracles on one run

def check_record(run, pieces, bad, tag):
    """O1.  pieces = [(first row, Sched)]: rows >= first row (until the next piece) follow that schedule."""
    d = run['model'].pData
    nchk = 0
    for n in range(len(d.time)):
        s = [p for p in pieces if p[0] <= n][-1][1]
        t = d.time[n]
        want = float(s.ref(t))
        got = float(d.temperature[n])
        nchk += 1
        if got != want:
            bad('C13/temperature-record/form=%s' % s.form,
                '%s: row %d, t=%r s: recorded temperature %r, schedule gives %r (difference %.3g K)' % (tag, n, float(t), got, want, got - want))
            break
        if s.ref2 is not None:
            w2 = float(s.ref2(float(t)))
            if not abs(got - w2) <= 1e-12 * abs(w2):
                bad('C13/temperature-record/form=%s' % s.form,
                    '%s: row %d, t=%r s: recorded temperature %r, plain interpolation of the break points gives %r' % (tag, n, float(t), got, w2))
                break
    return nchk


def check_lookup(run, bad, tag):
    """O3 on a binary run.  Returns (rows examined, number of rows whose planar equilibrium differs from the previous row,
    largest |T_table - T_n| seen)."""
    m, c, therm, names = run['model'], run['cfg'], run['therm'], run['names']
    d = m.pData
    lim = float(m.constraints.maxTempChange)
    worst, changes, rows = 0.0, 0, 0
    for n in range(len(d.time)):
        Tn = float(d.temperature[n])
        rows += 1
        if n > 0 and d.xEqAlpha[n].tobytes() != d.xEqAlpha[n - 1].tobytes():
            changes += 1
        for p, nme in enumerate(names):
            ph = therm.prec[nme]
            xe = float(d.xEqAlpha[n, p, 0])
            cand = []
            if xe > 0:
                cand.append(('stale', 'planar equilibrium composition xEqAlpha', ph.T_of_xe(xe)))
            tab = run['mon'].tabs.get(n)
            if tab is not None:
                r, xa, idx = tab[p]
                gm, vmm = precip.PHASE_PARAMS.get(nme, (1.0, 1.0))
                g = 2.0 * (c['gamma'] * gm) * (precip.VMA * c['vm'] * vmm) / r
                ok = (np.arange(len(r)) >= idx + 1) & (xa > 0)
                # a class that repeats the value of its smaller neighbour is a copy (kawin fills classes whose equilibrium
                # failed with the neighbour's value), not an evaluation at its own radius
                ok[1:] &= xa[1:] != xa[:-1]
                if np.any(ok):
                    Ti = (ph.Q - g[ok] / ph.xb) / (RGAS * np.log(ph.A / xa[ok]))
                    j = int(np.argmax(np.abs(Ti - Tn)))
                    # classes appended to the grid after the table was built are filled in by a different code path
                    # (_updateParticleSizeDistribution); they are told apart by their temperature differing from the first class
                    kind = 'stale' if abs(Ti[j] - Ti[0]) <= 1e-6 else 'appended-class'
                    cand.append((kind, 'interfacial composition of the size class at r=%.4g m (first class of the table: %.6f K)'
                                 % (r[ok][j], float(Ti[0])), float(Ti[j])))
            for kind, what, Tt in cand:
                dev = abs(Tt - Tn)
                worst = max(worst, dev)
                if dev > lim + TOL_T:
                    bad('C13/lookup-table-%s/it=%s' % (kind, c['it']),
                        '%s: row %d (t=%.6g s, T=%.6f K), phase %s: the %s in use was computed at %.6f K, %.4f K away (%s); '
                        'maxTempChange=%g, model.dTemp=%r at the end of the run'
                        % (tag, n, float(d.time[n]), Tn, nme, what, Tt, dev, 'heating' if Tn > Tt else 'cooling', lim, float(m.dTemp)))
    return rows, changes, worst


def pdata_diff(a, b):
    for name in PrecipitationData.ATTRIBUTES:
        x, y = getattr(a, name), getattr(b, name)
        if x.shape != y.shape:
            return '%s has shape %r vs %r' % (name, x.shape, y.shape)
        if x.tobytes() != y.tobytes():
            k = int(np.argwhere((x != y).reshape(x.shape[0], -1).any(axis=1))[0][0])
            return '%s first differs at row %d (t=%r): %r vs %r' % (name, k, float(a.time[k]), np.ravel(x[k])[:3].tolist(), np.ravel(y[k])[:3].tolist())
    return None


def _bucket(n):
    return '0' if n == 0 else ('1-9' if n < 10 else ('10-99' if n < 100 else '100+'))


class Viol:
    def __init__(self):
        self.v, self.seen = [], set()

    def __call__(self, sig, msg):
        if sig not in self.seen:
            self.seen.add(sig)
            self.v.append({'sig': sig, 'msg': msg})


def _describe(case):
    c = case['cfg']
    return 'system=%s phases=%d it=%s schedule=%s' % (c.get('system', 'bin'), c.get('nphases', 1), c.get('it', 'euler'), case['spec'])


# ----------------------------------------------------------------------------------------------------------
# stage schedule: one case = one (configuration, schedule); run through every route

def run_routes(case):
    """Signatures name the route only when the defect is route specific (the setter route, run first, is fine); a schedule kind
    that is mishandled on every route gets one signature per kind."""
    bad = Viol()
    sched = Sched(case['spec'])
    base = None
    states = 0
    steps = []
    errs = []
    worst = 0.0
    base_record_bad = base_flag_bad = False
    for route in case.get('routes', ROUTES):
        tag = '%s route=%s' % (_describe(case), route)
        r = run_one(case['cfg'], sched, route, parts=case.get('parts', 1))
        d = r['model'].pData
        if r['error'] is not None:
            errs.append(r['error'][0])
            if r['error'][0] != 'StepLimit':
                bad('C13/exception/%s/%s' % (r['error'][0], r['error'][1].split(' at ')[-1]), '%s: %s: %s' % (tag, r['error'][0], r['error'][1]))
        rec = Viol()
        states += check_record(r, [(0, sched)], rec, tag)
        steps.append(int(d.n))
        if r['cfg']['system'] == 'bin':
            _, _, w = check_lookup(r, bad, tag)
            worst = max(worst, w)
        flag_ok = bool(r['flags']) and r['flags'][0] == sched.isothermal
        if route == 'setter':
            base = r
            base_record_bad, base_flag_bad = bool(rec.v), not flag_ok
            for v in rec.v:
                bad(v['sig'], v['msg'])
            if not flag_ok:
                bad('C13/isothermal-treatment/form=%s' % sched.form, '%s: _isIsothermal=%r for a %s schedule' % (tag, r['flags'], sched.form))
            continue
        if not base_record_bad:
            for v in rec.v:
                bad(v['sig'] + '/route=%s' % route, v['msg'])
        diff = pdata_diff(base['model'].pData, d)
        if not flag_ok:
            if not (base_flag_bad and r['flags'] == base['flags']):
                bad('C13/isothermal-treatment/route=%s' % route,
                    '%s: _isIsothermal=%r but the schedule is %s (setter route: %r); histories %s'
                    % (tag, r['flags'], sched.form, base['flags'], ('differ: ' + diff) if diff else 'are identical (no nucleation in this run)'))
        elif diff is not None and not base_flag_bad:
            bad('C13/route-not-equivalent/route=%s' % route, '%s: run differs from the setter route: %s' % (tag, diff))
    nuc = bool(base is not None and np.any(base['model'].pData.nucRate > 0))
    return {'viol': bad.v, 'states': states, 'transitions': states, 'traces': len(steps), 'evaluations': len(steps),
            'outcome': '%s/%s/%s%s' % (case['cfg']['system'], sched.label(), 'nucleation' if nuc else 'no-nucleation',
                                       ('/' + errs[0]) if errs else ''),
            'nontrivial': nuc and not errs, 'steplimit': 'StepLimit' in errs,
            'info': {'steps_per_route': steps, 'max_table_offset_K': worst}}


def run_respec(case):
    """The schedule is replaced between two solve calls."""
    bad = Viol()
    A, B = Sched(case['spec']), Sched(case['spec2'])
    tag = '%s then(%s) %s' % (_describe(case), case['how'], case['spec2'])
    r = run_one(case['cfg'], A, 'setter', parts=2, respec=(B, case['how']))
    d = r['model'].pData
    err = r['error']
    if err is not None and err[0] != 'StepLimit':
        bad('C13/exception/%s/%s' % (err[0], err[1].split(' at ')[-1]), '%s: %s: %s' % (tag, err[0], err[1]))
    cut = r['cut'] if r['cut'] is not None else len(d.time)
    n = check_record(r, [(0, A), (cut + 1, B)], bad, tag)
    if len(r['flags']) == 2 and r['flags'] != [A.isothermal, B.isothermal]:
        wrong = A if r['flags'][0] != A.isothermal else B
        bad('C13/isothermal-treatment/form=%s' % wrong.form,
            '%s: _isIsothermal before/after the re-specification = %r, schedules are %s/%s' % (tag, r['flags'], A.form, B.form))
    worst = 0.0
    if r['cfg']['system'] == 'bin':
        _, _, worst = check_lookup(r, bad, tag)
    return {'viol': bad.v, 'states': n, 'transitions': n, 'outcome': '%s->%s%s' % (A.label(), B.label(), ('/' + err[0]) if err else ''),
            'nontrivial': err is None and cut < d.n, 'steplimit': bool(err and err[0] == 'StepLimit'),
            'info': {'steps': int(d.n), 'cut': cut, 'max_table_offset_K': worst}}


def run_lookup(case):
    bad = Viol()
    sched = Sched(case['spec'])
    tag = '%s maxTempChange=%g maxNonIsothermalDT=%g' % (_describe(case), case['cfg']['constraints']['maxTempChange'],
                                                            case['cfg']['constraints']['maxNonIsothermalDT'])
    r = run_one(case['cfg'], sched, 'setter')
    d = r['model'].pData
    err = r['error']
    if err is not None and err[0] != 'StepLimit':
        bad('C13/exception/%s/%s' % (err[0], err[1].split(' at ')[-1]), '%s: %s: %s' % (tag, err[0], err[1]))
    n = check_record(r, [(0, sched)], bad, tag)
    rows, changes, worst = check_lookup(r, bad, tag)
    lim = case['cfg']['constraints']['maxTempChange']
    span = float(np.max(d.temperature) - np.min(d.temperature))
    step_dT = float(np.max(np.abs(np.diff(d.temperature)))) if d.n > 0 else 0.0
    regime = 'fast' if step_dT > lim else 'slow'
    return {'viol': bad.v, 'states': rows, 'transitions': max(rows - 1, 0),
            'outcome': 'span%s%g/%s-steps/table-changes=%s%s' % ('>' if span > lim else '<=', lim, regime, _bucket(changes), ('/' + err[0]) if err else ''),
            'nontrivial': span > lim and err is None, 'steplimit': bool(err and err[0] == 'StepLimit'),
            'info': {'steps': int(d.n), 'temperature_span_K': span, 'max_step_dT_K': step_dT, 'table_changes': changes,
                     'max_table_offset_K': worst, 'dTemp_end': float(r['model'].dTemp)}}


# ----------------------------------------------------------------------------------------------------------
# stage real: conformance of O1/O3 on the Al-Zr pycalphad backend

REAL_T0 = 723.15
_REAL = {}


def run_real(case):
    bad = Viol()
    th = _REAL['therm']
    sched = Sched(case['spec'])
    tag = 'Al-Zr it=%s maxTempChange=%g schedule=%s' % (case['it'], case['mtc'], case['spec'])
    th.clearCache()
    m = PrecipitateModel(phases=['AL3ZR'], elements=['ZR'])
    m.setPBMParameters(cMin=1e-10, cMax=1e-8, bins=75, minBins=50, maxBins=100)
    m.setInitialComposition(4e-3)
    m.setTemperature(*sched.args)
    m.setInterfacialEnergy(0.1)
    a = 0.405e-9
    m.setVolumeAlpha(a ** 3, VolumeParameter.ATOMIC_VOLUME, 4)
    m.setVolumeBeta(a ** 3, VolumeParameter.ATOMIC_VOLUME, 4)
    m.setNucleationDensity(grainSize=1, dislocationDensity=1e15)
    m.setNucleationSite('dislocations')
    m.setConstraints(dtScale=0.05, maxTempChange=case['mtc'])
    m.setThermodynamics(th)
    mon = Mon(m, False, 4000)
    err = None
    try:
        m.solve(case['tf'], solverType=SolverType.EXPLICITEULER if case['it'] == 'euler' else SolverType.RK4, maxDtFrac=0.01)
    except precip.StepLimit:
        err = 'StepLimit'
    except Exception as e:
        err = type(e).__name__
        bad('C13/exception/%s/real-backend' % err, '%s: %s: %s' % (tag, err, e))
    d = m.pData
    run = {'model': m}
    n = check_record(run, [(0, sched)], bad, tag)
    # O3: table temperature read off the solvus grid (linear interpolation on a 0.05 K grid of a smooth curve whose relative
    # second difference is 3e-7 per grid step: error < 1e-4 K; solver noise of the equilibrium itself < 1e-6 relative = 2e-5 K);
    # tolerance 0.02 K
    xe = d.xEqAlpha[:, 0, 0]
    inside = (xe >= _REAL['xg'][0]) & (xe <= _REAL['xg'][-1])
    Tt = np.interp(xe, _REAL['xg'], _REAL['Tg'])
    dev = np.abs(Tt - d.temperature)
    if not np.all(inside):
        k = int(np.argmax(~inside))
        bad('C13/lookup-table-stale/it=%s' % case['it'], '%s: row %d: xEqAlpha=%r is outside the solvus between %.2f and %.2f K'
            % (tag, k, float(xe[k]), _REAL['Tg'][0], _REAL['Tg'][-1]))
    elif np.any(dev > case['mtc'] + 0.02):
        k = int(np.argmax(dev > case['mtc'] + 0.02))
        bad('C13/lookup-table-stale/it=%s' % case['it'],
            '%s: row %d (t=%.6g s, T=%.4f K): recorded planar equilibrium composition %r belongs to %.4f K on the Al-Zr solvus, %.4f K away; '
            'maxTempChange=%g' % (tag, k, float(d.time[k]), float(d.temperature[k]), float(xe[k]), float(Tt[k]), float(dev[k]), case['mtc']))
    changes = int(np.sum(np.diff(xe) != 0))
    span = float(np.max(d.temperature) - np.min(d.temperature))
    return {'viol': bad.v, 'states': n, 'transitions': max(n - 1, 0), 'steplimit': err == 'StepLimit',
            'outcome': 'span%s%g/table-changes=%s%s' % ('>' if span > case['mtc'] else '<=', case['mtc'], _bucket(changes), ('/' + err) if err else ''),
            'nontrivial': span > case['mtc'] and err is None,
            'info': {'steps': int(d.n), 'max_table_offset_K': float(np.max(dev)), 'table_changes': changes, 'final_volFrac': float(d.volFrac[-1, 0])}}


# ----------------------------------------------------------------------------------------------------------
# stage diffusion

L_MESH = 1.0e-3
T_DIFF = 1200.0
DIFF_ROUTES = ['setter', 'ctor', 'mutate', 'ctor-other+setter', 'ctor+mutate']


class RecordingTable:
    """Stands in for the model's public `hashTable` attribute: never caches, records every (node composition, temperature)
    the model asks about - that is every temperature that would reach the thermodynamic backend."""

    def __init__(self):
        self.T = []

    def retrieveFromHashTable(self, x, T):
        self.T.append(float(T))
        return None

    def addToHashTable(self, x, T, value):
        pass

    def clearCache(self):
        pass


def diff_sched(spec, z0, tau):
    """(setter name, args, reference (z array, t) -> T array, second reference or None); times in units of tau."""
    form = spec['form']
    if form == 'const':
        T = spec['T']
        return 'setTemperature', (T,), (lambda z, t: T * np.ones(len(z))), None
    if form == 'array':
        hrs = [h * tau / 3600.0 for h in spec['steps']]
        Ts = list(spec['temps'])
        return ('setTemperatureArray', (hrs, Ts), (lambda z, t: np.interp(t / 3600, hrs, Ts) * np.ones(len(z))),
                (lambda z, t: interp_plain(hrs, Ts, t) * np.ones(len(z))))
    if form == 'field':
        a, b, c = spec['T0'], spec['grad'], spec['rate']
        f = lambda z, t: a + b * (np.asarray(z) - z0) / L_MESH + c * t / tau
        return 'setTemperatureFunction', (f,), f, None
    raise KeyError(form)


def _diff_other(spec):
    return {'form': 'const', 'T': 1111.0} if spec['form'] != 'const' else {'form': 'field', 'T0': 1100.0, 'grad': 30.0, 'rate': 1.0}


def build_diff(case, route, tau):
    els = ['NI', 'CR'] if case['els'] == 'bin' else ['NI', 'CR', 'AL']
    zlim = [-0.5 * L_MESH, 0.5 * L_MESH]
    z0 = zlim[0]
    meth, args, ref, ref2 = diff_sched(case['spec'], z0, tau)
    ometh, oargs, _, _ = diff_sched(_diff_other(case['spec']), z0, tau)
    kw = {}
    tp = None
    if route == 'ctor':
        kw['temperatureParameters'] = DiffTemperatureParameters(*args)
    elif route == 'ctor-other+setter':
        kw['temperatureParameters'] = DiffTemperatureParameters(*oargs)
    elif route == 'ctor+mutate':
        tp = DiffTemperatureParameters(*oargs)
        kw['temperatureParameters'] = tp
    if case['model'] == 'single':
        m = SinglePhaseModel(zlim, case['N'], els, ['ALPHA'], thermodynamics=diff_env.AnalyticDiffusivity(len(els)), **kw)
    else:
        m = HomogenizationModel(zlim, case['N'], els, ['ALPHA', 'BETA'], thermodynamics=diff_env.AnalyticMobilityTherm(els),
                                homogenizationParameters=HomogenizationParameters('wiener upper'), **kw)
    for i, e in enumerate(m.elements):
        a, b = (0.12, 0.40) if i == 0 else (0.30, 0.10)
        m.compositionProfile.addLinearCompositionStep(e, a, b)
    mut = {'setTemperature': 'setIsothermalTemperature'}
    if route in ('setter', 'ctor-other+setter'):
        getattr(m, meth)(*args)
    elif route == 'mutate':
        getattr(m.temperatureParameters, mut.get(meth, meth))(*args)
    elif route == 'ctor+mutate':
        getattr(tp, mut.get(meth, meth))(*args)
    return m, ref, ref2


def run_diff(case):
    if case['model'] == 'homog':
        with diff_env.patched_single_mobility():
            return _run_diff(case)
    return _run_diff(case)


class _Steps:
    def __init__(self, limit):
        self.t, self.limit = [], limit

    def updateCoupledModel(self, model):
        self.t.append(float(model.t))
        if len(self.t) > self.limit:
            raise precip.StepLimit()


def _run_diff(case):
    bad = Viol()
    desc = 'model=%s elements=%s N=%d it=%s schedule=%s' % (case['model'], case['els'], case['N'], case['it'], case['spec'])
    # time unit of the schedule = the initial stable step of the configuration at the reference temperature
    p, _, _ = build_diff(dict(case, spec={'form': 'const', 'T': T_DIFF}), 'setter', 1.0)
    p.setup()
    tau = float(p.getFluxes()[1])
    it = SolverType.EXPLICITEULER if case['it'] == 'euler' else SolverType.RK4
    base = None
    states = 0
    base_bad = False
    for route in DIFF_ROUTES:
        tag = '%s route=%s' % (desc, route)
        # the route is named only when the setter route (run first) is fine, i.e. the defect is route specific
        sig_tail = '%s/form=%s' % (case['model'], case['spec']['form'])
        if route != 'setter':
            if base_bad:
                continue
            sig_tail += '/route=%s' % route
        nbefore = len(bad.v)
        m, ref, ref2 = build_diff(case, route, tau)
        tab = RecordingTable()
        m.hashTable = tab
        evals = []
        orig = m._getFluxes
        if not callable(orig):
            raise RuntimeError('private method _getFluxes vanished: the monitor must be adapted')

        def wrapped(t, x, orig=orig, evals=evals, tab=tab):
            k = len(tab.T)
            out = orig(t, x)
            evals.append((float(t), tab.T[k:]))
            return out
        m._getFluxes = wrapped
        obs = _Steps(400)
        m.addCouplingModel(obs)
        try:
            m.solve(case['nsteps'] * tau, solverType=it, minDtFrac=1.0 / 200)
        except precip.StepLimit:
            raise
        except Exception as e:
            bad('C13/diffusion/exception/%s/%s' % (type(e).__name__, case['model']), '%s: %s: %s' % (tag, type(e).__name__, e))
            base_bad = base_bad or route == 'setter'
            continue
        # O4: every temperature that reached the environment
        z = m.z
        for (t, Ts) in evals:
            want = np.asarray(ref(z, t), dtype=float)
            got = np.asarray(Ts, dtype=float)
            states += 1
            if got.shape != want.shape or got.tobytes() != want.tobytes():
                k = 0 if got.shape != want.shape else int(np.argmax(got != want))
                bad('C13/diffusion/temperature/' + sig_tail,
                    '%s: evaluation at t=%r s, node %d (z=%r): environment was asked at %r K, schedule gives %r K (%d temperatures for %d nodes)'
                    % (tag, t, k, float(z[k]) if k < len(z) else None, got[k] if k < len(got) else None, want[k] if k < len(want) else None,
                       len(got), len(want)))
                break
            if ref2 is not None and not np.allclose(got, ref2(z, t), rtol=1e-12, atol=0):
                bad('C13/diffusion/temperature/' + sig_tail, '%s: evaluation at t=%r s: %r vs plain interpolation %r' % (tag, t, got[0], ref2(z, t)[0]))
                break
        starts = [0.0] + obs.t[:-1]
        et = set(t for t, _ in evals)
        missing = [t for t in starts if t not in et]
        if missing:
            bad('C13/diffusion/no-evaluation-at-step-time/' + sig_tail,
                '%s: no evaluation of the temperature at the start time %r of an accepted step (evaluation times %r ...)' % (tag, missing[0], sorted(et)[:5]))
        rec = (np.asarray(m._recordedTime).tobytes(), np.asarray(m._recordedX).tobytes())
        if route == 'setter':
            base = rec
            base_bad = len(bad.v) > nbefore
        elif base is not None and rec != base:
            bad('C13/diffusion/route-not-equivalent/' + sig_tail, '%s: recorded profiles differ from the setter route' % tag)
    return {'viol': bad.v, 'states': states, 'transitions': states, 'traces': len(DIFF_ROUTES), 'evaluations': len(DIFF_ROUTES),
            'outcome': '%s/%s/%s' % (case['model'], case['spec']['form'], case['it']), 'nontrivial': states > 0}


# ----------------------------------------------------------------------------------------------------------
# products

BASE = {'tf': 20.0, 'constraints': {'dtScale': 0.05}, 'solve': {'maxDtFrac': 0.02}}


def schedule_specs(tf, quick):
    h = tf / 3600.0
    out = [
        {'form': 'const', 'T': 700.0},
        {'form': 'array', 'hours': [0.0, h], 'temps': [700.0, 760.0]},                               # 2 break points, heating
        {'form': 'array', 'hours': [0.0, 0.5 * h, h], 'temps': [760.0, 820.0, 740.0]},               # 3, up-down
        {'form': 'array', 'hours': [0.1 * h, 0.3 * h, 0.6 * h, 0.8 * h], 'temps': [700.0, 700.0, 790.0, 760.0]},   # 4, both ends clamped
        {'form': 'fn', 'fn': 'ramp', 'T0': 700.0, 'rate': 60.0 * 3600.0 / tf},
        {'form': 'fn', 'fn': 'ramp', 'T0': 800.0, 'rate': -70.0 * 3600.0 / tf},
        {'form': 'fn', 'fn': 'hrh', 'T0': 700.0, 'T1': 780.0, 't1': 0.25 * tf, 't2': 0.7 * tf},
        {'form': 'fn', 'fn': 'saw', 'T0': 720.0, 'amp': 40.0, 'period': tf / 2.5},
    ]
    if not quick:
        out += [
            {'form': 'const', 'T': 900.0},
            {'form': 'array', 'hours': [0.0, h], 'temps': [820.0, 700.0]},
            {'form': 'array', 'hours': [0.2 * h, 0.21 * h, 2 * h], 'temps': [750.0, 800.0, 900.0]},  # jump-like segment, run ends inside the last segment
            {'form': 'fn', 'fn': 'hrh', 'T0': 800.0, 'T1': 720.0, 't1': 0.1 * tf, 't2': 0.5 * tf},
        ]
    return out


def lookup_specs(quick):
    """(schedule, run length).  The start temperature is lowered with the ramp rate: the analytic diffusivity is Arrhenius
    (150 kJ/mol), so the precipitation time scale stretches with the run length and every run stays at a few hundred to a
    few thousand accepted steps although the slowest ramp lasts five days of model time."""
    out = []
    for rate, T0 in [(0.1, 535.0), (5.0, 605.0), (100.0, 690.0), (3000.0, 700.0)]:
        span = 12.0 if rate < 1000 else 150.0
        tf = 3600.0 * span / rate
        out.append(({'form': 'fn', 'fn': 'ramp', 'T0': T0, 'rate': rate}, tf))
        out.append(({'form': 'fn', 'fn': 'ramp', 'T0': T0 + span, 'rate': -rate}, tf))
    out.append(({'form': 'array', 'hours': [0.0, 0.2, 0.7, 1.0], 'temps': [640.0, 640.0, 652.0, 652.0]}, 3600.0))     # hold-ramp-hold
    out.append(({'form': 'array', 'hours': [0.0, 0.2, 0.7, 1.0], 'temps': [652.0, 652.0, 640.0, 640.0]}, 3600.0))
    out.append(({'form': 'array', 'hours': [0.0, 0.25, 0.5], 'temps': [660.0, 669.0, 660.0]}, 1800.0))                # up-down
    out.append(({'form': 'fn', 'fn': 'saw', 'T0': 660.0, 'amp': 8.0, 'period': 800.0}, 2000.0))                       # saw-tooth
    return out


def run(ctx):
    quick = ctx.quick
    ctx.rule = ('full Cartesian products (schedule x system x phases x iterator x solve calls, each through every specification '
                'route; schedule replaced between solve calls; ramp rate and sign x maxTempChange x maxNonIsothermalDT x iterator x '
                'phases; diffusion model x schedule kind x route x iterator x elements); every accepted step of every run is a '
                'state on which the recorded temperature, the isothermal flag, the route equivalence and the temperature of the '
                'lookup tables in force are checked; non-trivial = run with nucleation (schedule stages) / run whose temperature '
                'span exceeds maxTempChange (lookup stage)')
    ctx.assumptions = ['analytic thermodynamic backends (mc/synth_thermo.py, mc/diff_env.py) stand in for pycalphad; the binary one is '
                       'invertible, which is what makes the table temperature observable',
                       'the per-class table is read through the coupling slot (end of each accepted step); RK4 stage tables are not examined',
                       'spherical precipitates (the Gibbs-Thomson energy of a class is then 2 gamma Vm / r from the configuration)',
                       'lookup stage: RK4 is not combined with two precipitate phases - on this backend those runs need more than '
                       'the 12000-step horizon (two-phase RK4 runs are in the schedule stage, where O3 is evaluated as well)',
                       'diffusion models: temperatures are observed at the public hashTable attribute (a never-caching recorder) and '
                       'evaluation times through an instance-level wrapper of _getFluxes']
    caps = []

    # --- stage schedule --------------------------------------------------------------------------------------
    tf = BASE['tf']
    systems = ['bin', 'tern']
    nphs = [1, 2]
    its = ['euler', 'rk4']
    parts = [1] if quick else [1, 3]
    cases = []
    for spec in schedule_specs(tf, quick):
        for system in systems:
            for nph in nphs:
                for it in its:
                    if quick and it == 'rk4' and (system, nph) != ('bin', 1):
                        continue       # quick: RK4 on the binary single-phase system only (thorough: full product)
                    if quick and (system, nph) == ('tern', 2):
                        continue
                    for k in parts:
                        cfg = dict(BASE, system=system, nphases=nph, it=it)
                        cases.append({'cfg': cfg, 'spec': spec, 'parts': k})
    res = ctx.product_run('schedule', 'checks.c13:run_routes', cases, chunksize=1)
    if any(r.get('steplimit') for r in res):
        caps.append('schedule: step limit %d hit' % MAX_STEPS)

    # --- stage respec ----------------------------------------------------------------------------------------
    specs = schedule_specs(tf, True)
    picks = [specs[0], specs[2], specs[4], specs[7]] if quick else [specs[0], specs[1], specs[2], specs[4], specs[5], specs[7]]
    cases = []
    for a in picks:
        for b in picks:
            if a is b:
                continue
            for how in ['setter', 'mutate']:
                for system in (['bin'] if quick else systems):
                    for it in its:
                        cases.append({'cfg': dict(BASE, system=system, nphases=1, it=it), 'spec': a, 'spec2': b, 'how': how})
    res = ctx.product_run('respec', 'checks.c13:run_respec', cases, chunksize=1)
    if any(r.get('steplimit') for r in res):
        caps.append('respec: step limit %d hit' % MAX_STEPS)

    # --- stage lookup ----------------------------------------------------------------------------------------
    cases = []
    lspecs = lookup_specs(quick)
    if quick:       # reduced level set: rates {0.1, 100, 3000} K/h both signs, hold-ramp-hold up, saw-tooth
        lspecs = [ls for i, ls in enumerate(lspecs) if i not in (2, 3, 9, 10)]
    for spec, tfl in lspecs:
        for mtc in [1.0, 5.0]:
            for mdt in [1.0, 10.0]:
                for it in its:
                    for nph in ([1] if quick else [1, 2]):
                        if it == 'rk4' and nph == 2:
                            continue       # see assumptions: these runs exceed the step horizon
                        cfg = {'system': 'bin', 'nphases': nph, 'it': it, 'tf': tfl,
                               'constraints': {'dtScale': 0.05, 'maxTempChange': mtc, 'maxNonIsothermalDT': mdt},
                               'solve': {'maxDtFrac': 0.02 if spec.get('rate', 0) in (3000.0, -3000.0) else 0.01}}
                        cases.append({'cfg': cfg, 'spec': spec})
    res = ctx.product_run('lookup', 'checks.c13:run_lookup', cases, chunksize=1)
    if any(r.get('steplimit') for r in res):
        caps.append('lookup: step limit %d hit' % MAX_STEPS)
    ctx.extra['lookup_max_table_offset_K'] = max([r.get('info', {}).get('max_table_offset_K', 0.0) for r in res] or [0.0])

    # --- stage diffusion -------------------------------------------------------------------------------------
    dspecs = [{'form': 'const', 'T': T_DIFF},
              {'form': 'array', 'steps': [0.0, 2.0, 7.0, 30.0], 'temps': [T_DIFF - 50.0, T_DIFF + 50.0, T_DIFF, T_DIFF + 30.0]},
              {'form': 'array', 'steps': [1.5, 4.0], 'temps': [T_DIFF + 40.0, T_DIFF - 40.0]},
              {'form': 'field', 'T0': T_DIFF - 20.0, 'grad': 40.0, 'rate': 3.0},
              {'form': 'field', 'T0': T_DIFF + 20.0, 'grad': -30.0, 'rate': -4.0}]
    cases = []
    for model in ['single', 'homog']:
        for els in ['bin', 'tern']:
            for N in ([3, 7] if quick else [2, 3, 5, 9]):
                for it in its:
                    for spec in dspecs:
                        cases.append({'model': model, 'els': els, 'N': N, 'it': it, 'spec': spec, 'nsteps': 12.5})
    ctx.product_run('diffusion', 'checks.c13:run_diff', cases)

    # --- stage real (Al-Zr) ------------------------------------------------------------------------------------
    rspecs = [({'form': 'fn', 'fn': 'ramp', 'T0': REAL_T0, 'rate': 14.4}, 2000.0),
              ({'form': 'fn', 'fn': 'ramp', 'T0': REAL_T0 + 8.0, 'rate': -14.4}, 2000.0),
              ({'form': 'array', 'hours': [0.0, 0.3, 0.6], 'temps': [REAL_T0, REAL_T0 + 7.0, REAL_T0]}, 2160.0)]
    if not quick:
        rspecs += [({'form': 'fn', 'fn': 'ramp', 'T0': REAL_T0, 'rate': 1.44}, 20000.0),
                   ({'form': 'fn', 'fn': 'saw', 'T0': REAL_T0, 'amp': 7.0, 'period': 1500.0}, 3000.0)]
    cases = []
    for spec, tfr in rspecs:
        for mtc in [1.0, 5.0]:
            for it in its:
                if quick and it == 'rk4' and not (spec.get('rate') == 14.4 and mtc == 1.0):
                    continue
                cases.append({'spec': spec, 'tf': tfr, 'mtc': mtc, 'it': it})
    res = ctx.product_run('real', 'checks.c13:run_real', cases, chunksize=1)
    if any(r.get('steplimit') for r in res):
        caps.append('real: step limit hit')

    for c in caps:
        ctx.cap(c)
    ctx.bounds = {'schedule': {'schedules': [Sched(s).label() for s in schedule_specs(tf, quick)], 'systems': systems, 'phases': nphs,
                               'iterators': its, 'solve_calls': parts, 'routes': ROUTES, 'tf_s': tf},
                  'respec': {'how': ['setter', 'mutate'], 'ordered pairs of': [Sched(s).label() for s in picks]},
                  'lookup': {'schedules': ['%s %s' % (Sched(sp).label(), sp.get('rate', sp.get('temps', ''))) for sp, _ in lspecs],
                             'maxTempChange': [1.0, 5.0], 'maxNonIsothermalDT': [1.0, 10.0], 'iterators': its,
                             'phases': [1] if quick else [1, 2], 'excluded': 'rk4 x 2 phases'},
                  'diffusion': {'models': ['single', 'homog'], 'elements': ['bin', 'tern'], 'N': [3, 7] if quick else [2, 3, 5, 9],
                                'schedules': ['const', 'array4', 'array2-clamped', 'field+', 'field-'], 'routes': DIFF_ROUTES,
                                'iterators': its},
                  'real (Al-Zr)': {'schedules': [Sched(sp).label() + ' ' + str(sp.get('rate', sp.get('temps', sp.get('amp')))) for sp, _ in rspecs],
                                   'maxTempChange': [1.0, 5.0], 'iterators': its},
                  'horizon_steps': MAX_STEPS}
