"""C20 - saved files and surrogates reproduce what they were made from.

Bounded exhaustive exploration on the real save/load code and the real surrogate classes:

  roundtrip-precip     analytic precipitation model (1-3 phases, binary / ternary, both iterators, sphere / needle) x PSD recording
                       on/off x save point (after solve call 1, 2, 3) x file name with / without '.npz': save, load into a FRESH
                       model of the same configuration, compare every saved quantity bit for bit; then continue the original and
                       the reloaded model for one more solve call and compare again (separate 'continue/...' signatures)
  roundtrip-diffusion  SinglePhaseModel / HomogenizationModel on the analytic environments of mc/diff_env.py, same product
  roundtrip-strength   StrengthModel.save / load after a coupled run (the third saved object anchored by the property)
  surrogate            GeneralSurrogate / BinarySurrogate / MulticomponentSurrogate over a RECORDING STUB thermodynamics object:
                       every subset of trainable quantities x trained phase x training grid (linear / log, logX on/off, broadcast
                       on/off, one / several temperatures); every getter x query phase x argument form: untrained -> must call the
                       same-named method of the stub with the same arguments and return its result unchanged; trained -> must
                       reproduce the training targets at the training inputs (1e-6); toJson -> fromJson into a fresh surrogate ->
                       identical predictions, untrained getters still pass through
  surrogate-real       the same oracles on a BinaryThermodynamics (Al-Zr) behind a recording proxy (small conformance product)
"""
import math
import os
import shutil
import tempfile

PROPERTY = 'C20'
LEVEL = 'model_checking'

np = None
SCRATCH = os.environ.get('VERIF_SCRATCH', '/tmp/agentG')
R_GAS = 8.314
_REAL = {}


class StepLimit(Exception):
    pass


_INFO = {}


def bad_info(sig, msg):
    """The statement promises that a loaded file reproduces histories, current state and size distributions; it does not
    promise that a reloaded model CONTINUES identically (growth rates, step history, temperature-change counters and caches
    are not part of the saved state).  The continuation differential is therefore observed (it shows up in the outcome
    labels of the evidence) but is not a violation."""
    _INFO[sig] = _INFO.get(sig, 0) + 1


def prepare():
    global np, precip, diff_env, SolverType, SinglePhaseModel, HomogenizationModel, HomogenizationParameters
    global GeneralSurrogate, BinarySurrogate, MulticomponentSurrogate, CurvatureOutput, GrowthRateOutput, growth_from_curvature
    global StrengthModel
    import numpy as np
    import kawin.precipitation  # noqa: F401
    from kawin.solver.Solver import SolverType
    from kawin.diffusion import SinglePhaseModel, HomogenizationModel
    from kawin.diffusion.HomogenizationParameters import HomogenizationParameters
    from kawin.thermo.Surrogate import GeneralSurrogate, BinarySurrogate, MulticomponentSurrogate
    from kawin.thermo.MultiTherm import CurvatureOutput, GrowthRateOutput
    from kawin.thermo.MultiTherm import _growthRateOutputFromCurvature as growth_from_curvature
    from kawin.precipitation.coupling import StrengthModel
    from mc import precip, diff_env
    if os.environ.get('C20_NO_REAL') != '1':
        # real backend for the conformance stage, built once in the parent and inherited by the forked workers
        from kawin.thermo import BinaryThermodynamics
        from kawin.tests.datasets import ALZR_TDB
        t = BinaryThermodynamics(ALZR_TDB, ['AL', 'ZR'], ['FCC_A1', 'AL3ZR'], drivingForceMethod='approximate')
        t.setDFSamplingDensity(2000)
        t.setEQSamplingDensity(500)
        _REAL['alzr'] = t


def _scratch_dir():
    os.makedirs(SCRATCH, exist_ok=True)
    return tempfile.mkdtemp(prefix='c20_%d_' % os.getpid(), dir=SCRATCH)


def _same(a, b):
    """bit-for-bit equality of two arrays / scalars, including shape and dtype"""
    if a is None or b is None:
        return a is None and b is None
    a, b = np.asarray(a), np.asarray(b)
    return a.shape == b.shape and a.dtype == b.dtype and a.tobytes() == b.tobytes()


def _describe_diff(a, b):
    if a is None or b is None:
        return '%s vs %s' % ('None' if a is None else 'array', 'None' if b is None else 'array')
    a, b = np.asarray(a), np.asarray(b)
    if a.shape != b.shape:
        return 'shape %r vs %r' % (a.shape, b.shape)
    if a.dtype != b.dtype:
        return 'dtype %s vs %s' % (a.dtype, b.dtype)
    with np.errstate(all='ignore'):
        d = np.abs(a.astype(float) - b.astype(float))
    return 'max abs difference %.3g (at flat index %d of %d)' % (float(np.nanmax(d)), int(np.nanargmax(d)), d.size)


# =======================================================================================================================
# precipitation round trip

def _precip_state(m):
    """every quantity the property names: PrecipitationData.ATTRIBUTES, PBM min/max/bins/PSD/bounds/centres, aspect ratios"""
    out = {}
    for name in m.pData.ATTRIBUTES:
        out['pData.' + name] = np.array(getattr(m.pData, name), copy=True)
    out['pData.n'] = np.array(int(m.pData.n))
    for p, ph in enumerate(m.phases):
        pbm = m.PBM[p]
        out['PBM[%s].min' % ph] = np.array(float(pbm.min))
        out['PBM[%s].max' % ph] = np.array(float(pbm.max))
        out['PBM[%s].bins' % ph] = np.array(int(pbm.bins))
        out['PBM[%s].PSD' % ph] = np.array(pbm.PSD, copy=True)
        out['PBM[%s].PSDbounds' % ph] = np.array(pbm.PSDbounds, copy=True)
        out['PBM[%s].PSDsize' % ph] = np.array(pbm.PSDsize, copy=True)
        ar = m.eqAspectRatio[p]
        out['eqAspectRatio[%s]' % ph] = None if ar is None else np.array(ar, copy=True)
    return out


def _compare_states(sa, sb):
    diffs = []
    for k in sa:
        if k not in sb:
            diffs.append((k, 'missing'))
        elif not _same(sa[k], sb[k]):
            diffs.append((k, _describe_diff(sa[k], sb[k])))
    return diffs


class _Limit:
    def __init__(self, limit):
        self.n, self.limit = 0, limit

    def updateCoupledModel(self, model):
        self.n += 1
        if self.n > self.limit:
            raise StepLimit()


def run_precip(case):
    viol, seen = [], set()
    tag = ' '.join('%s=%s' % (k, case[k]) for k in sorted(case))

    def bad(sig, msg):
        if sig not in seen:
            seen.add(sig)
            viol.append({'sig': sig, 'msg': tag + ': ' + msg})

    cfg = {'system': case['system'], 'nphases': case['nphases'], 'it': case['it'], 'record': case['record'], 'temp': case['temp'],
           'shape': case['shape'], 'ratio': 3.0, 'constraints': {'dtScale': 0.05}}
    if case.get('grid') == 'small':
        # a small grid that is extended / re-meshed before the save point, so that the saved grid differs from the configured one
        cfg['pbm'] = [2e-10, 2e-9, 20, 10, 40]
    it = SolverType.EXPLICITEULER if case['it'] == 'euler' else SolverType.RK4
    dt_call = case['tcall']
    d = _scratch_dir()
    steps = 0
    outcome = 'ok'
    try:
        A, _, _ = precip.build_model(dict(cfg, tf=4 * dt_call))
        lim = _Limit(6000)
        A.addCouplingModel(lim)
        for k in range(case['save']):
            A.solve(dt_call, solverType=it)
        steps = int(A.pData.n)
        fname = os.path.join(d, 'prec' + ('.npz' if case['ext'] else ''))
        try:
            A.save(fname)
        except Exception as e:
            bad('roundtrip/precip/save-error', 'save raised %s: %s' % (type(e).__name__, e))
            return {'viol': viol, 'states': steps, 'outcome': 'save-error'}
        if not os.path.exists(os.path.join(d, 'prec.npz')):
            bad('roundtrip/precip/file-name', 'save(%r) did not create prec.npz (directory holds %r)' % (os.path.basename(fname), os.listdir(d)))
        B, _, _ = precip.build_model(dict(cfg, tf=4 * dt_call))
        try:
            B.load(fname)
        except Exception as e:
            bad('roundtrip/precip/load-error/record=%s' % ('on' if case['record'] else 'off'), 'load raised %s: %s' % (type(e).__name__, e))
            return {'viol': viol, 'states': steps, 'outcome': 'load-error'}
        sa, sb = _precip_state(A), _precip_state(B)
        diffs = _compare_states(sa, sb)
        for k, why in diffs:
            # one signature per saved group: history arrays (pData), each PBM field, aspect ratios
            kind = ('PBM.' + k.split('.')[-1]) if k.startswith('PBM') else k.split('[')[0].split('.')[0]
            bad('roundtrip/precip/differs/%s' % kind, '%s after save at n=%d and load into a fresh model: %s (all differing quantities: %s)'
                % (k, steps, why, ', '.join(kk for kk, _ in diffs)))
        if diffs:
            outcome = 'roundtrip-differs'
        # ---- continue both for one more call (differential; own signatures)
        try:
            A.solve(dt_call, solverType=it)
            B.addCouplingModel(_Limit(6000 + steps))
            B.solve(dt_call, solverType=it)
            ca, cb = _precip_state(A), _precip_state(B)
            cd = _compare_states(ca, cb)
            if cd:
                n = min(len(ca['pData.time']), len(cb['pData.time']))
                k, why = cd[0]
                bad_info('continue/precip/state-differs', 'after one more solve call the original has %d steps, the reloaded model %d; first difference %s: %s; '
                    'final volume fraction %r vs %r, mean radius %r vs %r' % (
                        int(A.pData.n), int(B.pData.n), k, why, A.pData.volFrac[-1].tolist(), B.pData.volFrac[-1].tolist(),
                        A.pData.Ravg[-1].tolist(), B.pData.Ravg[-1].tolist()))
                outcome = 'continue-differs' if outcome == 'ok' else outcome
        except StepLimit:
            bad_info('continue/precip/step-limit', 'continuing needed more than 6000 further steps')
        except Exception as e:
            bad_info('continue/precip/exception', 'continuing after load raised %s: %s' % (type(e).__name__, e))
            outcome = 'continue-exception'
    finally:
        shutil.rmtree(d, ignore_errors=True)
    populated = bool(np.any(A.pData.volFrac[steps] > 0))
    if any(int(pb.bins) != int(cfg.get('pbm', [0, 0, 75])[2]) for pb in A.PBM):
        outcome += '/grid-changed'
    return {'viol': viol, 'states': steps, 'transitions': int(A.pData.n), 'outcome': outcome + ('/pop' if populated else '/empty'),
            'nontrivial': populated, 'info': {'steps_at_save': steps, 'steps_after_continue': int(A.pData.n)}}


# =======================================================================================================================
# diffusion round trip

DIFF_ELS = {'bin': ['NI', 'CR'], 'tern': ['NI', 'CR', 'AL']}


def _build_diff(case):
    els = DIFF_ELS[case['els']]
    zlim = [-5e-4, 5e-4]
    if case['model'] == 'single':
        m = SinglePhaseModel(zlim, case['N'], els, ['ALPHA'], thermodynamics=diff_env.AnalyticDiffusivity(len(els)), record=case['record'] in (True, 'off-after-1'))
    else:
        m = HomogenizationModel(zlim, case['N'], els, ['ALPHA', 'BETA'], thermodynamics=diff_env.AnalyticMobilityTherm(els),
                                homogenizationParameters=HomogenizationParameters('wiener upper', labyrinthFactor=2), record=case['record'] in (True, 'off-after-1'))
    prof = [(0.12, 0.40), (0.30, 0.10)]
    for e, (a, b) in zip(m.elements, prof):
        if case['profile'] == 'linear':
            m.compositionProfile.addLinearCompositionStep(e, a, b)
        else:
            m.compositionProfile.addStepCompositionStep(e, a, b, 0.05e-3)
    m.setTemperature(1200.0)
    return m


def _diff_state(m):
    return {'x': np.array(m.x, copy=True), 't': np.array(float(m.t)),
            'recordedX': None if m._recordedX is None else np.array(m._recordedX, copy=True),
            'recordedTime': None if m._recordedTime is None else np.array(m._recordedTime, copy=True)}


def run_diff(case):
    if case['model'] == 'homog':
        with diff_env.patched_single_mobility():
            return _run_diff(case)
    return _run_diff(case)


def _run_diff(case):
    viol, seen = [], set()
    tag = ' '.join('%s=%s' % (k, case[k]) for k in sorted(case))
    rec = {True: 'on', False: 'off'}.get(case['record'], case['record'])

    def bad(sig, msg):
        if sig not in seen:
            seen.add(sig)
            viol.append({'sig': sig, 'msg': tag + ': ' + msg})

    it = SolverType.EXPLICITEULER if case['it'] == 'euler' else SolverType.RK4
    # time scale: dz^2 / D with D about 1e-12 m2/s -> a call of `ncall` initial steps
    probe = _build_diff(case)
    probe.setup()
    _, dt0 = probe.getFluxes()
    dt_call = float(dt0) * case['nsteps']
    d = _scratch_dir()
    outcome = 'ok'
    nrec = 0
    try:
        A = _build_diff(case)
        for k in range(case['save']):
            A.solve(dt_call, solverType=it)
            if k == 0 and case['record'] == 'off-after-1':
                A.disableRecording()      # documented: keeps what has been recorded so far
            if k == 0 and case['record'] == 'on-after-1':
                A.enableRecording()
        fname = os.path.join(d, 'diff' + ('.npz' if case['ext'] else ''))
        try:
            A.save(fname)
        except Exception as e:
            bad('roundtrip/diffusion/save-error/record=%s' % rec, 'save raised %s: %s' % (type(e).__name__, e))
            return {'viol': viol, 'states': 0, 'outcome': 'save-error'}
        if not os.path.exists(os.path.join(d, 'diff.npz')):
            bad('roundtrip/diffusion/file-name', 'save(%r) did not create diff.npz (directory holds %r)' % (os.path.basename(fname), os.listdir(d)))
        B = _build_diff(case)
        try:
            B.load(fname)
        except Exception as e:
            bad('roundtrip/diffusion/load-error/record=%s' % rec, 'load of the file written by save raised %s: %s' % (type(e).__name__, e))
            return {'viol': viol, 'states': 0, 'outcome': 'load-error/record=%s' % rec}
        try:
            sa, sb = _diff_state(A), _diff_state(B)
        except Exception as e:
            bad('roundtrip/diffusion/state-unreadable/record=%s' % rec, 'state of the reloaded model cannot be read: %s: %s' % (type(e).__name__, e))
            return {'viol': viol, 'states': 0, 'outcome': 'unreadable'}
        nrec = 0 if sa['recordedTime'] is None else len(sa['recordedTime'])
        for k in sa:
            if not _same(sa[k], sb[k]):
                bad('roundtrip/diffusion/differs/%s/record=%s' % (k, rec), '%s after save (t=%g, %d records) and load into a fresh model: %s'
                    % (k, float(sa['t']), nrec, _describe_diff(sa[k], sb[k])))
                outcome = 'roundtrip-differs'
        # ---- continue both (differential; own signatures)
        try:
            # the composition hash table of the original (rounded-composition cache, not part of the saved state; its effect on results is
            # C09's subject) is emptied through the public clearCache() so that both continuations start from an empty cache
            A.clearCache()
            A.solve(dt_call, solverType=it)
            B.solve(dt_call, solverType=it)
            ca, cb = _diff_state(A), _diff_state(B)
            for k in ('t', 'x', 'recordedTime', 'recordedX'):
                if not _same(ca[k], cb[k]):
                    bad_info('continue/diffusion/state-differs', 'after one more solve call %s differs: %s (original: t=%g, %s records; reloaded: t=%g, %s records; '
                        'reloaded model had isSetup=%r after load)' % (
                            k, _describe_diff(ca[k], cb[k]), float(ca['t']), 'no' if ca['recordedTime'] is None else len(ca['recordedTime']),
                            float(cb['t']), 'no' if cb['recordedTime'] is None else len(cb['recordedTime']), getattr(B, 'isSetup', None)))
                    outcome = 'continue-differs' if outcome == 'ok' else outcome
                    break
        except Exception as e:
            bad_info('continue/diffusion/exception', 'continuing after load raised %s: %s' % (type(e).__name__, e))
            outcome = 'continue-exception'
    finally:
        shutil.rmtree(d, ignore_errors=True)
    return {'viol': viol, 'states': max(nrec, 1), 'transitions': max(nrec - 1, 0), 'outcome': outcome + '/record=' + rec, 'nontrivial': True,
            'info': {'records_at_save': nrec, 'dt_call': dt_call}}


# =======================================================================================================================
# strength model round trip

def run_strength(case):
    viol, seen = [], set()
    tag = ' '.join('%s=%s' % (k, case[k]) for k in sorted(case))

    def bad(sig, msg):
        if sig not in seen:
            seen.add(sig)
            viol.append({'sig': sig, 'msg': tag + ': ' + msg})

    host, _, _ = precip.build_model({'system': case['system'], 'nphases': case['nphases'], 'tf': 3.0, 'constraints': {'dtScale': 0.05}, 'record': False})
    sm = StrengthModel()
    sm.setDislocationParameters(79.3e9, 0.25e-9, 1 / 3)
    sm.setCoherencyParameters(0.001)
    sm.setSolidSolutionStrength({'B': 1e8}, 1)
    host.addCouplingModel(sm)
    for k in range(case['save']):
        host.solve(1.0, solverType=SolverType.EXPLICITEULER)
    d = _scratch_dir()
    try:
        fname = os.path.join(d, 'strength' + ('.npz' if case['ext'] else ''))
        try:
            sm.save(fname, compressed=case['compressed'])
        except Exception as e:
            bad('roundtrip/strength/save-error', 'save raised %s: %s' % (type(e).__name__, e))
            return {'viol': viol, 'states': 0, 'outcome': 'save-error'}
        sm2 = StrengthModel()
        try:
            sm2.load(fname)
        except Exception as e:
            bad('roundtrip/strength/load-error/%s' % ('with-extension' if case['ext'] else 'no-extension'),
                'load(%r) after save(%r) raised %s: %s (directory holds %r)' % (os.path.basename(fname), os.path.basename(fname), type(e).__name__, e, os.listdir(d)))
            return {'viol': viol, 'states': 0, 'outcome': 'load-error'}
        for name in ('rss', 'ls', 'solidStrength'):
            if not _same(getattr(sm, name), getattr(sm2, name)):
                bad('roundtrip/strength/differs/' + name, '%s: %s' % (name, _describe_diff(getattr(sm, name), getattr(sm2, name))))
    finally:
        shutil.rmtree(d, ignore_errors=True)
    return {'viol': viol, 'states': int(len(sm.rss)), 'transitions': int(len(sm.rss)) - 1, 'outcome': 'ok', 'nontrivial': bool(np.any(sm.rss > 0))}


# =======================================================================================================================
# recording stub thermodynamics

PREC = {'BETA': (0.25, 8.0, 60000.0), 'GAMMA': (0.40, 20.0, 62000.0)}
PREC3 = {'BETA': ((0.20, 0.05), 1.8, 13000.0), 'GAMMA': ((0.10, 0.15), 1.4, 11400.0)}
MATRIX = {'ALPHA': 1.0, 'BETA': 0.3, 'GAMMA': 0.2}


def _norm(a):
    """canonical, comparable form of one argument"""
    if a is None or isinstance(a, (str, bool)):
        return a
    if isinstance(a, (list, tuple)) or hasattr(a, 'shape') or isinstance(a, (int, float)):
        arr = np.asarray(a, dtype=float)
        return ('array', arr.shape, arr.tobytes())
    return repr(a)


def _show(entry):
    def s(v):
        if isinstance(v, tuple) and len(v) == 3 and v[0] == 'array':
            arr = np.frombuffer(v[2], dtype=float).reshape(v[1])
            return 'array%s%s' % (v[1], np.array2string(arr.ravel()[:4], precision=6))
        return repr(v)
    return '%s(%s)' % (entry[0], ', '.join('%s=%s' % (k, s(v)) for k, v in entry[1]))


class RecStub:
    """Duck-typed thermodynamics: logs (method name, arguments) and returns deterministic smooth values.  Argument handling follows
    the documented contract of the real classes (x: () / (N,) binary, (e,) / (N,e) multicomponent; T: () / (N,); x and T of equal
    length or one of them single; T and gExtra of equal length or one of them single), written here independently."""

    def __init__(self, n_el):
        self.numElements = n_el
        self.elements = ['A', 'B', 'C'][:n_el]
        self.phases = ['ALPHA', 'BETA', 'GAMMA']
        self.log = []
        self.returned = []
        self.quiet = False
        self.k = 1.0            # "another database": scales the energies / kinetic coefficients the value functions return

    def _ret(self, value):
        self.returned.append(value)
        return value

    def _rec(self, name, **kw):
        if not self.quiet:
            self.log.append((name, tuple((k, _norm(v)) for k, v in kw.items())))

    def _xT(self, x, T):
        x = np.array(x, dtype=float, ndmin=2)
        if self.numElements == 2 and x.shape[1] != 1:
            x = x.T
        T = np.array(T, dtype=float, ndmin=1)
        if T.ndim != 1 or x.ndim != 2 or x.shape[1] != self.numElements - 1:
            raise ValueError('stub: bad shapes x %r T %r' % (x.shape, T.shape))
        if len(x) != len(T):
            if len(x) == 1:
                x = np.repeat(x, len(T), axis=0)
            elif len(T) == 1:
                T = np.repeat(T, len(x))
            else:
                raise ValueError('stub: x (%d) and T (%d) are incompatible' % (len(x), len(T)))
        return x, T

    def _pp(self, p):
        return self.phases[1] if p is None else p

    def _mp(self, p):
        return self.phases[0] if p is None else p

    # ---- values (pure functions)
    def v_df(self, x, T, ph):
        if self.numElements == 2:
            xb, A, Q = PREC[ph]
            dg = self.k * R_GAS * T * xb * np.log(x[:, 0] / (A * np.exp(-Q / (R_GAS * T))))
            xp = xb + 0.1 * x[:, 0]
        else:
            xb, K0, Q = PREC3[ph]
            xb = np.array(xb)
            dg = self.k * R_GAS * T * (np.sum(xb[None, :] * np.log(x), axis=1) - (math.log(K0) - Q / (R_GAS * T)))
            xp = xb[None, :] + 0.1 * x
        return dg, xp

    def v_dnkj(self, x, T, ph):
        a = self.k * 1e-5 * np.exp(-150000.0 / (R_GAS * T)) * MATRIX[ph]
        if self.numElements == 2:
            return a * (0.5 + 10 * x[:, 0])
        d = np.zeros((len(T), 2, 2))
        d[:, 0, 0] = a * (0.5 + x[:, 0])
        d[:, 0, 1] = a * 0.3 * x[:, 0]
        d[:, 1, 0] = -a * 0.2 * x[:, 1]
        d[:, 1, 1] = a * (0.4 + 0.5 * x[:, 1])
        return d

    def v_tracer(self, x, T, ph):
        a = self.k * 2e-5 * np.exp(-140000.0 / (R_GAS * T)) * MATRIX[ph]
        cols = [a * (1 + 0.5 * np.sum(x, axis=1))] + [a * (0.3 + 0.2 * e + x[:, e]) for e in range(self.numElements - 1)]
        return np.stack(cols, axis=1)

    def v_ic(self, T, g, ph):
        xb, A, Q = PREC[ph]
        xa = self.k * A * np.exp(-Q / (R_GAS * T)) * np.exp(g / (xb * R_GAS * T))
        return xa, xb + 1e-6 * g + 1e-5 * (T - 900.0)

    def v_curv(self, x, T, ph):
        xb = np.array(PREC3[ph][0])
        x = np.asarray(x, dtype=float).ravel()
        T = float(np.squeeze(T))
        cea = 0.5 * x * (1 + 1e-4 * (T - 1000.0))
        ceb = xb + 0.05 * x
        dc = (xb - cea) / (1e4 + T)
        mc = self.k * 1e-20 * (1 + x[0]) * math.exp(T / 1000.0)
        gba = np.array([[1 + x[0], 0.1 * x[1]], [-0.2 * x[0], 0.8 + x[1]]])
        beta = self.k * 1e3 * (1 + float(np.sum(x))) * T / 1000.0
        return CurvatureOutput(dc=dc, mc=mc, gba=gba, beta=beta, c_eq_alpha=cea, c_eq_beta=ceb)

    # ---- the interface of the real classes
    def clearCache(self):
        pass

    def getDrivingForce(self, x, T, precPhase=None, removeCache=False, local_phase_sampling_conditions=None):
        ph = self._pp(precPhase)
        self._rec('getDrivingForce', x=x, T=T, precPhase=ph, removeCache=bool(removeCache), lpsc=local_phase_sampling_conditions)
        x, T = self._xT(x, T)
        dg, xp = self.v_df(x, T, ph)
        return self._ret((np.squeeze(dg), np.squeeze(xp)))

    def getInterdiffusivity(self, x, T, removeCache=True, phase=None):
        ph = self._mp(phase)
        self._rec('getInterdiffusivity', x=x, T=T, removeCache=bool(removeCache), phase=ph)
        x, T = self._xT(x, T)
        return self._ret(np.squeeze(self.v_dnkj(x, T, ph)))

    def getTracerDiffusivity(self, x, T, removeCache=True, phase=None):
        ph = self._mp(phase)
        self._rec('getTracerDiffusivity', x=x, T=T, removeCache=bool(removeCache), phase=ph)
        x, T = self._xT(x, T)
        return self._ret(np.squeeze(self.v_tracer(x, T, ph)))

    def getInterfacialComposition(self, T, gExtra=0, precPhase=None):
        ph = self._pp(precPhase)
        self._rec('getInterfacialComposition', T=T, gExtra=gExtra, precPhase=ph)
        T = np.array(T, dtype=float, ndmin=1)
        g = np.array(gExtra, dtype=float, ndmin=1)
        if T.ndim == 2 and T.shape[1] == 1:
            T = T[:, 0]          # (the real BinaryThermodynamics accepts a column of temperatures - the surrogate's own tests rely on it)
        if len(T) != len(g):
            if len(T) == 1:
                T = np.repeat(T, len(g), axis=0)
            elif len(g) == 1:
                g = np.repeat(g, len(T), axis=0)
            else:
                raise ValueError('stub: T (%d) and gExtra (%d) are incompatible' % (len(T), len(g)))
        if T.ndim != 1 or g.ndim != 1:
            raise ValueError('stub: T %r and gExtra %r must be scalars or 1-D arrays' % (T.shape, g.shape))
        xa, xb = self.v_ic(T, g, ph)
        return self._ret((np.squeeze(xa), np.squeeze(xb)))

    def curvatureFactor(self, x, T, precPhase=None, removeCache=False, searchDir=None, computeSearchDir=False):
        ph = self._pp(precPhase)
        self._rec('curvatureFactor', x=x, T=T, precPhase=ph, removeCache=bool(removeCache), searchDir=searchDir, computeSearchDir=bool(computeSearchDir))
        return self._ret(self.v_curv(x, T, ph))

    def getGrowthAndInterfacialComposition(self, x, T, dG, R, gExtra, precPhase=None, removeCache=False, searchDir=None):
        ph = self._pp(precPhase)
        self._rec('getGrowthAndInterfacialComposition', x=x, T=T, dG=dG, R=R, gExtra=gExtra, precPhase=ph, removeCache=bool(removeCache), searchDir=searchDir)
        c = self.v_curv(x, T, ph)
        # (own statement of Philippe & Voorhees eqs 28, 31, 36 - only has to be deterministic for the pass-through oracle)
        Rr, g = np.atleast_1d(np.asarray(R, dtype=float)), np.atleast_1d(np.asarray(gExtra, dtype=float))
        rd = dG - g
        ca = np.asarray(x, dtype=float).ravel()[None, :] - np.outer(rd, c.dc)
        cb = c.c_eq_beta[None, :] + (c.gba @ (ca - c.c_eq_alpha[None, :]).T).T
        return self._ret(GrowthRateOutput(np.squeeze(c.mc / Rr * rd), np.squeeze(np.clip(ca, 0, 1)), np.squeeze(np.clip(cb, 0, 1)), c.c_eq_alpha, c.c_eq_beta))

    def impingementFactor(self, x, T, precPhase=None, removeCache=False, searchDir=None):
        ph = self._pp(precPhase)
        self._rec('impingementFactor', x=x, T=T, precPhase=ph, removeCache=bool(removeCache), searchDir=searchDir)
        return self._ret(self.v_curv(x, T, ph).beta)


class RecProxy:
    """Recording proxy in front of a real thermodynamics object (conformance stage)."""

    def __init__(self, real):
        self._real = real
        self.numElements, self.elements, self.phases = real.numElements, real.elements, real.phases
        self.log = []
        self.returned = []

    def _call(self, name, args, kw):
        self.log.append((name, tuple(('arg%d' % i, _norm(a)) for i, a in enumerate(args)) + tuple(sorted((k, _norm(v)) for k, v in kw.items()))))
        r = getattr(self._real, name)(*args, **kw)
        self.returned.append(r)
        return r

    def getDrivingForce(self, *a, **k):
        return self._call('getDrivingForce', a, k)

    def getInterdiffusivity(self, *a, **k):
        return self._call('getInterdiffusivity', a, k)

    def getTracerDiffusivity(self, *a, **k):
        return self._call('getTracerDiffusivity', a, k)

    def getInterfacialComposition(self, *a, **k):
        return self._call('getInterfacialComposition', a, k)


# =======================================================================================================================
# surrogates over the stub

QUANT = {'general2': ['DF', 'DIFF'], 'general3': ['DF', 'DIFF'], 'binary': ['DF', 'DIFF', 'IC'], 'multi': ['DF', 'DIFF', 'CURV']}
GETTERS = {'getDrivingForce': 'DF', 'getInterdiffusivity': 'DIFF', 'getTracerDiffusivity': 'DIFF', 'getInterfacialComposition': 'IC',
           'curvatureFactor': 'CURV', 'getGrowthAndInterfacialComposition': 'CURV', 'impingementFactor': 'CURV'}
KIND_GETTERS = {'general2': ['getDrivingForce', 'getInterdiffusivity', 'getTracerDiffusivity'],
                'general3': ['getDrivingForce', 'getInterdiffusivity', 'getTracerDiffusivity'],
                'binary': ['getDrivingForce', 'getInterdiffusivity', 'getTracerDiffusivity', 'getInterfacialComposition'],
                'multi': ['getDrivingForce', 'getInterdiffusivity', 'getTracerDiffusivity', 'curvatureFactor',
                          'getGrowthAndInterfacialComposition', 'impingementFactor']}


def _mk_surrogate(kind, stub):
    cls = {'general2': GeneralSurrogate, 'general3': GeneralSurrogate, 'binary': BinarySurrogate, 'multi': MulticomponentSurrogate}[kind]
    return cls(stub)


def _train_inputs(case):
    """training grid of the case -> (x argument, T argument, paired x points, paired T points) as the docstrings define them"""
    nel = 2 if case['kind'] in ('general2', 'binary') else 3
    bc, nT, grid = case['broadcast'], case['nT'], case['grid']
    if nel == 2:
        xg = {'linear': np.linspace(0.002, 0.02, 5), 'log': np.logspace(-4, -2, 5), 'single': np.array([0.01])}[grid]
        Tset = {1: np.array([900.0]), 3: np.array([850.0, 900.0, 950.0])}[nT]
        Tpair = np.array([850.0, 950.0, 870.0, 930.0, 900.0])
    else:
        a = {'linear': ([0.02, 0.05, 0.08], [0.01, 0.03, 0.05]), 'log': ([1e-3, 1e-2, 1e-1], [2e-3, 1e-2, 5e-2]), 'single': ([0.05], [0.03])}[grid]
        xg = np.array([[u, v] for u in a[0] for v in a[1]])
        Tset = {1: np.array([1000.0]), 3: np.array([950.0, 1000.0, 1050.0])}[nT]
        Tpair = np.array([950.0, 1050.0, 970.0, 1030.0, 1000.0, 990.0, 1040.0, 960.0, 1010.0])
    if bc:
        n = len(xg)
        xp = np.tile(xg.reshape(n, -1), (len(Tset), 1))
        Tp = np.repeat(Tset, n)
        Targ = float(Tset[0]) if nT == 1 else Tset
    else:
        xp, Tp, Targ = xg.reshape(len(xg), -1), Tpair[:len(xg)], Tpair[:len(xg)]
    xarg = xg if (nel == 3 or len(xg) > 1) else float(xg[0])
    return xarg, Targ, xp, Tp


def _ic_inputs(case):
    bc, nT, grid = case['broadcast'], case['nT'], case['grid']
    gg = {'linear': np.linspace(100.0, 5000.0, 5), 'log': np.logspace(2, 3.7, 5), 'single': np.array([1000.0])}[grid]
    Tset = {1: np.array([900.0]), 3: np.array([850.0, 900.0, 950.0])}[nT]
    Tpair = np.array([850.0, 950.0, 870.0, 930.0, 900.0])
    if bc:
        # docstring: "If True, will create grid of points from T and gExtra"
        Tp = np.tile(Tset, len(gg))
        gp = np.repeat(gg, len(Tset))
        Targ = float(Tset[0]) if nT == 1 else Tset
    else:
        Tp, gp, Targ = Tpair[:len(gg)], gg, Tpair[:len(gg)]
    garg = gg if len(gg) > 1 else float(gg[0])
    return Targ, garg, Tp, gp


def _flat_result(r):
    """result of a getter as a flat list of float arrays (tuples / namedtuples flattened)"""
    if isinstance(r, tuple):
        out = []
        for v in r:
            out += _flat_result(v)
        return out
    if r is None:
        return [None]
    return [np.asarray(r, dtype=float)]


def _results_identical(r1, r2):
    a, b = _flat_result(r1), _flat_result(r2)
    if len(a) != len(b):
        return False
    return all(_same(u, v) for u, v in zip(a, b))


def run_surrogate(case):
    kind, subset, tphase = case['kind'], case['subset'], case['tphase']
    viol, seen = [], set()
    tag = ' '.join('%s=%s' % (k, case[k]) for k in sorted(case))
    cls = {'general2': 'general', 'general3': 'general', 'binary': 'binary', 'multi': 'multi'}[kind]
    nel = 2 if kind in ('general2', 'binary') else 3

    def bad(sig, msg):
        if sig not in seen:
            seen.add(sig)
            viol.append({'sig': sig, 'msg': tag + ': ' + msg})

    quants = QUANT[kind]
    want = [q for i, q in enumerate(quants) if subset & (1 << i)]
    stub = RecStub(nel)
    ref = RecStub(nel)            # a second instance used only to compute expected values / direct calls
    surr = _mk_surrogate(kind, stub)
    tp = stub.phases[1] if tphase is None else tphase
    xarg, Targ, xp, Tp = _train_inputs(case)
    trained = set()
    single_pts = (case['grid'] == 'single' and (case['nT'] == 1 and case['broadcast']))
    n_eval = 0
    def train(q):
        if q == 'DF':
            surr.trainDrivingForce(xarg, Targ, precPhase=tphase, logX=case['logX'], broadcast=case['broadcast'])
        elif q == 'DIFF':
            surr.trainDiffusivity(xarg, Targ, phase=None, logX=case['logX'], broadcast=case['broadcast'])
        elif q == 'IC':
            Ti, gi, _, _ = _ic_inputs(case)
            surr.trainInterfacialComposition(Ti, gi, precPhase=tphase, logY=case['logX'], broadcast=case['broadcast'])
        elif q == 'CURV':
            surr.trainCurvature(xarg, Targ, precPhase=tphase, logX=case['logX'], broadcast=case['broadcast'])

    # ---- training
    for q in want:
        try:
            train(q)
            trained.add(q)
        except Exception as e:
            if single_pts and isinstance(e, ValueError) and 'more than 1 datapoint' in str(e):
                continue          # documented refusal: a single training point
            import traceback
            tb = traceback.extract_tb(e.__traceback__)
            bad('surrogate/train-exception/%s/broadcast=%s/nT=%d' % (q, 'on' if case['broadcast'] else 'off', case['nT']),
                'training %s raised %s: %s (at %s:%s)' % (q, type(e).__name__, str(e)[:200], tb[-1].filename.split('/')[-1], tb[-1].name))

    def queries(s):
        """every getter x query phase x argument form -> (getter, args, kwargs, route, expected-values thunk, label)"""
        out = []
        x1 = float(xp[0, 0]) if nel == 2 else xp[0].copy()
        xN = xp[:, 0].copy() if nel == 2 else xp.copy()
        for g in KIND_GETTERS[kind]:
            q = GETTERS[g]
            if q in ('DF', 'DIFF'):
                phases = [None, 'BETA', 'GAMMA'] if q == 'DF' else [None, 'ALPHA', 'BETA']
                pk = 'precPhase' if q == 'DF' else 'phase'
                for ph in phases:
                    res = (s.phases[1] if ph is None else ph) if q == 'DF' else (s.phases[0] if ph is None else ph)
                    route = 'trained' if (q in trained and res == (tp if q == 'DF' else s.phases[0])) else 'pass'
                    for form, (xa, Ta) in (('scalar', (x1, float(Tp[0]))), ('array', (xN, Tp.copy()))):
                        for kw in ([{}] if route == 'trained' else [{}, {'removeCache': True}]):
                            k = dict(kw)
                            if ph is not None:
                                k[pk] = ph
                            out.append((g, (xa, Ta), k, route, res, form))
            elif q == 'IC':
                _, _, Tq, gq = _ic_inputs(case)
                for ph in [None, 'BETA', 'GAMMA']:
                    res = s.phases[1] if ph is None else ph
                    route = 'trained' if ('IC' in trained and res == tp) else 'pass'
                    forms = [('scalar', (float(Tq[0]), float(gq[0]))), ('array', (Tq.copy(), gq.copy()))]
                    if case['nT'] == 1 and case['broadcast']:
                        forms.append(('scalarT-arrayG', (float(Tq[0]), gq.copy())))
                    for form, a in forms:
                        k = {} if ph is None else {'precPhase': ph}
                        out.append((g, a, k, route, res, form))
            else:
                for ph in [None, 'BETA', 'GAMMA']:
                    res = s.phases[1] if ph is None else ph
                    route = 'trained' if ('CURV' in trained and res == tp) else 'pass'
                    for i in ([0, len(xp) - 1] if len(xp) > 1 else [0]):
                        xa, Ta = xp[i].copy(), float(Tp[i])
                        for kw in ([{}] if route == 'trained' else [{}, {'removeCache': True}]):
                            k = dict(kw)
                            if ph is not None:
                                k['precPhase'] = ph
                            if g == 'getGrowthAndInterfacialComposition':
                                a = (xa, Ta, 900.0, np.array([0.5e-9, 1e-9, 2e-9]), np.array([2000.0, 1000.0, 500.0]))
                            else:
                                a = (xa, Ta)
                            out.append((g, a, k, route, res, 'point%d' % i))
        return out

    def expected(g, args, res):
        """training targets at the query inputs, from the pure value functions of the stub"""
        if g in ('getDrivingForce', 'getInterdiffusivity', 'getTracerDiffusivity'):
            x, T = ref._xT(args[0], args[1])
            if g == 'getDrivingForce':
                dg, xpv = ref.v_df(x, T, res)
                return [np.squeeze(dg), np.squeeze(xpv)]
            if g == 'getInterdiffusivity':
                return [np.squeeze(ref.v_dnkj(x, T, res))]
            return [np.squeeze(ref.v_tracer(x, T, res))]
        if g == 'getInterfacialComposition':
            T = np.atleast_1d(np.asarray(args[0], dtype=float))
            gE = np.atleast_1d(np.asarray(args[1], dtype=float))
            T, gE = np.broadcast_arrays(T, gE)
            xa, xb = ref.v_ic(T, gE, res)
            return [np.squeeze(xa), np.squeeze(xb)]
        c = ref.v_curv(args[0], args[1], res)
        if g == 'curvatureFactor':
            return _flat_result(tuple(c))
        if g == 'impingementFactor':
            return [np.asarray(c.beta, dtype=float)]
        return _flat_result(tuple(growth_from_curvature(np.asarray(args[0], dtype=float), args[2], args[3], args[4], c)))

    def check_all(s, st, label, results, suffix='', backwards=False):
        nonlocal n_eval
        for (g, args, kw, route, res, form) in (queries(st)[::-1] if backwards else queries(st)):
            n_eval += 1
            key = (g, form, tuple(sorted(kw.items())), route)
            a1 = tuple(np.array(a, copy=True) if hasattr(a, 'shape') else a for a in args)
            st.log, st.returned = [], []
            try:
                r1 = getattr(s, g)(*a1, **kw)
            except Exception as e:
                import traceback
                tb = traceback.extract_tb(e.__traceback__)
                bad('surrogate/%s/exception/%s/%s/%s' % ('trained' if route == 'trained' else 'passthrough', g, 'binary' if nel == 2 else 'ternary',
                                                        form if route == 'trained' else '*'),
                    '%s%s(%s form, %r) raised %s: %s (at %s:%s)' % (label, g, form, kw, type(e).__name__, str(e)[:160], tb[-1].filename.split('/')[-1], tb[-1].name))
                continue
            log1, ret1 = list(st.log), list(st.returned)
            results[key] = r1
            if route == 'pass':
                # statement: an untrained surrogate returns exactly what the underlying thermodynamics returns for that quantity:
                # one call of the same-named method, same arguments (phase default resolved), result handed back unchanged
                ref.log = []
                r2 = getattr(ref, g)(*args, **kw)
                want_entry = ref.log[0]
                if len(log1) != 1 or log1[0][0] != g:
                    bad('surrogate/passthrough/wrong-method/%s' % g, '%suntrained %s.%s(%s form, %r) called %s on the thermodynamics object instead of %s; it returned %s, '
                        'the thermodynamics object returns %s' % (label, type(s).__name__, g, form, kw, [e[0] for e in log1] or 'nothing', g,
                                                                   [np.array2string(np.asarray(v).ravel()[:3], precision=6) for v in _flat_result(r1)],
                                                                   [np.array2string(np.asarray(v).ravel()[:3], precision=6) for v in _flat_result(r2)]))
                    continue
                if log1[0] != want_entry:
                    bad('surrogate/passthrough/arguments-differ/%s' % g, '%suntrained %s.%s(%s form, %r): thermodynamics called with %s, a direct call records %s'
                        % (label, type(s).__name__, g, form, kw, _show(log1[0]), _show(want_entry)))
                    continue
                # "returns exactly what the underlying thermodynamics returns": the very object the thermodynamics call produced (and, the
                # stub being deterministic, the same numbers as a direct call)
                if not (len(ret1) == 1 and r1 is ret1[0]) or not _results_identical(r1, r2):
                    bad('surrogate/passthrough/result-differs/%s' % g, '%suntrained %s.%s(%s form, %r) returned %s, the thermodynamics object returned %s'
                        % (label, type(s).__name__, g, form, kw, [np.array2string(np.asarray(v).ravel()[:3], precision=8) for v in _flat_result(r1)],
                           [np.array2string(np.asarray(v).ravel()[:3], precision=8) for v in _flat_result(r2)]))
            else:
                # statement: a trained surrogate reproduces its training data at the training points.  1e-6 of the largest target of the
                # output (RBF interpolation through the nodes; conditioning of the kernel matrix is far below that)
                exp = expected(g, args, res)
                got = _flat_result(r1)
                if len(exp) != len(got):
                    bad('surrogate/trained/structure/%s' % g, '%s%s returned %d outputs, expected %d' % (label, g, len(got), len(exp)))
                    continue
                for j, (u, v) in enumerate(zip(got, exp)):
                    v = np.asarray(v, dtype=float)
                    if u.shape != v.shape:
                        bad('surrogate/trained/shape/%s/%s' % (g, form), '%s%s(%s form) output %d has shape %r, the thermodynamics object returns %r'
                            % (label, g, form, j, u.shape, v.shape))
                        continue
                    scale = float(np.max(np.abs(v))) if v.size else 0.0
                    if not np.all(np.abs(u - v) <= 1e-6 * scale):
                        bad('surrogate/trained/mismatch/%s%s' % (g, suffix), '%s%s(%s form) output %d: max deviation %.3g from the training targets (scale %.3g) at the training inputs'
                            % (label, g, form, j, float(np.max(np.abs(u - v))), scale))
                if log1:
                    pass      # (a trained getter may consult the thermodynamics object; nothing is asserted about that)

    res1 = {}
    check_all(surr, stub, '', res1)
    # ---- toJson -> fromJson into a fresh surrogate over a fresh stub
    d = _scratch_dir()
    reloaded = False
    try:
        fname = os.path.join(d, 'surr' + ('.json' if case['ext'] else ''))
        try:
            surr.toJson(fname)
            stub2 = RecStub(nel)
            surr2 = _mk_surrogate(kind, stub2)
            surr2.fromJson(fname)
            reloaded = True
        except Exception as e:
            import traceback
            tb = traceback.extract_tb(e.__traceback__)
            bad('surrogate/reload/exception/%s/%s' % ('binary' if nel == 2 else 'ternary', tb[-1].name), 'toJson / fromJson with %s trained raised %s: %s (at %s:%s)'
                % ('+'.join(sorted(trained)) or 'nothing', type(e).__name__, str(e)[:200], tb[-1].filename.split('/')[-1], tb[-1].name))
        if reloaded:
            if not os.path.exists(os.path.join(d, 'surr.json')):
                bad('surrogate/reload/file-name', 'toJson(%r) did not create surr.json' % os.path.basename(fname))
            res2 = {}
            # (the trained set is the same: queries() reads `trained`; a model missing after the reload shows up as pass-through results
            #  that differ from the original predictions)
            check_all(surr2, stub2, 'after toJson/fromJson: ', res2)
            for key, r1 in res1.items():
                if key[3] != 'trained' or key not in res2:
                    continue
                # statement: a surrogate rebuilt from its saved file gives the same predictions as the original (same data, same
                # deterministic fit -> identical numbers)
                if not _results_identical(r1, res2[key]):
                    a, b = _flat_result(r1), _flat_result(res2[key])
                    dev = max((float(np.max(np.abs(u - v))) if (u is not None and v is not None and u.shape == v.shape and u.size) else float('inf'))
                              for u, v in zip(a, b)) if len(a) == len(b) else float('inf')
                    bad('surrogate/reload/prediction-differs/%s' % key[0], '%s(%s form): prediction of the reloaded surrogate differs from the original by %.3g'
                        % (key[0], key[1], dev))
    finally:
        shutil.rmtree(d, ignore_errors=True)
    # ---- the same surrogate object trained again at the same inputs over "another database" (all targets scaled): it reproduces
    #      the data it was trained on last, also at conditions it was asked for before
    if trained:
        stub.k = ref.k = 1.37
        try:
            ok = True
            for q in sorted(trained):
                try:
                    train(q)
                except Exception as e:
                    ok = False
                    bad('surrogate/retrain-exception/%s' % q, 'training %s a second time raised %s: %s' % (q, type(e).__name__, str(e)[:200]))
            if ok:
                # (queries in reverse order: the first one repeats the condition the object was asked for last before the re-training)
                check_all(surr, stub, 'after training a second time on other targets: ', {}, suffix='/after-retraining', backwards=True)
        finally:
            stub.k = ref.k = 1.0
    return {'viol': viol, 'states': n_eval, 'transitions': n_eval, 'evaluations': 1,
            'outcome': '%s/trained=%s%s' % (kind, '+'.join(sorted(trained)) or 'none', '' if reloaded else '/no-reload'),
            'nontrivial': True, 'info': {'queries': n_eval, 'trained': sorted(trained)}}


# =======================================================================================================================
# conformance on a real backend (Al-Zr)

def run_real(case):
    viol, seen = [], set()
    tag = ' '.join('%s=%s' % (k, case[k]) for k in sorted(case))

    def bad(sig, msg):
        if sig not in seen:
            seen.add(sig)
            viol.append({'sig': sig, 'msg': tag + ': ' + msg})

    real = _REAL['alzr']
    proxy = RecProxy(real)
    surr = BinarySurrogate(proxy)
    subset = case['subset']
    T = 673.15
    xtrain = np.logspace(-5, -2, 5)
    gtrain = np.linspace(100.0, 5000.0, 5)
    given = {'DF': (xtrain.copy(), T), 'DIFF': (xtrain.copy(), np.array([T, T + 100.0])), 'IC': (T, gtrain.copy())}
    trained = set()
    for bit, q in ((1, 'DF'), (2, 'DIFF'), (4, 'IC')):
        if not subset & bit:
            continue
        try:
            if q == 'DF':
                surr.trainDrivingForce(given[q][0], T, logX=True)
            elif q == 'DIFF':
                surr.trainDiffusivity(given[q][0], given[q][1])
            else:
                if case.get('ic_nT', 1) == 1:
                    surr.trainInterfacialComposition(T, given[q][1])
                else:
                    surr.trainInterfacialComposition(np.array([T, T + 50.0]), given[q][1])
            trained.add(q)
        except Exception as e:
            import traceback
            tb = traceback.extract_tb(e.__traceback__)
            bad('surrogate-real/train-exception/%s%s' % (q, '/broadcast=on/nT=2' if (q == 'IC' and case.get('ic_nT', 1) != 1) else ''),
                'training %s raised %s: %s (at %s:%s)' % (q, type(e).__name__, str(e)[:200], tb[-1].filename.split('/')[-1], tb[-1].name))
    # the training inputs the surrogate stored are the ones it was given (the grid of the case)
    if 'IC' in trained and case.get('ic_nT', 1) == 1:
        stored = np.asarray(surr.interfacialCompositionData['AL3ZR']['gExtra'], dtype=float)
        if stored.shape != gtrain.shape or stored.tobytes() != gtrain.tobytes():
            bad('surrogate-real/training-inputs-altered/IC', 'trainInterfacialComposition(T, gExtra=%s) stored gExtra=%s as its training inputs; the caller\'s array '
                'is now %s (BinaryThermodynamics._interfacialCompositionFromEq adds its offset to the array it is given)'
                % (np.array2string(gtrain, precision=1), np.array2string(stored, precision=1), np.array2string(given['IC'][1], precision=1)))
    n = 0
    xq = np.logspace(-5, -2, 5)
    gq = (np.asarray(surr.interfacialCompositionData['AL3ZR']['gExtra'], dtype=float).copy()
          if ('IC' in trained and case.get('ic_nT', 1) == 1) else np.linspace(100.0, 5000.0, 5))
    queries = [('getDrivingForce', 'DF', (xq[2], T), {}), ('getDrivingForce', 'DF', (xq.copy(), np.full(5, T)), {}),
               ('getInterdiffusivity', 'DIFF', (xq[2], T), {}), ('getInterdiffusivity', 'DIFF', (xq.copy(), np.full(5, T)), {}),
               ('getTracerDiffusivity', 'DIFF', (xq[2], T), {}), ('getTracerDiffusivity', 'DIFF', (xq.copy(), np.full(5, T)), {}),
               ('getInterfacialComposition', 'IC', (T, float(gq[1])), {}), ('getInterfacialComposition', 'IC', (T, gq.copy()), {})]
    if case.get('ic_nT', 1) != 1:
        queries = [qq for qq in queries if qq[1] != 'IC']
    for g, q, args, kw in queries:
        n += 1
        proxy.log, proxy.returned = [], []
        form = 'scalar' if np.ndim(args[0]) == 0 and np.ndim(args[1]) == 0 else 'array'
        try:
            r1 = getattr(surr, g)(*args, **kw)
        except Exception as e:
            bad('surrogate-real/%s/exception/%s/%s' % ('trained' if q in trained else 'passthrough', g, form), '%s raised %s: %s' % (g, type(e).__name__, str(e)[:160]))
            continue
        log1, ret1 = list(proxy.log), list(proxy.returned)
        if q not in trained:
            # pass-through: one call of the same-named method, its result object handed back unchanged
            if len(log1) != 1 or log1[0][0] != g:
                bad('surrogate-real/passthrough/wrong-method/%s' % g, 'untrained %s called %s on the backend' % (g, [e[0] for e in log1]))
            elif r1 is not ret1[0]:
                bad('surrogate-real/passthrough/result-differs/%s' % g, 'untrained %s returned %r, the backend call returned %r' % (g, r1, ret1[0]))
        else:
            if form == 'scalar':
                continue          # the array form covers every training point
            data = {'DF': surr.drivingForceData.get('AL3ZR'), 'DIFF': surr.diffusivityData.get('FCC_A1'), 'IC': surr.interfacialCompositionData.get('AL3ZR')}[q]
            got = _flat_result(r1)
            if g == 'getDrivingForce':
                exp = [np.asarray(data['dg'], dtype=float), np.asarray(data['xp'], dtype=float)]
            elif g == 'getInterdiffusivity':
                exp = [np.asarray(data['dnkj'], dtype=float)[:5]]
            elif g == 'getTracerDiffusivity':
                exp = [np.asarray(data['dtracer'], dtype=float)[:5]]
            else:
                exp = [np.asarray(data['xpalpha'], dtype=float), np.asarray(data['xpbeta'], dtype=float)]
            # 1e-6 of the largest target (statement: reproduces its training data at the training points)
            for j, (u, v) in enumerate(zip(got, exp)):
                if u.shape != v.shape or not np.all(np.abs(u - v) <= 1e-6 * np.max(np.abs(v))):
                    bad('surrogate-real/trained/mismatch/%s' % g, 'output %d: %r vs training targets %r' % (j, u, v))
    return {'viol': viol, 'states': n, 'transitions': n, 'outcome': 'trained=%s' % ('+'.join(sorted(trained)) or 'none'), 'nontrivial': True}


# =======================================================================================================================

def run(ctx):
    quick = ctx.quick
    ctx.rule = ('roundtrip: model x configuration x recording on/off x save point (after solve call 1..3) x file name with/without extension, '
                'save -> load into a fresh model -> compare every saved quantity bit for bit -> continue both for one more call and compare; '
                'surrogate: class x every subset of trainable quantities x trained phase x training grid (linear/log x logX x broadcast x '
                'number of temperatures) x file name, inside each case every getter x query phase x argument form x keyword variant, '
                'original and reloaded surrogate; non-trivial = run with precipitates / every surrogate case')
    ctx.assumptions = [
        'analytic thermodynamic environments (mc/synth_thermo.py, mc/diff_env.py) stand in for pycalphad in the save/load products',
        'the recording stub follows the documented argument contract of the real thermodynamics classes (x and T / T and gExtra of equal '
        'length or one of them single, 1-D); stage surrogate-real repeats the surrogate oracles on Al-Zr behind a recording proxy',
        'the "continue" differential (original vs reloaded model continued for one more solve call) is observed and shown in the '
        'outcome labels but is not a violation: the statement names the round-trip equality only',
        'before the continuation of a diffusion model the original\'s composition hash table is emptied (public clearCache()): the cache is '
        'hidden state that is not saved and changes results at the 1e-8 level by itself (C09)',
        'PSD recording histories of the precipitation model are not part of model.save (they have their own saveRecordedPSD) and are not compared',
    ]
    # ---- precipitation
    pcases = []
    for system in ['bin', 'tern']:
        for nph in [1, 2, 3]:
            for record in [True, False]:
                for save in [1, 2, 3]:
                    for ext in [True, False]:
                        for it in ['euler', 'rk4']:
                            for shape in (['sphere'] if quick else ['sphere', 'needle']):
                                for temp in (['iso'] if quick else ['iso', 'heat']):
                                    pcases.append({'system': system, 'nphases': nph, 'record': record, 'save': save, 'ext': ext, 'it': it,
                                                   'shape': shape, 'temp': temp, 'tcall': 1.5})
                                    if ext and (record or not quick):
                                        pcases.append({'system': system, 'nphases': nph, 'record': record, 'save': save, 'ext': ext, 'it': it,
                                                       'shape': shape, 'temp': temp, 'tcall': 6.0, 'grid': 'small'})
    ctx.product_run('roundtrip-precip', 'checks.c20:run_precip', pcases, chunksize=1)
    # ---- diffusion
    dcases = []
    for model in ['single', 'homog']:
        for els in ['bin', 'tern']:
            for record in [True, False, 'off-after-1', 'on-after-1']:
                for save in [1, 2, 3]:
                    for ext in [True, False]:
                        for it in (['euler'] if quick else ['euler', 'rk4']):
                            for N, profile in ([(6, 'linear')] if quick else [(6, 'linear'), (12, 'step')]):
                                dcases.append({'model': model, 'els': els, 'record': record, 'save': save, 'ext': ext, 'it': it, 'N': N,
                                               'profile': profile, 'nsteps': 4.5})
    ctx.product_run('roundtrip-diffusion', 'checks.c20:run_diff', dcases)
    # ---- strength
    scases = [{'system': s, 'nphases': n, 'save': k, 'ext': e, 'compressed': c} for s in ['bin', 'tern'] for n in [1, 2] for k in [1, 2, 3]
              for e in [True, False] for c in [True, False]]
    ctx.product_run('roundtrip-strength', 'checks.c20:run_strength', scases, chunksize=1)
    # ---- surrogates over the recording stub
    ucases = []
    for kind in ['general2', 'general3', 'binary', 'multi']:
        for subset in range(1 << len(QUANT[kind])):
            for tphase in [None, 'GAMMA']:
                grids = [('linear', False, True, 3), ('log', True, True, 1), ('linear', False, False, 3), ('log', True, False, 3)] if quick else \
                    [(g, lx, bc, nT) for g in ['linear', 'log', 'single'] for lx in [False, True] for bc in [True, False] for nT in [1, 3]]
                for grid, logX, bc, nT in grids:
                    if subset == 0 and (grid, logX, bc, nT) != grids[0]:
                        continue          # nothing is trained: the grid is irrelevant
                    if grid == 'single' and (not bc or nT == 1):
                        continue          # a single composition cannot be paired with several temperatures (docstring of broadcast);
                                          # a single training point is refused by the surrogate (documented ValueError)
                    if not bc and nT == 1:
                        continue          # paired points need as many temperatures as compositions
                    for ext in [True, False]:
                        ucases.append({'kind': kind, 'subset': subset, 'tphase': tphase, 'grid': grid, 'logX': logX, 'broadcast': bc, 'nT': nT, 'ext': ext})
    ctx.product_run('surrogate', 'checks.c20:run_surrogate', ucases)
    # ---- conformance on Al-Zr
    if _REAL:
        rcases = [{'subset': s} for s in ([0, 7] if quick else range(8))] + [{'subset': 4, 'ic_nT': 2}]
        ctx.product_run('surrogate-real', 'checks.c20:run_real', rcases, chunksize=1)
    ctx.bounds = {'precip_cases': len(pcases), 'diffusion_cases': len(dcases), 'strength_cases': len(scases), 'surrogate_cases': len(ucases),
                  'save_points': [1, 2, 3], 'file_names': ['with extension', 'without extension'], 'recording': ['on', 'off'],
                  'surrogate_subsets': 'all subsets of the trainable quantities of each class', 'query_phases': [None, 'BETA', 'GAMMA', 'ALPHA'],
                  'training_grids': 'linear/log(/single) x logX x broadcast x nT in {1,3}'}
    try:
        os.rmdir(SCRATCH)
    except OSError:
        pass
