"""C09 - thermodynamic queries are pure: history, caching and batching change nothing; the diffusion
composition cache (HashTable) is sound.

Explicit-state exploration over *query histories* on the real code:

  fresh      every query symbol of every database on a truly fresh thermodynamics object (built from the TDB
             inside the case) -> reference answers
  df-hist    per database x driving-force method: every history of length <= depth over
             {P1..P4 keep-cache, P1/P3 drop-cache, clearCache}
  mixed-hist per database: every history of length <= depth over a 14-16 symbol alphabet mixing driving force
             (all four methods), interfacial composition, curvature/growth/impingement, interdiffusivity,
             tracer diffusivity (scalar / 1-point / 3-point arguments, removeCache on/off) and clearCache
  batching   array evaluation == point-wise evaluation for every array form
  hashtable  E2 (ctx.bfs) over HashTable operation histories add/retrieve/enable/clear/setSensitivity on a
             lattice of (x, T) straddling rounding boundaries, against a reference model written from the
             statement
  singlephase SinglePhaseModel flux evaluations with the cache on / off over a drifting profile

Histories are executed on ONE long-lived thermodynamics object per worker and database (reset with the public
clearCache() before each history, which is itself in the alphabet).  Oracle for every history: the answer of the
LAST query equals the answer of the same query on a fresh object, repeating it gives the same answer (bit-identical
where the operation order is the same), and every argument array is bit-identical after the call.

Signature families and what they mean (db = alzr | cuti | ni | ams):
  argmut/<db>/<query>/<argument>                       an argument array was modified by the call
  hist/<db>/<query>/cache=cold/repeat-differs          first call (no cache) and second call (cache) disagree
  hist/<db>/<query>/cache=warm*/differs-from-fresh     answer after a history differs from the fresh-object answer
        cache=warm-by-eq / warm-by-tangent: layout of the cached driving-force composition sets ([matrix, precipitate]
        written by the approximate/curvature methods, [precipitate] written by the tangent method)
  hist/<db>/<query>/repeat-not-bit-identical           removeCache=True / cache-free query not reproducible bit for bit
  batch/<db>/<query>/...                               array evaluation differs from point-wise evaluation
  hashtable/disabled/*, hashtable/false-hit/s=<digits>/<x|T>-differs, singlephase/*    diffusion composition cache
"""
import itertools
import math
import os

PROPERTY = 'C09'
LEVEL = 'model_checking'

np = None
REF = {}            # (db, sym) -> [[name, cls, [floats], shape], ...]  filled by the parent after stage 'fresh'
_OBJ = {}           # per process: db -> long-lived thermodynamics object
_REFOBJ = {}


def prepare():
    global np, BinaryThermodynamics, MulticomponentThermodynamics, GeneralThermodynamics, datasets
    global HashTable, SinglePhaseModel
    import numpy as np
    from kawin.thermo import BinaryThermodynamics, MulticomponentThermodynamics, GeneralThermodynamics
    import kawin.tests.datasets as datasets
    from kawin.diffusion.DiffusionParameters import HashTable
    from kawin.diffusion import SinglePhaseModel


EXAMPLES = '/repo/examples/'       # the TDB files are data, not code under test (mutant copies carry only kawin/)

# Points: P1=(x1,T1) P2=(x2,T1) P3=(x1,T2) P4=(x2,T2), P5=(xu,T1) far inside the single-phase region (driving-force
# queries only; negative driving force); P1-P4 all inside the stable matrix+precipitate window of the
# database, supersaturated (driving force > 0) and with a converging two-phase equilibrium (checked in stage
# 'fresh': a NaN / None / -1 answer on the fresh object is a harness error, not a violation).
# yeq = lower bound of the smallest solute fraction of the matrix in two-phase equilibrium at these points
# (checked in stage 'fresh'); it enters the tolerance of curvature-type quantities, see TOL below.
DBS = {
    'alzr': dict(kind='binary', src=('datasets', 'ALZR_TDB'), elements=['AL', 'ZR'], phases=['FCC_A1', 'AL3ZR'],
                 x=[0.004, 0.002], xu=1e-5, T=[673.15, 723.15], g=[0.0, 2000.0, 5000.0], yeq=4e-5, pdens=2000),
    'cuti': dict(kind='binary', src=('file', 'CuTi.tdb'), elements=['CU', 'TI'], phases=['FCC_A1', 'CU4TI'],
                 x=[0.019, 0.012], xu=0.001, T=[623.15, 673.15], g=[0.0, 500.0, 1000.0], yeq=2e-3, pdens=2000),
    # solute that sorts before the solvent (AL < NI): BinaryThermodynamics reads the other composition index ('reverse')
    'nial': dict(kind='binary', src=('datasets', 'NICRAL_TDB'), elements=['NI', 'AL'], phases=['FCC_A1', 'FCC_L12'],
                 x=[0.16, 0.15], xu=0.03, T=[873.15, 973.15], g=[0.0, 200.0, 1000.0], yeq=1e-1, pdens=2000),
    'ni': dict(kind='multi', src=('datasets', 'NICRAL_TDB'), elements=['NI', 'CR', 'AL'], phases=['FCC_A1', 'FCC_L12'],
               x=[[0.08, 0.1], [0.06, 0.12]], xu=[0.08, 0.04], T=[1073.15, 1023.15], g=[0.0, 200.0], yeq=5e-2, pdens=500),
    'ams': dict(kind='multi', src=('file', 'AlMgSi.tdb'), elements=['AL', 'MG', 'SI'],
                phases=['FCC_A1', 'MGSI_B_P', 'MG5SI6_B_DP', 'B_PRIME_L'],
                x=[[0.0072, 0.0057], [0.005, 0.004]], xu=[0.0004, 0.0003], T=[448.15, 498.15], g=[0.0, 500.0], yeq=2e-5, pdens=2000),
}
METHODS = ['tangent', 'approximate', 'sampling', 'curvature']
NEAR_DT = (0.25, -0.01)     # kelvin; relative 4e-4 and 1.5e-5 of the temperatures used

# pycalphad's local solver (pycalphad/core/minimizer.pyx, check_convergence) accepts an equilibrium when the
# largest site-fraction change of the last iteration is < 5e-9 (absolute); results reached from different
# starting composition sets therefore agree to that, not bitwise.
DELTA_Y = 5e-9


def tol(db, cls):
    """(rtol on the max-norm of the part, atol).  One line each on where the number comes from."""
    if cls == 'energy':   # driving force: stationary w.r.t. site fractions -> error O(DELTA_Y^2); DESIGN: 1e-8
        return 1e-8, 0.0
    if cls == 'samp':     # sampling method: DESIGN 1e-6 (arg-max over a fixed sample, chemical potentials to 1e-8)
        return 1e-6, 0.0
    if cls == 'comp':     # an equilibrium composition: 4 x DELTA_Y absolute on top of 1e-8 relative
        return 1e-8, 4 * DELTA_Y
    if cls == 'curv':     # curvature of the matrix free energy ~ 1/y_solute at the equilibrium matrix composition:
        # an admissible site-fraction error DELTA_Y gives a relative error DELTA_Y / y_eq
        return max(1e-8, DELTA_Y / DBS[db]['yeq']), 0.0
    if cls == 'diff':     # diffusivity at a prescribed single-phase composition (site fractions fixed by mass
        # balance, no equilibrium composition to solve for); DESIGN: 1e-8
        return 1e-8, 0.0
    raise KeyError(cls)


# ------------------------------------------------------------------------------------------------------
# objects

def _database_arg(db):
    kind, name = DBS[db]['src']
    if kind == 'datasets':
        return getattr(datasets, name)
    return EXAMPLES + name


def build(db):
    d = DBS[db]
    cls = BinaryThermodynamics if d['kind'] == 'binary' else MulticomponentThermodynamics
    th = cls(_database_arg(db), list(d['elements']), list(d['phases']))
    # public configuration, identical for the long-lived and the fresh objects (listed in ctx.bounds)
    th.setDFSamplingDensity(d['pdens'])
    th.setEQSamplingDensity(500)
    return th


def longlived(db):
    if db not in _OBJ:
        _OBJ[db] = build(db)
    return _OBJ[db]


def point(db, i):
    d = DBS[db]
    i = int(i) - 1
    if i == 4:          # P5: far inside the single-phase region (driving force < 0), first temperature
        return d['xu'], d['T'][0]
    if i == 5:          # P6 / P7: P1 at a temperature a fraction of a kelvin away (a cache keyed on temperature must tell them apart)
        return d['x'][0], d['T'][0] + NEAR_DT[0]
    if i == 6:
        return d['x'][0], d['T'][0] + NEAR_DT[1]
    return d['x'][i % 2], d['T'][i // 2]


def prec_phase(db, sym_parts, default_index=0):
    d = DBS[db]
    for p in sym_parts:
        if p.startswith('ph'):
            return d['phases'][1 + int(p[2:])]
    return d['phases'][1 + default_index]


# ------------------------------------------------------------------------------------------------------
# executing one query symbol

class Args:
    """Keeps the argument arrays handed to the code under test and a private copy of each."""

    def __init__(self):
        self.items = []

    def arr(self, name, value):
        a = np.array(value, dtype=np.float64)
        self.items.append((name, a, a.copy()))
        return a

    def mutated(self):
        out = []
        for name, a, c in self.items:
            if a.shape != c.shape or a.tobytes() != c.tobytes():
                out.append((name, c.tolist(), a.tolist()))
        return out


def _xT(db, form, args):
    """Argument forms: 'P<i>' natural scalar form, 'arr1' one-point arrays, 'arr3' three-point arrays."""
    binary = DBS[db]['kind'] == 'binary'
    if form.startswith('P'):
        x, T = point(db, form[1:])
        if binary:
            return float(x), float(T), [form]
        return args.arr('x', x), float(T), [form]
    if form == 'arr1':
        x, T = point(db, 2)
        return args.arr('x', [x]), args.arr('T', [T]), ['P2']
    if form == 'arr3':
        ps = [point(db, i) for i in (1, 2, 3)]
        return args.arr('x', [p[0] for p in ps]), args.arr('T', [p[1] for p in ps]), ['P1', 'P2', 'P3']
    if form == 'arr3T1':       # x array, scalar temperature broadcast
        ps = [point(db, i) for i in (1, 2)]
        return args.arr('x', [ps[0][0], ps[1][0], ps[0][0]]), float(ps[0][1]), ['P1', 'P2', 'P1']
    raise KeyError(form)


def _f(a):
    """float array of an answer component; None (no result) -> NaN."""
    a = np.asarray(a)
    if a.dtype == object:
        a = np.array([np.nan if v is None else v for v in a.ravel()], dtype=float).reshape(a.shape)
    return np.asarray(a, dtype=np.float64)


def set_method(th, method):
    """The public setter is called only when the method really changes (a setter that invalidates caches must not
    hide the cached paths from the exploration); the harness keeps its own note of the current method."""
    if getattr(th, '_c09_method', 'tangent') != method:
        th.setDrivingForceMethod(method)
        th._c09_method = method


def reset(th):
    """Start of a history: the configuration of a fresh object (default method) and empty caches, through the
    public API only."""
    set_method(th, 'tangent')
    if getattr(th, '_c09_icm', 'equilibrium') != 'equilibrium':
        th.setInterfacialMethod('equilibrium')
        th._c09_icm = 'equilibrium'
    th.clearCache()


def execute(th, db, sym):
    """Runs one query symbol on th.  Returns (parts, mutated_args, label).
    parts = [(name, tolerance class, ndarray)]"""
    p = sym.split('|')
    kind = p[0]
    args = Args()
    rc = ('drop' in p)
    parts = []
    if kind == 'clear':
        th.clearCache()
        return [], [], 'clear'
    if kind == 'df':
        method, form = p[1], p[2]
        ph = prec_phase(db, p, (int(form[1:]) - 1) % (len(DBS[db]['phases']) - 1) if form.startswith('P') else 0)
        set_method(th, method)
        x, T, _ = _xT(db, form, args)
        dg, xb = th.getDrivingForce(x, T, precPhase=ph, removeCache=rc)
        ecls = {'tangent': 'energy', 'approximate': 'energy', 'sampling': 'samp', 'curvature': 'curv'}[method]
        ccls = 'samp' if method == 'sampling' else 'comp'
        parts = [('dg', ecls, _f(dg)), ('xP', ccls, _f(xb))]
    elif kind == 'ic':          # binary interfacial composition
        Tf, gf = p[1], p[2]
        d = DBS[db]
        T = {'T1': d['T'][0], 'T2': d['T'][1]}.get(Tf)
        if Tf == 'Tarr':
            T = args.arr('T', [d['T'][0], d['T'][1], d['T'][0]])
        elif Tf == 'Tsame':
            T = args.arr('T', [d['T'][0]] * 3)
        if gf == 'g0':
            g = 0
        elif gf == 'gs':
            g = float(d['g'][1])
        elif gf == 'garr':
            g = args.arr('gExtra', d['g'])
        elif gf == 'grev':
            g = args.arr('gExtra', d['g'][::-1])
        # interfacial-composition method of the object: 'equilibrium' (default) or the first-order 'curvature' (token curvm)
        icm = 'curvature' if 'curvm' in p else 'equilibrium'
        if getattr(th, '_c09_icm', 'equilibrium') != icm:
            th.setInterfacialMethod(icm)
            th._c09_icm = icm
        xm, xp = th.getInterfacialComposition(T, g)
        ccls = 'curv' if icm == 'curvature' else 'comp'
        parts = [('xM', ccls, _f(xm)), ('xP', ccls, _f(xp))]
    elif kind == 'ic3':         # multicomponent interfacial composition (global equilibrium with Gibbs-Thomson)
        x, T, _ = _xT(db, p[1], args)
        g = args.arr('gExtra', DBS[db]['g']) if p[2] == 'garr' else float(DBS[db]['g'][1])
        xm, xp = th.getInterfacialComposition(x, T, g)
        parts = [('xM', 'comp', _f(xm)), ('xP', 'comp', _f(xp))]
    elif kind in ('curv', 'growth', 'imp'):
        form = p[1]
        ph = prec_phase(db, p, (int(form[1:]) - 1) % (len(DBS[db]['phases']) - 1))
        x, T, _ = _xT(db, form, args)
        if kind == 'curv':
            # token sd: let the method search for the two-phase field along the driving-force direction (what the surrogate
            # training does at points whose equilibrium is single phase)
            c = th.curvatureFactor(x, T, precPhase=ph, removeCache=rc, computeSearchDir=True) if 'sd' in p else \
                th.curvatureFactor(x, T, precPhase=ph, removeCache=rc)
            if c is None:
                parts = [('none', 'energy', np.array([np.nan]))]
            else:
                parts = [('dc', 'curv', _f(c.dc)), ('mc', 'curv', _f(c.mc)), ('gba', 'curv', _f(c.gba)),
                         ('beta', 'curv', _f(c.beta)), ('c_eq_alpha', 'comp', _f(c.c_eq_alpha)),
                         ('c_eq_beta', 'comp', _f(c.c_eq_beta))]
        elif kind == 'growth':
            R = args.arr('R', [0.5e-9, 1e-9, 2e-9])
            gE = args.arr('gExtra', [2000.0, 1000.0, 500.0])
            gr = th.getGrowthAndInterfacialComposition(x, T, 900.0, R, gE, precPhase=ph, removeCache=rc)
            if gr is None:
                parts = [('none', 'energy', np.array([np.nan]))]
            else:
                parts = [('growth_rate', 'curv', _f(gr.growth_rate)), ('c_alpha', 'curv', _f(gr.c_alpha)),
                         ('c_beta', 'curv', _f(gr.c_beta)), ('c_eq_alpha', 'comp', _f(gr.c_eq_alpha)),
                         ('c_eq_beta', 'comp', _f(gr.c_eq_beta))]
        else:
            b = th.impingementFactor(x, T, precPhase=ph, removeCache=rc)
            parts = [('beta', 'curv', _f(b))]
    elif kind in ('dnkj', 'tracer'):
        x, T, _ = _xT(db, p[1], args)
        fn = th.getInterdiffusivity if kind == 'dnkj' else th.getTracerDiffusivity
        parts = [(kind, 'diff', _f(fn(x, T, removeCache=rc)))]
    else:
        raise KeyError(sym)
    return parts, args.mutated(), kind


def pack(parts):
    return [[n, c, a.ravel().tolist(), list(a.shape)] for n, c, a in parts]


def unpack(packed):
    return [(n, c, np.array(v, dtype=np.float64).reshape(s)) for n, c, v, s in packed]


def compare(db, got, ref, what):
    """Differences between two answers beyond tolerance -> list of text."""
    out = []
    if [g[0] for g in got] != [r[0] for r in ref]:
        return ['%s: answer structure %r vs %r' % (what, [g[0] for g in got], [r[0] for r in ref])]
    for (n, c, a), (_, _, b) in zip(got, ref):
        if a.shape != b.shape:
            out.append('%s: %s shape %r vs %r' % (what, n, a.shape, b.shape))
            continue
        if np.array_equal(np.isnan(a), np.isnan(b)) and not np.any(np.isnan(a)):
            rt, at = tol(db, c)
            scale = float(np.max(np.abs(b))) if b.size else 0.0
            err = float(np.max(np.abs(a - b))) if b.size else 0.0
            if err > rt * scale + at:
                out.append('%s: %s differs by %.3g (relative to max |ref| %.3g: %.2e; allowed %.1e rel + %.1e abs): %s vs %s'
                           % (what, n, err, scale, err / scale if scale else float('inf'), rt, at,
                              np.array2string(a.ravel()[:4], precision=12), np.array2string(b.ravel()[:4], precision=12)))
        elif not np.array_equal(np.isnan(a), np.isnan(b)):
            out.append('%s: %s NaN pattern differs: %s vs %s' % (what, n, a.ravel()[:4], b.ravel()[:4]))
    return out


def maxrel(got, ref):
    m = 0.0
    for (n, c, a), (_, _, b) in zip(got, ref):
        if a.shape == b.shape and b.size and not np.any(np.isnan(a)) and not np.any(np.isnan(b)):
            s = float(np.max(np.abs(b)))
            if s:
                m = max(m, float(np.max(np.abs(a - b))) / s)
    return m


def bits(parts):
    return b''.join(a.tobytes() for _, _, a in parts)


def cache_label(th, db, sym):
    """Label of the cache the last query will start from (only used to group violation signatures by mechanism;
    the oracle never looks at private state)."""
    p = sym.split('|')
    try:
        if p[0] == 'df':
            form = p[2]
            ph = prec_phase(db, p, (int(form[1:]) - 1) % (len(DBS[db]['phases']) - 1) if form.startswith('P') else 0)
            c = th._compset_cache_df.get(ph)
            if c is None:
                return 'cold'
            return 'warm-by-tangent' if len(c) == 1 else 'warm-by-eq'
        if p[0] in ('curv', 'growth', 'imp'):
            ph = prec_phase(db, p, (int(p[1][1:]) - 1) % (len(DBS[db]['phases']) - 1))
            return 'cold' if th._compset_cache_curvature.get(ph) is None else 'warm'
        if p[0] in ('dnkj', 'tracer'):
            return 'cold' if th._diffusivity_cache.get(th.phases[0]) is None else 'warm'
    except Exception:
        return 'unknown'
    return 'none'


def sym_kind(sym):
    p = sym.split('|')
    if p[0] == 'df':
        return 'df-' + p[1]
    if p[0] == 'ic':
        # the temperature form selects the code path (one equilibrium for all Gibbs-Thomson energies / one per entry)
        return 'ic-' + {'T1': 'Tscalar', 'T2': 'Tscalar', 'Tsame': 'Tuniform', 'Tarr': 'Tarray'}[p[1]] + \
            ('-garray' if p[2] in ('garr', 'grev') else '-gscalar') + ('-curvature-method' if 'curvm' in p else '')
    return p[0]


# ------------------------------------------------------------------------------------------------------
# stage fresh: reference answers on truly fresh objects

def run_fresh(case):
    db, sym = case['db'], case['sym']
    th = build(db)
    viol = []
    parts, mut, kind = execute(th, db, sym)
    for name, before, after in mut:
        viol.append({'sig': 'argmut/%s/%s/%s' % (db, sym_kind(sym), name),
                     'msg': 'fresh object, %s: argument %s changed from %r to %r' % (sym, name, before, after)})
    bad = [n for n, c, a in parts if np.any(np.isnan(a))]
    if bad and '|P5|' in sym and sym.startswith('curv'):
        bad = []          # far inside the single-phase region "no result" (None) is a legitimate answer of the curvature query
    if bad:
        raise RuntimeError('reference point not converging on the fresh object: %s %s %r' % (db, sym, bad))
    for n, c, a in parts:
        if n in ('xM', 'xP') and sym.startswith('ic') and np.any(a < 0):
            raise RuntimeError('interfacial composition unstable at reference point: %s %s' % (db, sym))
        if n == 'c_eq_alpha' and float(np.min(a)) < DBS[db]['yeq']:
            raise RuntimeError('yeq bound of %s too large: equilibrium matrix composition %r' % (db, a))
    if sym.startswith('df') and '|P5|' in sym:
        if not float(parts[0][2].ravel()[0]) < 0:
            raise RuntimeError('reference point P5 not undersaturated: %s %s' % (db, sym))
    elif sym.startswith('df') and float(parts[0][2].ravel()[0]) <= 0:
        raise RuntimeError('reference point not supersaturated: %s %s' % (db, sym))
    return {'viol': viol, 'states': 1, 'transitions': 1, 'outcome': sym_kind(sym), 'info': {'answer': pack(parts)}}


def reference(db, sym):
    key = db + '::' + sym
    if key not in REF:
        # replay in a fresh process / worker forked before the references existed: compute it here, same recipe
        r = run_fresh({'db': db, 'sym': sym})
        REF[key] = r['info']['answer']
    return unpack(REF[key])


# ------------------------------------------------------------------------------------------------------
# stage histories

def run_history(case):
    db, hist = case['db'], list(case['hist'])
    verbose = os.environ.get('VERIF_REPLAY_VERBOSE')
    th = longlived(db)
    reset(th)
    viol = []
    nq = 0
    htxt = ','.join(hist)
    for s in hist[:-1]:
        try:
            execute(th, db, s)
            nq += 1
        except Exception as e:
            viol.append({'sig': 'hist/%s/%s/exception-in-prefix' % (db, sym_kind(s)),
                         'msg': '%s: history %s: %s: %s' % (db, htxt, type(e).__name__, e)})
            return {'viol': viol, 'states': 1, 'transitions': nq, 'outcome': 'exception'}
    last = hist[-1]
    kind = sym_kind(last)
    if last.startswith('df|'):
        set_method(th, last.split('|')[1])      # the switch belongs to the history; the label below describes the
        #                                         cache the query itself starts from
    label = cache_label(th, db, last)
    sigbase = 'hist/%s/%s/cache=%s' % (db, kind, label)
    ref = reference(db, last)
    try:
        r1, mut1, _ = execute(th, db, last)
        r2, mut2, _ = execute(th, db, last)
        nq += 2
        r3 = None
        if 'drop' in last.split('|') or last.startswith('ic'):
            # the query left no cache behind (removeCache=True) or uses none: a third call performs the same
            # operations as the second one
            r3, _, _ = execute(th, db, last)
            nq += 1
    except Exception as e:
        viol.append({'sig': sigbase + '/exception', 'msg': '%s: history %s: %s: %s' % (db, htxt, type(e).__name__, e)})
        return {'viol': viol, 'states': 1, 'transitions': nq, 'outcome': 'exception'}
    d1 = compare(db, r1, ref, 'last query vs fresh object')
    d2 = compare(db, r2, r1, 'repeated call vs first call')
    if d1:
        viol.append({'sig': sigbase + '/differs-from-fresh', 'msg': '%s: history %s: %s' % (db, htxt, d1[0])})
    elif d2:        # (a history whose answer is already off is reported once)
        viol.append({'sig': sigbase + '/repeat-differs', 'msg': '%s: history %s: %s' % (db, htxt, d2[0])})
    if r3 is not None and bits(r3) != bits(r2):
        viol.append({'sig': 'hist/%s/%s/repeat-not-bit-identical' % (db, kind),
                     'msg': '%s: history %s: third call differs from second in the last bits (max rel %.2e) although '
                            'no cache is involved' % (db, htxt, maxrel(r3, r2))})
    for name, before, after in (mut1 or mut2):
        viol.append({'sig': 'argmut/%s/%s/%s' % (db, kind, name),
                     'msg': '%s: history %s: argument %s changed from %r to %r' % (db, htxt, name, before, after)})
    if verbose:
        print('history', htxt, 'label', label, 'maxrel vs fresh %.3e' % maxrel(r1, ref), 'repeat %.3e' % maxrel(r2, r1))
    return {'viol': viol, 'states': 1, 'transitions': nq, 'traces': 1,
            'outcome': '%s/%s' % (kind, label), 'nontrivial': len(hist) > 1,
            'info': {'dev_fresh': maxrel(r1, ref), 'dev_repeat': maxrel(r2, r1)}}


# ------------------------------------------------------------------------------------------------------
# stage batching: array evaluation == point-wise evaluation

def run_batching(case):
    db, sym, rows = case['db'], case['sym'], case['rows']
    th = longlived(db)
    reset(th)
    viol = []
    try:
        parts, mut, kind = execute(th, db, sym)
    except Exception as e:
        return {'viol': [{'sig': 'batch/%s/%s/exception' % (db, sym_kind(sym)),
                          'msg': '%s %s: %s: %s' % (db, sym, type(e).__name__, e)}], 'outcome': 'exception'}
    for name, before, after in mut:
        viol.append({'sig': 'argmut/%s/%s/%s' % (db, sym_kind(sym), name),
                     'msg': '%s %s: argument %s changed from %r to %r' % (db, sym, name, before, after)})
    for i, rsym in enumerate(rows):
        ref = reference(db, rsym)
        got = []
        for (n, c, a), (_, _, b) in zip(parts, ref):
            if len(rows) == 1 and a.shape == b.shape:
                a = a.reshape((1,) + a.shape)       # the API squeezes one-point arrays; values are compared
            if a.shape[:1] != (len(rows),):
                viol.append({'sig': 'batch/%s/%s/shape' % (db, sym_kind(sym)),
                             'msg': '%s %s: %s has shape %r for %d points' % (db, sym, n, a.shape, len(rows))})
                got = None
                break
            got.append((n, c, np.asarray(a[i]).reshape(b.shape) if np.asarray(a[i]).size == b.size else np.asarray(a[i])))
        if got is None:
            break
        for d in compare(db, got, ref, 'row %d of the array call vs point-wise call %s' % (i, rsym)):
            viol.append({'sig': 'batch/%s/%s/row-differs' % (db, sym_kind(sym)), 'msg': '%s %s: %s' % (db, sym, d)})
            break
    return {'viol': viol, 'states': len(rows), 'transitions': 1, 'outcome': sym_kind(sym)}


# ------------------------------------------------------------------------------------------------------
# alphabets

def df_alphabet(method):
    return ['df|%s|P%d|keep' % (method, i) for i in (1, 2, 3, 4, 5)] + ['df|%s|P1|drop' % method, 'df|%s|P3|drop' % method,
                                                                        'clear']


def near_alphabet(method):
    return ['df|%s|P%d|keep' % (method, i) for i in (1, 6, 7)] + ['clear']


def mixed_alphabet(db, quick):
    d = DBS[db]
    a = ['df|tangent|P1|keep', 'df|tangent|P4|keep', 'df|tangent|P2|drop', 'df|tangent|P5|keep',
         'df|approximate|P1|keep', 'df|approximate|P3|drop', 'df|sampling|P2|keep', 'df|curvature|P4|keep']
    if d['kind'] == 'binary':
        a += ['ic|T1|g0', 'ic|T2|garr', 'ic|T1|garr|curvm'] + ([] if quick else ['ic|Tarr|grev'])
        a += ['dnkj|P1|keep', 'dnkj|arr3|drop', 'tracer|P3|keep', 'tracer|arr1|drop']
    else:
        a += ['curv|P1|keep', 'curv|P3|drop', 'curv|P5|keep|sd', 'growth|P2|keep', 'imp|P4|keep',
              'dnkj|P1|keep', 'dnkj|arr3|drop', 'tracer|arr1|keep']
        if db == 'ni':
            a += ['ic3|P1|garr']
    return a + ['clear']


def batching_cases(db):
    """(array symbol, [point-wise symbols])"""
    d = DBS[db]
    out = []
    for m in METHODS:
        out.append(('df|%s|arr3|drop|ph0' % m, ['df|%s|P%d|drop|ph0' % (m, i) for i in (1, 2, 3)]))
    out.append(('df|tangent|arr1|drop|ph0', ['df|tangent|P2|drop|ph0']))
    for k in ('dnkj', 'tracer'):
        out.append(('%s|arr3|drop' % k, ['%s|P%d|drop' % (k, i) for i in (1, 2, 3)]))
        out.append(('%s|arr3|keep' % k, ['%s|P%d|drop' % (k, i) for i in (1, 2, 3)]))
        out.append(('%s|arr1|drop' % k, ['%s|P2|drop' % k]))
    if d['kind'] == 'binary':
        out.append(('df|tangent|arr3T1|drop', ['df|tangent|P1|drop', 'df|tangent|P2|drop', 'df|tangent|P1|drop']))
        out.append(('dnkj|arr3T1|drop', ['dnkj|P1|drop', 'dnkj|P2|drop', 'dnkj|P1|drop']))
    return out


def ic_batching_cases(db):
    return [('ic|T1|garr', ['ic|T1|g0', 'ic|T1|gs', None]), ('ic|Tsame|garr', ['ic|T1|g0', 'ic|T1|gs', None]),
            ('ic|Tarr|garr', ['ic|T1|g0', 'ic|T2|gs', None]),
            ('ic|T1|garr|curvm', ['ic|T1|g0|curvm', 'ic|T1|gs|curvm', None]), ('ic|Tarr|garr|curvm', ['ic|T1|g0|curvm', 'ic|T2|gs|curvm', None])]


def run_ic_batching(case):
    """Binary interfacial composition: array of Gibbs-Thomson energies vs one call per value."""
    db, sym, rows = case['db'], case['sym'], case['rows']
    th = longlived(db)
    reset(th)
    viol = []
    parts, mut, _ = execute(th, db, sym)
    for name, before, after in mut:
        viol.append({'sig': 'argmut/%s/%s/%s' % (db, sym_kind(sym), name),
                     'msg': '%s %s: argument %s changed from %r to %r' % (db, sym, name, before, after)})
    for i, rsym in enumerate(rows):
        if rsym is None:
            continue
        ref = reference(db, rsym)
        got = [(n, c, np.asarray(a[i]).reshape(b.shape)) for (n, c, a), (_, _, b) in zip(parts, ref)]
        for dtxt in compare(db, got, ref, 'entry %d of the array call vs scalar call %s' % (i, rsym)):
            viol.append({'sig': 'batch/%s/%s/row-differs' % (db, sym_kind(sym)), 'msg': '%s %s: %s' % (db, sym, dtxt)})
            break
    return {'viol': viol, 'states': len(rows), 'transitions': 1, 'outcome': sym_kind(sym)}


# ------------------------------------------------------------------------------------------------------
# HashTable: E2 exploration against a reference model written from the statement

# lattice of (composition vector, temperature); the default precision is 4 digits.
#   A/B  same key for s<=4, different for s>=5        (x differs in the 5th digit)
#   A/C  different key for s>=4                        (x on the other side of the 4-digit boundary)
#   A/D  temperatures 1000 / 1200 K: different key at every precision
#   A/E  temperature differs in the 5th decimal: same key for s<=4
HT_POINTS = {
    'A': ([0.12341], 1000.0), 'B': ([0.12349], 1000.0), 'C': ([0.12351], 1000.0),
    'D': ([0.12341], 1200.0), 'E': ([0.12341], 1000.00004),
    'F': ([0.12341, 0.30001], 1000.0), 'G': ([0.12341, 0.30009], 1000.0), 'H': ([0.12341, 0.30001], 1200.0),
    # A/I  same whole kelvin, temperature differs in the first decimal: different key at every precision s >= 1
    #      (a key that truncates the temperature to whole kelvin serves A's value for I: seeded change s09a)
    'I': ([0.12341], 1000.4),
}


def ht_key(name, s):
    """The key the statement talks about: every component and the temperature truncated at s decimal digits,
    as exact Python integers (the product is the same IEEE double product the implementation forms)."""
    x, T = HT_POINTS[name]
    return tuple(int(math.floor(float(v) * float(10 ** s))) for v in list(x) + [T])


def ht_ops(points, sens):
    ops = []
    for p in points:
        ops.append('add:' + p)
        ops.append('get:' + p)
    ops += ['enable:0', 'enable:1', 'clear']
    ops += ['sens:%d' % s for s in sens]
    return ops


def ht_replay(hist):
    """Replays a history on a fresh real HashTable and on the reference model; returns (table, model, violations of
    the last operation, outcome of the last operation)."""
    h = HashTable()
    model = {'on': True, 's': 4, 'added': [], 'added_off': []}      # added: (point name, token) since the last clear
    viol, outcome = [], None
    for k, op in enumerate(hist):
        lastop = (k == len(hist) - 1)
        name, _, arg = op.partition(':')
        v = []
        if name == 'add':
            x, T = HT_POINTS[arg]
            token = 'v%d:%s' % (k, arg)
            before = dict(h.cachedData)
            h.addToHashTable(np.array(x, dtype=np.float64), T, token)
            if model['on']:
                model['added'].append((arg, token))
                outcome = 'add'
            else:
                outcome = 'add-disabled'
                model['added_off'].append((arg, token))
                if h.cachedData != before:
                    v.append({'sig': 'hashtable/disabled/add-stores',
                              'msg': 'history %s: addToHashTable stored a value although caching was switched off'
                                     % ','.join(hist[:k + 1])})
        elif name == 'get':
            x, T = HT_POINTS[arg]
            got = h.retrieveFromHashTable(np.array(x, dtype=np.float64), T)
            s = model['s']
            if got is None:
                outcome = 'miss'
            elif not model['on']:
                outcome = 'hit-disabled'
                v.append({'sig': 'hashtable/disabled/retrieve-hits',
                          'msg': 'history %s: retrieveFromHashTable returned %r although caching was switched off'
                                 % (','.join(hist[:k + 1]), got)})
            else:
                src = got.split(':')[1] if isinstance(got, str) and ':' in got else None
                if (src, got) in model['added_off']:
                    outcome = 'hit-stored-while-disabled'
                    v.append({'sig': 'hashtable/disabled/add-stores/served-later',
                              'msg': 'history %s: returned %r which was handed to addToHashTable while caching was '
                                     'switched off' % (','.join(hist[:k + 1]), got)})
                elif src is None or (src, got) not in model['added']:
                    outcome = 'hit-unknown'
                    v.append({'sig': 'hashtable/hit/unknown-value',
                              'msg': 'history %s: returned %r which was not added since the last clear'
                                     % (','.join(hist[:k + 1]), got)})
                elif ht_key(src, s) != ht_key(arg, s):
                    ks, kq = ht_key(src, s), ht_key(arg, s)
                    which = 'T' if ks[-1] != kq[-1] else 'x'
                    outcome = 'false-hit'
                    v.append({'sig': 'hashtable/false-hit/s=%d/%s-differs' % (s, which),
                              'msg': 'history %s: value cached for %s=%r (key %r at %d digits) returned for %s=%r (key %r)'
                                     % (','.join(hist[:k + 1]), src, HT_POINTS[src], ks, s, arg, HT_POINTS[arg], kq)})
                else:
                    outcome = 'hit'
        elif name == 'enable':
            h.enableCaching(bool(int(arg)))
            model['on'] = bool(int(arg))
            outcome = 'enable' + arg
        elif name == 'clear':
            h.clearCache()
            model['added'] = []
            model['added_off'] = []
            outcome = 'clear'
            if len(h.cachedData) != 0:
                v.append({'sig': 'hashtable/clear/not-empty', 'msg': 'history %s' % ','.join(hist[:k + 1])})
        elif name == 'sens':
            h.setHashSensitivity(int(arg))
            model['s'] = int(arg)
            outcome = 'sens'
        if lastop:
            viol = v
    return h, model, viol, outcome


def ht_canon(h, model):
    return repr((bool(h._cache) if h._cache is not None else None, int(h.hash_sensitivity),
                 sorted((repr(k), str(v)) for k, v in h.cachedData.items()), model['on'], model['s'],
                 sorted(model['added']), sorted(model['added_off'])))


def ht_expand(case):
    base, hist = case['base'], list(case['hist'])
    ops = ht_ops(base['points'], base['sens'])
    h, model, viol, _ = ht_replay(hist)
    succ = []
    for op in ops:
        try:
            h2, m2, v2, oc = ht_replay(hist + [op])
            succ.append({'op': op, 'canon': ht_canon(h2, m2), 'viol': v2, 'outcome': oc})
        except Exception as e:
            succ.append({'op': op, 'canon': 'exc', 'dead': True, 'outcome': 'exception',
                         'viol': [{'sig': 'hashtable/exception/%s' % op.split(':')[0],
                                   'msg': 'history %s: %s: %s' % (','.join(hist + [op]), type(e).__name__, e)}]})
    return {'canon': ht_canon(h, model), 'viol': [], 'succ': succ}


# ------------------------------------------------------------------------------------------------------
# SinglePhaseModel with the cache on / off

def _sp_model(therm, tmode, profile, cache, s):
    m = SinglePhaseModel([-1e-3, 1e-3], 6, ['NI', 'CR', 'AL'], ['FCC_A1'], thermodynamics=therm)
    if profile == 'lin':
        m.setCompositionLinear(0.05, 0.12, 'CR')
        m.setCompositionLinear(0.10, 0.04, 'AL')
    else:
        # V-shaped: cells i and N-1-i have the same composition (to all digits a key can hold) but, with the
        # temperature gradient, different temperatures
        m.setCompositionFunction(lambda z: 0.05 + 60.0 * np.abs(z), 'CR')
        m.setCompositionFunction(lambda z: 0.10 - 50.0 * np.abs(z), 'AL')
    if tmode == 'iso':
        m.setTemperature(1473.15)
    else:
        m.setTemperatureFunction(lambda z, t: 1373.15 + 1e5 * (np.asarray(z) + 1e-3))   # 1373 .. 1573 K across the mesh
    m.setHashSensitivity(s)
    m.useCache(cache)
    m.setup()
    return m


def run_singlephase(case):
    """A sequence of profiles, each shifted by less than the cache resolution (so that a cache that is active
    serves stale entries), is evaluated through the public getFluxes() and, point by point, directly from the
    thermodynamics object."""
    s, tmode, profile, cache = case['s'], case['tmode'], case['profile'], case['cache']
    if 'sp' not in _OBJ:
        _OBJ['sp'] = GeneralThermodynamics(datasets.NICRAL_TDB, ['NI', 'CR', 'AL'], ['FCC_A1'])
    therm = _OBJ['sp']
    therm.clearCache()
    m = _sp_model(therm, tmode, profile, cache, s)
    viol = []
    x0 = np.array(m.x, copy=True)
    nsteps = 3
    q = 10.0 ** (-s)
    delta = 0.3 * q
    states = 0
    worst = 0.0
    worst_bound = 0.0
    sig_seen = set()

    def D(x, T):
        return np.asarray(therm.getInterdiffusivity(x, T, phase='FCC_A1'))
    for k in range(nsteps):
        xk = x0 + k * delta
        m.x = np.array(xk, copy=True)
        f, _ = m.getFluxes()
        f = np.array(f, copy=True)
        # direct evaluation, no cache anywhere
        T = m.temperatureParameters(m.z, 0.0)
        d = np.array([D(xk[:, i], T[i]) for i in range(m.N)])
        dxdz = (xk[:, 1:] - xk[:, :-1]) / m.dz
        fref = np.zeros_like(f)
        for j in range(m.N - 1):
            fref[:, j + 1] = -((d[j] + d[j + 1]) / 2) @ dxdz[:, j]
        scale = float(np.max(np.abs(fref)))
        err = float(np.max(np.abs(f - fref))) / scale
        worst = max(worst, err)
        states += m.N
        if not cache:
            # cache off: the model must use the diffusivity of the very composition (same calls in the same order;
            # 1e-8 is tol('diff'))
            if err > 1e-8 and 'stale' not in sig_seen:
                sig_seen.add('stale')
                viol.append({'sig': 'singlephase/cache-off/stale-diffusivity',
                             'msg': 's=%d %s %s: flux evaluation %d with useCache(False) differs from the direct evaluation '
                                    'by %.2e (relative to the largest flux)' % (s, tmode, profile, k, err)})
            if len(m.hashTable.cachedData) != 0 and 'stored' not in sig_seen:
                sig_seen.add('stored')
                viol.append({'sig': 'singlephase/cache-off/entries-stored',
                             'msg': 's=%d %s %s: %d entries in the table after a flux evaluation with useCache(False)'
                                    % (s, tmode, profile, len(m.hashTable.cachedData))})
        else:
            # cache on: an entry may only be served for a composition / temperature within 10^-s per component, so
            # the flux may differ by at most the variation of D over that box (measured here on the fresh
            # thermodynamics object at the box faces), times 2 for curvature of D inside the box
            var = np.zeros_like(d)
            for i in range(m.N):
                for step in ([q, 0.0, 0.0], [-q, 0.0, 0.0], [0.0, q, 0.0], [0.0, -q, 0.0], [0.0, 0.0, q], [0.0, 0.0, -q]):
                    di = D(xk[:, i] + np.array(step[:2]), T[i] + step[2])
                    var[i] = np.maximum(var[i], np.abs(di - d[i]))
            var = 3 * var        # three coordinates can be off at the same time
            fb = np.zeros_like(f)
            for j in range(m.N - 1):
                fb[:, j + 1] = ((var[j] + var[j + 1]) / 2) @ np.abs(dxdz[:, j])
            bound = 2 * float(np.max(fb)) / scale + 1e-8
            worst_bound = max(worst_bound, bound)
            if err > bound and 'q' not in sig_seen:
                sig_seen.add('q')
                viol.append({'sig': 'singlephase/cache-on/error-exceeds-quantisation/s=%d/T=%s' % (s, tmode),
                             'msg': 's=%d %s %s: flux evaluation %d with the cache differs from the direct evaluation by %.2e '
                                    '> %.2e allowed by %d digits' % (s, tmode, profile, k, err, bound, s)})
    return {'viol': viol, 'states': states, 'transitions': nsteps, 'outcome': 'cache=%s' % cache,
            'info': {'worst_rel_flux_error': worst, 'bound': worst_bound}}


# ------------------------------------------------------------------------------------------------------

def histories(alphabet, depth):
    out = []
    for k in range(1, depth + 1):
        for h in itertools.product(alphabet, repeat=k):
            if h[-1] == 'clear':
                continue            # nothing to compare after a final clearCache()
            out.append(list(h))
    return out


def run(ctx):
    quick = ctx.quick
    depth = 3 if quick else 4
    dbs = list(DBS)
    ctx.rule = ('all query histories of length <= depth on one long-lived thermodynamics object per database; '
                'last answer vs the same query on a fresh object, repeat, argument arrays; HashTable operation '
                'histories by BFS with canonical-state dedup against a reference model; non-trivial = history with '
                'at least one query before the checked one')
    ctx.bounds = {'history_depth': depth, 'databases': {k: {kk: v[kk] for kk in ('elements', 'phases', 'x', 'T', 'g', 'pdens')}
                                                       for k, v in DBS.items()},
                  'points': 'P1=(x1,T1) P2=(x2,T1) P3=(x1,T2) P4=(x2,T2) P5=(xu,T1) undersaturated, driving-force queries only; P6=(x1,T1+0.25K) P7=(x1,T1-0.01K) stage near-T-hist',
                  'df_alphabet': df_alphabet('<method>'), 'methods': METHODS,
                  'near_T_alphabet': near_alphabet('<method>'), 'near_T_offsets_K': list(NEAR_DT),
                  'mixed_alphabet': {db: mixed_alphabet(db, quick) for db in dbs},
                  'hashtable_points': HT_POINTS}
    ctx.assumptions = ['points are inside the stable two-phase window where equilibria converge (verified on the fresh '
                       'object; nothing is asserted on the failing-equilibrium path of curvatureFactor)',
                       'agreement is to the convergence tolerance of pycalphad\'s solver (site fractions to 5e-9), see tol()',
                       'the long-lived object is reset with the public clearCache() before each history']

    # ---- symbols needing a fresh reference
    syms = {db: set() for db in dbs}
    for db in dbs:
        for m in METHODS:
            syms[db].update(s for s in df_alphabet(m) if s != 'clear')
            syms[db].update(s for s in near_alphabet(m) if s != 'clear')
        syms[db].update(s for s in mixed_alphabet(db, quick) if s != 'clear')
        for a, rows in batching_cases(db):
            syms[db].update(rows)
        if DBS[db]['kind'] == 'binary':
            for a, rows in ic_batching_cases(db):
                syms[db].update(r for r in rows if r)
    fcases = [{'db': db, 'sym': s} for db in dbs for s in sorted(syms[db])]
    res = ctx.product_run('fresh', 'checks.c09:run_fresh', fcases, chunksize=1)
    for c, r in zip(rotate_like(ctx, fcases), res):
        REF[c['db'] + '::' + c['sym']] = r['info']['answer']
    ctx.close()         # workers forked from now on inherit the reference answers

    # ---- batching
    bcases = []
    for db in dbs:
        for a, rows in batching_cases(db):
            bcases.append({'db': db, 'sym': a, 'rows': rows})
    ctx.product_run('batching', 'checks.c09:run_batching', bcases, chunksize=1)
    icb = [{'db': db, 'sym': a, 'rows': rows} for db in dbs if DBS[db]['kind'] == 'binary' for a, rows in ic_batching_cases(db)]
    ctx.product_run('batching-ic', 'checks.c09:run_ic_batching', icb, chunksize=1)

    # ---- histories
    hcases = []
    for db in dbs:
        for m in METHODS:
            for h in histories(df_alphabet(m), depth):
                hcases.append({'db': db, 'hist': h})
    _summarise(ctx, 'df-hist', ctx.product_run('df-hist', 'checks.c09:run_history', hcases))
    # ---- neighbouring temperatures: the same composition queried at T1, T1 + 0.25 K, T1 - 0.01 K in every order
    ncases = []
    for db in dbs:
        for m in METHODS:
            for h in histories(near_alphabet(m), depth):
                if len(h) > 1:
                    ncases.append({'db': db, 'hist': h})
    _summarise(ctx, 'near-T-hist', ctx.product_run('near-T-hist', 'checks.c09:run_history', ncases))
    mcases = []
    for db in dbs:
        alpha = mixed_alphabet(db, quick)
        for h in histories(alpha, 3):
            mcases.append({'db': db, 'hist': h})
        if not quick:
            # depth 4 over every symbol that leaves a cache behind, plus clearCache (the Workspace-based
            # interfacial-composition queries hold no state, removeCache=True queries end with empty caches; both are
            # covered to depth 3 here and removeCache=True to depth 4 in 'df-hist')
            sub = [s for s in alpha if not s.startswith('ic') and 'drop' not in s.split('|')]
            ctx.bounds.setdefault('mixed_depth4_alphabet', {})[db] = sub
            for h in itertools.product(sub, repeat=4):
                if h[-1] != 'clear':
                    mcases.append({'db': db, 'hist': list(h)})
    _summarise(ctx, 'mixed-hist', ctx.product_run('mixed-hist', 'checks.c09:run_history', mcases))

    # ---- hash table
    if quick:
        base = {'points': ['A', 'B', 'C', 'D', 'F', 'G', 'I'], 'sens': [3, 4, 5, 7]}
        hdepth = 3
    else:
        base = {'points': list(HT_POINTS), 'sens': [1, 2, 3, 4, 5, 6, 7, 8]}
        hdepth = 4
    ctx.bounds['hashtable'] = dict(base, depth=hdepth)
    ctx.bfs('hashtable', 'checks.c09:ht_expand', [], hdepth, base=base)

    # ---- single phase model
    spc = [{'s': s, 'tmode': t, 'profile': pr, 'cache': c} for s in ([3, 4, 7] if quick else [2, 3, 4, 5, 6, 7, 8])
           for t in ('iso', 'grad') for pr in ('lin', 'vee') for c in (False, True)]
    ctx.product_run('singlephase', 'checks.c09:run_singlephase', spc, chunksize=1)


def _summarise(ctx, stage, results):
    """Largest relative deviation (last answer vs fresh, repeat vs first) among the histories that passed, per
    kind of query - shows how far the unchanged behaviour is from the tolerances."""
    worst = {}
    for r in results:
        if r.get('viol') or 'info' not in r:
            continue
        k = str(r.get('outcome')).split('/')[0]
        w = worst.setdefault(k, [0.0, 0.0])
        w[0] = max(w[0], r['info'].get('dev_fresh', 0.0))
        w[1] = max(w[1], r['info'].get('dev_repeat', 0.0))
    ctx.extra.setdefault('max_rel_deviation_of_passing_histories', {})[stage] = \
        {k: {'vs_fresh': v[0], 'repeat': v[1]} for k, v in sorted(worst.items())}


def rotate_like(ctx, cases):
    from mc.core import rotate
    return rotate(cases, ctx.seed)
