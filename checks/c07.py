"""C07 - size-class transport is conservative and bounded.

Full product over small grids: populations x per-face growth fields x nucleation (rate, radius) x step sizes x
dissolution index x bin ratio, on the real PopulationBalanceModel (and GrainGrowthModel, which reuses the
routines), against an independent scalar loop implementation of first-order upwinding.
"""
import itertools

PROPERTY = 'C07'
LEVEL = 'exploration'
np = None


def prepare():
    global np, PopulationBalanceModel, GrainGrowthModel
    import numpy as np
    from kawin.precipitation.PopulationBalance import PopulationBalanceModel
    from kawin.precipitation.coupling.GrainGrowth import GrainGrowthModel


POPS_FULL = [0.0, 0.5, 1.0, 3.0, 1e10, 1e25]
POPS_RED = [0.0, 0.5, 3.0, 1e25]
GRIDS = {'G1': (1e-9, 1e-8), 'G2': (2e-10, 2e-9)}


# ---------------------------------------------------------------- reference (plain loops, written from the maths)
def ref_face_fluxes(bounds, g, psd):
    """Upwind number flux through each of the n+1 faces (positive = towards larger sizes).
    A growing face takes from the class below it, a shrinking face from the class above it; the outermost faces
    can only lose particles out of the grid."""
    n = len(psd)
    F = [0.0] * (n + 1)
    for i in range(n + 1):
        if g[i] > 0 and i >= 1:
            F[i] = g[i] * psd[i - 1] / (bounds[i] - bounds[i - 1])
        elif g[i] < 0 and i <= n - 1:
            F[i] = g[i] * psd[i] / (bounds[i + 1] - bounds[i])
    return F


def ref_limit(F, psd, dt):
    n = len(psd)
    L = list(F)
    for i in range(n + 1):
        if F[i] > 0 and i >= 1:
            cap = psd[i - 1] / dt
            if F[i] > cap:
                L[i] = cap
        elif F[i] < 0 and i <= n - 1:
            cap = psd[i] / dt
            if -F[i] > cap:
                L[i] = -cap
    return L


def ref_nuc_class(bounds, r):
    """Class whose bounds contain r ([lower, upper)); outside the grid: the nearest end class."""
    n = len(bounds) - 1
    if r < bounds[0]:
        return 0
    if r >= bounds[-1]:
        return n - 1
    for k in range(n):
        if bounds[k] <= r < bounds[k + 1]:
            return k
    return n - 1


def ref_dt(bounds, g, psd, diss, ratio, curr):
    n = len(psd)
    m = None
    for i in range(diss, n):
        if psd[i] > 0:
            a = abs(g[i])
            m = a if m is None or a > m else m
    if m is None or m == 0:
        return curr
    return ratio * (bounds[1] - bounds[0]) / m


# ---------------------------------------------------------------- growth fields
def growth_fields(bounds, n, scale, mixed_upto=2):
    """Per-face sign patterns (all 3^(n+1)) with one magnitude, plus physical a(1/R* - 1/R)/R laws with R* below,
    inside each class and above the grid, plus all-zero."""
    out = []
    for pat in itertools.product((-1, 0, 1), repeat=n + 1):
        out.append(('sign' + ''.join('-0+'[p + 1] for p in pat), [p * scale for p in pat]))
    if n <= mixed_upto:
        # unequal magnitudes: every face independently 1x or 10x (patterns with at least one 10x and one non-zero 1x)
        for pat in itertools.product((-10, -1, 0, 1, 10), repeat=n + 1):
            if any(abs(p) == 10 for p in pat) and any(abs(p) == 1 for p in pat):
                out.append(('mag' + ','.join(str(p) for p in pat), [p * scale for p in pat]))
    lo, hi = bounds[0], bounds[-1]
    rstars = [0.5 * lo] + [0.5 * (bounds[k] + bounds[k + 1]) for k in range(n)] + [bounds[1], 2 * hi]
    for j, rs in enumerate(rstars):
        out.append(('phys%d' % j, [scale * lo * lo * (1.0 / rs - 1.0 / b) / b for b in bounds]))
    return out


def nuc_radii(bounds):
    n = len(bounds) - 1
    rr = [('below', 0.5 * bounds[0]), ('zero', 0.0), ('on-first', bounds[0])]
    rr += [('centre%d' % k, 0.5 * (bounds[k] + bounds[k + 1])) for k in range(n)]
    if n > 1:
        rr.append(('on-interior', bounds[1]))
    rr += [('on-last', bounds[-1]), ('above', 2 * bounds[-1])]
    return rr


def close(a, b, scale):
    return abs(a - b) <= 1e-12 * scale + 1e-300


def run_group(case):
    """One (grid, n, first-class population index) group; everything else enumerated inside."""
    gname, n, pops, p0 = case['grid'], case['n'], case['pops'], case['p0']
    lo, hi = GRIDS[gname]
    viol = {}
    nev = 0
    outcomes = set()

    def bad(kind, detail, msg):
        sig = 'pbm/%s/%s' % (kind, detail)
        if sig not in viol and len(viol) < 40:
            viol[sig] = {'sig': sig, 'msg': msg}

    pbm = PopulationBalanceModel(lo, hi, n, max(1, n // 2), 2 * n)
    bounds = [float(b) for b in pbm.PSDbounds]
    dR = bounds[1] - bounds[0]
    gscale = dR  # growth of one class width per second
    fields = growth_fields(bounds, n, gscale, case.get('mixed_upto', 2))
    radii = nuc_radii(bounds)
    rest = list(itertools.product(pops, repeat=n - 1))
    nontriv = 0
    for tail in rest:
        psd_l = [p0] + list(tail)
        psd = np.array(psd_l, dtype=float)
        pmax = max(psd_l) if max(psd_l) > 0 else 1.0
        for fname, g_l in fields:
            g = np.array(g_l, dtype=float)
            gmax = max(abs(x) for x in g_l)
            F = ref_face_fluxes(bounds, g_l, psd_l)
            nontriv += 1 if any(f != 0 for f in F) else 0   # distinct (population, growth) pairs that move particles
            fscale = max([abs(f) for f in F] + [1e-300])
            # ---- getdXdtEuler over nucleation alphabets
            for rate in (0.0, 7.0):
                for rname, r in radii:
                    if rate == 0.0 and rname not in ('below', 'centre0'):
                        continue
                    psd_in, g_in = psd.copy(), g.copy()
                    pbm.PSD = psd.copy()
                    d = pbm.getdXdtEuler(g_in, rate, r, psd_in)
                    nev += 1
                    if psd_in.tobytes() != psd.tobytes() or g_in.tobytes() != g.tobytes():
                        bad('mutated-input', 'getdXdtEuler', 'psd or flux argument modified')
                    k = ref_nuc_class(bounds, r)
                    exp = [F[i] - F[i + 1] + (rate if i == k else 0.0) for i in range(n)]
                    # conservation: sum = J + F0 - Fn, F0 <= 0 <= Fn
                    tot = float(np.sum(d))
                    if not close(tot, rate + F[0] - F[n], n * (fscale + rate)):
                        bad('sum', 'n=%d/%s/rate=%g/%s' % (n, fname, rate, rname),
                            'sum dXdt=%r expected J+F0-Fn=%r psd=%r g=%r' % (tot, rate + F[0] - F[n], psd_l, g_l))
                    okv = all(close(float(d[i]), exp[i], fscale + rate) for i in range(n))
                    if not okv:
                        # separate the nucleation-placement failure from transport failures
                        dn = [float(d[i]) - (F[i] - F[i + 1]) for i in range(n)]
                        placed = [i for i in range(n) if abs(dn[i]) > 1e-9 * max(rate, 1e-300) and rate > 0]
                        if rate > 0 and all(close(float(d[i]) - dn[i], F[i] - F[i + 1], fscale + rate) for i in range(n)) \
                                and placed != [k] and all(close(sum(dn), rate, rate * n) for _ in [0]):
                            bad('nucleation-class', 'n=%d/radius=%s' % (n, rname),
                                'nuclei of radius %r (grid %r..%r) entered class(es) %r, expected class %d' % (r, bounds[0], bounds[-1], placed, k))
                        else:
                            bad('transport', 'n=%d/%s' % (n, fname),
                                'dXdt=%r expected %r psd=%r g=%r rate=%r r=%r' % (d.tolist(), exp, psd_l, g_l, rate, r))
                    outcomes.add('nuc=%s' % rname if rate else 'nonuc')
            # ---- step limit
            for diss in sorted({0, 1 if n > 1 else 0, n - 1}):
                for ratio in (0.4, 0.25):
                    pbm.PSD = psd.copy()
                    g_in = g.copy()
                    lim = pbm.getDTEuler(123.0, g_in, diss, ratio)
                    nev += 1
                    e = ref_dt(bounds, g_l, psd_l, diss, ratio, 123.0)
                    if not close(float(lim), e, abs(e)):
                        bad('dt-limit', 'n=%d/diss=%d/ratio=%g/%s' % (n, diss, ratio, fname),
                            'getDTEuler=%r expected %r psd=%r g=%r' % (lim, e, psd_l, g_l))
                    if g_in.tobytes() != g.tobytes() or pbm.PSD.tobytes() != psd.tobytes():
                        bad('mutated-input', 'getDTEuler', 'growth or PSD modified')
            # ---- correction + non-negativity under the model's own limit
            pbm.PSD = psd.copy()
            lim0 = pbm.getDTEuler(1.0, g, 0, 0.4)
            for mult in (0.5, 1.0, 10.0, 1e3):
                dt = mult * float(lim0)
                for rate, (rname, r) in ((0.0, radii[0]), (7.0, radii[3])):
                    psd_in, g_in = psd.copy(), g.copy()
                    pbm.PSD = psd.copy()
                    pbm.getdXdtEuler(g_in, rate, r, psd_in)
                    dc = pbm.correctdXdtEuler(dt, g_in, rate, r, psd_in)
                    nev += 1
                    if psd_in.tobytes() != psd.tobytes() or g_in.tobytes() != g.tobytes():
                        bad('mutated-input', 'correctdXdtEuler', 'psd or flux argument modified')
                    # ---- property-level oracle for the corrected fluxes (observed through pbm._netFlux, read-only)
                    Fc = [float(v) for v in pbm._netFlux]
                    k = ref_nuc_class(bounds, r)
                    exp = [Fc[i] - Fc[i + 1] + (rate if i == k else 0.0) for i in range(n)]
                    lscale = max([abs(x) for x in F] + [1e-300]) + rate
                    det = 'n=%d/%s/mult=%g' % (n, fname, mult)
                    ctx_msg = 'psd=%r g=%r dt=%r F=%r corrected=%r' % (psd_l, g_l, dt, F, Fc)
                    if not all(close(float(dc[i]), exp[i], lscale) for i in range(n)):
                        bad('corrected-not-conservative', det, 'returned dXdt is not the difference of the corrected face fluxes + nucleation: ' + ctx_msg)
                    tol = 4 * np.finfo(float).eps
                    out = [0.0] * n
                    for i in range(n + 1):
                        if Fc[i] * F[i] < 0 or abs(Fc[i]) > abs(F[i]) * (1 + tol):
                            bad('limiter-changed-sign-or-grew', det, 'face %d: %r -> %r; ' % (i, F[i], Fc[i]) + ctx_msg)
                        donor = (i - 1) if Fc[i] > 0 else (i if Fc[i] < 0 else None)
                        if donor is not None and 0 <= donor < n:
                            if abs(Fc[i]) * dt > psd_l[donor] * (1 + tol):
                                bad('face-carries-more-than-donor', det, 'face %d carries %r*dt > donor class %d holding %r; ' % (i, Fc[i], donor, psd_l[donor]) + ctx_msg)
                            out[donor] += abs(Fc[i])
                        elif donor is not None and Fc[i] != 0:
                            bad('flux-from-outside-grid', det, 'face %d: %r; ' % (i, Fc[i]) + ctx_msg)
                    # a face is only reduced when its donor class would otherwise be over-drawn, and a limited class
                    # ends (numerically) empty through the limited face(s): no spurious or excessive limiting
                    uout = [0.0] * n
                    for i in range(n + 1):
                        donor = (i - 1) if F[i] > 0 else (i if F[i] < 0 else None)
                        if donor is not None and 0 <= donor < n:
                            uout[donor] += abs(F[i])
                    for i in range(n + 1):
                        donor = (i - 1) if F[i] > 0 else (i if F[i] < 0 else None)
                        if donor is None or not (0 <= donor < n):
                            continue
                        if abs(Fc[i]) < abs(F[i]) * (1 - tol):
                            if uout[donor] * dt <= psd_l[donor]:
                                bad('spurious-limiting', det, 'face %d reduced although class %d is not over-drawn; ' % (i, donor) + ctx_msg)
                            elif out[donor] * dt < psd_l[donor] * (1 - 1e-9) and abs(Fc[i]) * dt < psd_l[donor] * (1 - 1e-9):
                                bad('excessive-limiting', det, 'class %d limited below its content; ' % donor + ctx_msg)
                    L = Fc
                    # classes that obey the model's own step limit never become negative
                    if mult <= 1.0:
                        new = psd + dt * dc
                        if np.any(new < -4 * np.finfo(float).eps * pmax):
                            bad('negative-under-own-limit', 'n=%d/%s' % (n, fname),
                                'dt=%g*limit: new=%r psd=%r g=%r' % (mult, new.tolist(), psd_l, g_l))
                    outcomes.add('limited' if L != F else 'unlimited')
    return {'viol': list(viol.values()), 'states': nev, 'transitions': nev, 'traces': nev, 'evaluations': nev,
            'nontrivial_count': nontriv,
            'outcome': ','.join(sorted(outcomes))[:200],
            'info': {'evaluations': nev}}


def run_grain(case):
    """GrainGrowthModel reuses the transport with zero nucleation: same reference, its own growth law."""
    n, z, dist = case['n'], case['z'], case['dist']
    viol = []
    g = GrainGrowthModel(1e-7, 1e-5, n, max(2, n // 2), 2 * n)
    r = g.pbm.PSDsize
    if dist == 'lognormal':
        f = np.exp(-0.5 * (np.log(r / 3e-6) / 0.35) ** 2)
    elif dist == 'narrow':
        f = np.exp(-0.5 * ((r - 4e-6) / 3e-7) ** 2)
    else:
        f = np.exp(-0.5 * ((r - 2e-6) / 4e-7) ** 2) + 0.5 * np.exp(-0.5 * ((r - 6e-6) / 5e-7) ** 2)
    g.LoadDistributionFunction(lambda rr: f)
    g._z = z
    x = [g.pbm.PSD.copy()]
    d = g.getdXdt(0.0, x)[0]
    bounds = [float(b) for b in g.pbm.PSDbounds]
    gr = [float(v) for v in g._growthRate]
    psd_l = [float(v) for v in x[0]]
    F = ref_face_fluxes(bounds, gr, psd_l)
    fs = max(abs(v) for v in F) + 1e-300
    exp = [F[i] - F[i + 1] for i in range(n)]
    sig = 'grain/n=%d/z=%g/%s' % (n, z, dist)
    if not all(close(float(d[i]), exp[i], fs) for i in range(n)):
        viol.append({'sig': sig + '/transport', 'msg': 'dXdt differs from upwind reference'})
    if not close(float(np.sum(d)), F[0] - F[n], n * fs):
        viol.append({'sig': sig + '/sum', 'msg': 'sum %r vs %r' % (float(np.sum(d)), F[0] - F[n])})
    g.setTimeInfo(0.0, 1e9)
    dt = g.getDt([d])
    dx = [d.copy()]
    g.correctdXdt(dt, x, dx)
    new = x[0] + dt * dx[0]
    if np.any(new < -4 * np.finfo(float).eps * float(np.max(x[0]))):
        viol.append({'sig': sig + '/negative-under-own-limit', 'msg': 'grain size class negative after one step of the model\'s own size'})
    if not close(float(np.sum(dx[0])), float(g.pbm._netFlux[0] - g.pbm._netFlux[-1]), n * fs):
        viol.append({'sig': sig + '/corrected-sum', 'msg': 'corrected dXdt does not sum to the end-face fluxes'})
    return {'viol': viol, 'states': 1, 'transitions': 2, 'outcome': 'frozen' if all(v == 0 for v in gr) else 'moving'}


def run(ctx):
    quick = ctx.quick
    ctx.rule = ('full product over grids x populations^n x per-face growth (3^(n+1) sign patterns + physical laws) x nucleation '
                '(rate, radius incl. below/on/above grid) x dt multiples x dissolution index x bin ratio, each against an '
                'independent loop implementation; a group is one (grid, n, first-class population)')
    plan = [(1, POPS_FULL), (2, POPS_FULL), (3, POPS_RED if quick else POPS_FULL), (4, [0.0, 3.0, 1e25] if quick else POPS_RED)]
    if not quick:
        plan.append((6, [0.0, 3.0, 1e25]))
    ctx.bounds = {'plan': [{'n': n, 'populations': p} for n, p in plan], 'grids': GRIDS,
                  'dt_multiples_of_own_limit': [0.5, 1, 10, 1000], 'ratios': [0.4, 0.25]}
    cases = []
    for gname in GRIDS:
        for n, pops in plan:
            if n == 6:
                # 3^7 sign patterns x 3^6 populations: split further by the second class as well
                for p0 in pops:
                    cases.append({'grid': gname, 'n': n, 'pops': pops, 'p0': p0})
            else:
                for p0 in pops:
                    cases.append({'grid': gname, 'n': n, 'pops': pops, 'p0': p0, 'mixed_upto': 2 if quick else 3})
    ctx.product_run('pbm', 'checks.c07:run_group', cases, chunksize=1)
    gc = [{'n': n, 'z': z, 'dist': d} for n in (6, 20, 50) for z in (0.0, 1e4, 2e5, 1e6, 1e8)
          for d in ('lognormal', 'narrow', 'bimodal')]
    ctx.product_run('grain', 'checks.c07:run_grain', gc)
