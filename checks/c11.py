"""C11 - results are equivariant under reordering of elements and of phases.

Exploration (E1 + E3), differential oracle "permuted vs. not permuted" on two executions of the real code.

stage 'elements'   every permutation of the solutes of each shipped ternary database (Ni-Cr-Al, Al-Mg-Si; 2 orders each,
                   the second order of Ni-Cr-Al is a 3-cycle of pycalphad's alphabetical order, so sort and unsort
                   indices differ) x a lattice of (composition, temperature) inside the matrix + precipitate field x
                   {four driving-force methods, interfacial composition, curvature outputs, growth/interfacial
                   composition, interdiffusivity, tracer diffusivity, computeMobility}: the two objects must return the
                   same numbers after the permutation has been applied (1e-8 rel: same equilibrium solved twice; a driving
                   force is measured against max(|DF|, R T) since it passes through zero at the solvus).
stage 'diffusion'  SinglePhaseModel (Ni-Cr-Al, Al-Mg-Si; FCC_A1) and HomogenizationModel (Ni-Cr-Al; FCC_A1 + BCC_A2, the five
                   homogenization functions) on N = 5 nodes, solute order permuted: same time grid, same profiles after
                   permutation.
stage 'phases'     every permutation of 2 and 3 precipitate phases (2 + 6 orders) of a multi-phase PrecipitateModel on the
                   analytic backends (binary and ternary), distinct interfacial energy / molar volume / nucleation site
                   per phase (they travel with the phase: mc.precip.PHASE_PARAMS is keyed by phase name, the site list is
                   permuted with the phases, parent phases are set by name), both iterators, temperature programmes with isothermal and ramp segments,
                   with each step-size constraint switched on alone in turn (and all together): same time grid (1e-9 rel)
                   and the same per-phase histories merely permuted (1e-7 rel over <= 300 steps), on the steps on which the
                   configuration is well conditioned (measured with ulp-perturbed twins of the reference order, see
                   _conditioning_horizon and _temperature_rule_flipped).
"""
import itertools
import math

PROPERTY = 'C11'
LEVEL = 'exploration'

np = None

# ------------------------------------------------------------------------------------------------------------------
# tolerances
TOL_QUERY = 1e-8     # queries (DESIGN: 1e-8 rel): both objects solve the same equilibrium problem in pycalphad's own alphabetical
#                      order; they differ in the insertion order of the composition conditions, which changes the Newton
#                      path: agreement is to solver convergence (site-fraction step < 5e-9, quadratic), measured <= 2e-10
TOL_SAMPLING = 1e-8  # sampling driving force: both objects sample the same point set (same pdens, same phase record
#                      order), so the same sample wins; no coarser tolerance is needed for an order comparison
TOL_TIME = 1e-9      # time grids of permuted runs (DESIGN)
TOL_HIST = 1e-7      # per-phase histories over <= 300 steps: sums over phases (np.sum(volFrac), np.sum(fconc)) run in a
#                      different order, each step can amplify a 1e-16 difference through 1/dG, exp(-Gcrit/kT) (DESIGN)
HORIZON = 300
DTSCALE = 0.05      # step growth when no rule binds (kawin default 1e-3 would need 10^4 steps to leave the first second)
TWIN_TOL = 1e-10    # see _conditioning_horizon

CONSTRAINTS = ['checkPSD', 'checkNucleation', 'checkRcrit', 'checkVolumePre', 'checkTemperature']
PHASE_ATTRS = ['xEqAlpha', 'xEqBeta', 'drivingForce', 'impingement', 'Gcrit', 'Rcrit', 'nucRate', 'precipitateDensity',
               'Rnuc', 'Ravg', 'ARavg', 'volFrac', 'fconc']
GLOBAL_ATTRS = ['temperature', 'composition']

SITE_SETS = {
    # first and third phase share a site type (they compete for the same sites), the second sits elsewhere
    'mixed': ['bulk', 'grain boundaries', 'bulk'],
    'same': ['dislocations', 'dislocations', 'dislocations'],
    'gb': ['grain edges', 'grain boundaries', 'grain corners'],
    # needle-shaped precipitates whose aspect ratio follows from the elastic strain energy (calculateAspectRatio): each phase
    # carries its own eigenstrain, so its aspect-ratio table differs from the others'
    'strain': ['bulk', 'bulk', 'bulk'],
}
STRAIN = {'P1': {'eig': [0.022, 0.022, 0.003], 'calc': True}, 'P2': {'eig': [0.010, 0.010, 0.002], 'calc': True},
          'P3': {'eig': [0.004, 0.004, 0.012], 'calc': False}}


def prepare():
    global np
    import numpy as np
    import kawin.precipitation  # noqa: F401
    import kawin.diffusion  # noqa: F401
    from mc import precip  # noqa: F401
    # build the pycalphad-backed objects once in the parent; forked workers inherit them (a replay builds them on demand)
    for s in ELEMENT_SYSTEMS:
        for o in _orders(s):
            _therm(s, o)
    for s, d in DIFF_SYSTEMS.items():
        for p in itertools.permutations(d['elements'][1:]):
            _gtherm(s, [d['elements'][0]] + list(p))


# ------------------------------------------------------------------------------------------------------------------
# stage 'phases'

def _run_precip(case, order, eps=0.0, eps_t=0.0):
    """One run of the analytic multi-phase model with the phases listed in `order` (eps: relative perturbation of the
    initial composition, eps_t: of the duration / time scale of the temperature programme; for the conditioning twins only)."""
    from mc import precip
    from kawin.solver.Solver import SolverType
    n = case['nphases']
    sites = SITE_SETS[case['sites']][:n]
    only = case['only']
    cons = {k: (only == 'all' or k == only) for k in CONSTRAINTS}
    cons['dtScale'] = DTSCALE
    x0 = 0.01 * (1 + eps) if case['system'] == 'bin' else [0.02 * (1 + eps), 0.01 * (1 - eps)]
    cfg = {'system': case['system'], 'nphases': n, 'phase_order': list(order), 'site': [sites[i] for i in order],
           'it': case['it'], 'temp': case['temp'], 'tf': case.get('tf', 20.0) * (1 + eps_t), 'constraints': cons, 'x0': x0,
           'max_steps': case.get('horizon', HORIZON), 'record': False}
    if case['sites'] == 'strain':
        cfg['strain'] = STRAIN
    m, therm, c = precip.build_model(cfg)
    if case.get('parents'):
        m.setParentPhases('P2', ['P1'])         # by name, so the relation travels with the phases
    precip.Monitor(m, c['max_steps'], hooks=False)
    err = None
    try:
        m.solve(c['tf'], solverType=SolverType.EXPLICITEULER if c['it'] == 'euler' else SolverType.RK4)
    except precip.StepLimit:
        err = 'StepLimit'
    except Exception as e:   # a crash in one order only is an equivariance violation; in all orders it is C03's business
        err = '%s: %s' % (type(e).__name__, e)
    return m, err


def _relerr(a, b):
    a, b = np.asarray(a, dtype=float), np.asarray(b, dtype=float)
    den = np.maximum(np.abs(a), np.abs(b))
    with np.errstate(invalid='ignore', divide='ignore'):
        e = np.where(den > 0, np.abs(a - b) / den, 0.0)
    e = np.where(np.isnan(a) & np.isnan(b), 0.0, e)
    e = np.where(np.isnan(e), np.inf, e)
    return e


def _profiles(d0, d1, order):
    """{attribute: per-step max relative deviation} over the common prefix of two histories; column j of d1 is phase
    order[j] of d0."""
    k = min(d0.n, d1.n) + 1
    out = {}
    for a in ['time'] + GLOBAL_ATTRS:
        out[a] = _relerr(getattr(d0, a)[:k], getattr(d1, a)[:k]).reshape(k, -1).max(axis=1)
    for a in PHASE_ATTRS:
        out[a] = _relerr(getattr(d0, a)[:k][:, list(order)], getattr(d1, a)[:k]).reshape(k, -1).max(axis=1)
    return out


def _conditioning_horizon(case, m0):
    """Number of leading steps on which this configuration is well enough conditioned for a 1e-7 comparison.

    Permuting the phases changes the order of floating-point sums over phases (np.sum(volFrac), np.sum(fconc, axis=0)), i.e.
    perturbs every step by ~1 ulp.  Some configurations (dissolution on heating, a class crossing the minimum radius, a flux
    limiter switching) amplify 1 ulp to 1e-1 within four steps *for a fixed phase order*.  That is sensitivity of the
    trajectory, not dependence on the order.  It is measured, not assumed: the identity order is run four more times with the
    initial composition, respectively the duration (time scale of the temperature programme), moved by +-2 ulp; the comparison
    horizon ends two steps before any twin first deviates by more than TWIN_TOL (1e-10 = TOL_HIST / 1000) in any recorded quantity
    or takes a different number of steps."""
    ident = tuple(range(case['nphases']))
    d0 = m0.pData
    h = d0.n
    for eps, eps_t in ((4e-16, 0.0), (-4e-16, 0.0), (0.0, 4e-16), (0.0, -4e-16)):
        mt, _ = _run_precip(case, ident, eps=eps, eps_t=eps_t)
        prof = _profiles(d0, mt.pData, ident)
        worst = np.max(np.stack(list(prof.values())), axis=0)
        # the perturbation itself is 4e-16 in composition[0]; everything above TWIN_TOL is amplification
        idx = np.argwhere(worst > TWIN_TOL)
        k = int(idx[0][0]) - 2 if len(idx) else len(worst) - 1
        if mt.pData.n != d0.n:
            k = min(k, min(mt.pData.n, d0.n) - 2)
        h = min(h, k)
    return max(h, 0)


def _temperature_rule_flipped(m0, m1, n):
    """True when the step taken from recorded row n was decided differently in the two runs on a knife edge of kawin's
    temperature rule.

    computeDTfromTemperature limits the step only `if Tchange > maxNonIsothermalDT` and then returns dtPrev * maxNonIsothermalDT /
    Tchange, i.e. it steers the next temperature change to exactly maxNonIsothermalDT and tests the result with `>`: while the rule
    is the binding one, whether it fires again is decided by the last bit of the time stamps (seen: 702.471114619332 -
    701.471114619332 = 1.0 in one phase order, 1 + 2e-13 in the other, with every recorded quantity equal to 4e-14 before).
    A run pair that separates at such a step - temperature change within 1e-9 relative of the limit in both runs, `>` true in
    exactly one of them - is not compared beyond it."""
    fired = []
    for m in (m0, m1):
        c, d = m.constraints, m.pData
        if not c.checkTemperature or n < 1 or n > d.n:
            return False
        change = float(d.temperature[n] - d.temperature[n - 1])
        if abs(change - c.maxNonIsothermalDT) > 1e-9 * abs(float(d.temperature[n])):
            return False
        fired.append(change > c.maxNonIsothermalDT)
    return fired[0] != fired[1]


def run_phase_perm(case):
    n = case['nphases']
    ident = tuple(range(n))
    tag = '%s/n=%d/sites=%s/it=%s/temp=%s/only=%s%s' % (case['system'], n, case['sites'], case['it'], case['temp'],
                                                       case['only'], '/parents' if case.get('parents') else '')
    viol, seen = [], set()

    def bad(kind, msg):
        sig = 'phases/%s/only=%s/%s' % (kind, case['only'], case['system'])
        if sig not in seen:
            seen.add(sig)
            viol.append({'sig': sig, 'msg': '%s: %s' % (tag, msg)})

    m0, err0 = _run_precip(case, ident)
    d0 = m0.pData
    names0 = [str(p) for p in m0.phases]
    steps = d0.n
    runs = []
    for order in itertools.permutations(range(n)):
        if order == ident:
            continue
        m1, err1 = _run_precip(case, order)
        names1 = [str(p) for p in m1.phases]
        if names1 != [names0[i] for i in order]:
            raise RuntimeError('harness: phase names %r do not follow order %r' % (names1, order))
        runs.append((order, m1, err1, _profiles(d0, m1.pData, order)))
    nperm = len(runs)
    # how often a step-size rule (and not the default growth of the step, or the end of the run) chose the step, in any order
    bound = 0
    for mm in [m0] + [r[1] for r in runs]:
        dts = np.diff(mm.pData.time)
        if len(dts) > 2:
            bound = max(bound, int(np.sum(dts[1:-1] < (1 + DTSCALE) * dts[:-2] * (1 - 1e-9))))
    # the conditioning twins are only needed (and only run) when some order deviates at all
    suspicious = any(err1 != err0 or m1.pData.n != d0.n or np.any(prof['time'] > TOL_TIME)
                     or any(np.any(prof[a] > TOL_HIST) for a in GLOBAL_ATTRS + PHASE_ATTRS) for _, m1, err1, prof in runs)
    H = _conditioning_horizon(case, m0) if suspicious else steps
    maxerr = 0.0
    knife = 0
    cut_pairs = []
    for order, m1, err1, prof in runs:
        d1 = m1.pData
        K = min(H, len(prof['time']) - 1)          # compare steps 0..K
        et = prof['time'][:K + 1]
        if np.any(et > TOL_TIME):
            j = int(np.argmax(et > TOL_TIME))
            if _temperature_rule_flipped(m0, m1, j - 1):
                knife += 1
                K = j - 1            # compare this pair up to the knife-edge step only
                cut_pairs.append(K)
            else:
                bad('time-grid', 'order %r vs order %r: time stamp of step %d is %r vs %r (rel %.3g; %d vs %d steps in all); the steps '
                    'before agree; ulp-perturbed twins of the reference order agree to %.0e up to step %d'
                    % (ident, order, j, float(d0.time[j]), float(d1.time[j]), et[j], d0.n, d1.n, TWIN_TOL, H + 2))
                continue
        if H >= steps and K >= min(d0.n, d1.n) and (d0.n != d1.n or err0 != err1):
            bad('time-grid', 'order %r takes %d steps (%s), order %r takes %d steps (%s)' % (ident, d0.n, err0 or 'finished', order, d1.n, err1 or 'finished'))
            continue
        devs = []
        for a in GLOBAL_ATTRS + PHASE_ATTRS:
            e = prof[a][:K + 1]
            maxerr = max(maxerr, float(np.max(e)))
            if np.any(e > TOL_HIST):
                devs.append((int(np.argmax(e > TOL_HIST)), a))
        if devs:
            # one report per run pair: the quantity that deviates first (all others follow from it)
            j, a = min(devs)
            A0, A1 = getattr(d0, a)[j], getattr(d1, a)[j]
            if a in PHASE_ATTRS:
                A0 = A0[list(order)]
            bad('history', 'order %r vs %r: first deviation beyond %g: %s at step %d is %r (reference, re-ordered) vs %r (also deviating later: %s); time grids '
                'agree; ulp-perturbed twins of the reference agree to %.0e up to step %d'
                % (ident, order, TOL_HIST, a, j, np.asarray(A0).tolist(), np.asarray(A1).tolist(), ', '.join(x for _, x in sorted(devs)[1:]) or 'nothing',
                   TWIN_TOL, H + 2))
            continue
        # final size distributions (only when the whole run is inside the conditioning horizon)
        if H >= steps and d0.n == d1.n and K >= d0.n:
            for j, p in enumerate(order):
                b0, b1 = m0.PBM[p], m1.PBM[j]
                if b0.bins != b1.bins or np.any(_relerr(b0.PSDbounds, b1.PSDbounds) > TOL_HIST):
                    bad('final-grid', 'order %r vs %r: phase %s ends on %d classes up to %r vs %d classes up to %r'
                        % (ident, order, names0[p], b0.bins, b0.PSDbounds[-1], b1.bins, b1.PSDbounds[-1]))
                else:
                    # relative to the fullest class: single classes at the steep front of a distribution respond more strongly to a
                    # 1e-9 difference in the growth rates than the moments in the histories do
                    top = max(float(np.max(np.abs(b0.PSD))), float(np.max(np.abs(b1.PSD))))
                    e = float(np.max(np.abs(b0.PSD - b1.PSD))) / top if top > 0 else 0.0
                    if e > TOL_HIST:
                        bad('final-psd', 'order %r vs %r: final PSD of phase %s differs by %.3g of its fullest class' % (ident, order, names0[p], e))
    populated = int(np.sum(np.max(d0.precipitateDensity[:H + 1], axis=0) > 0))
    oc = '%s/n=%d/only=%s/%s/bound=%s/pop=%d/%s' % (case['system'], n, case['only'], err0 or 'finished', 'yes' if bound else 'no', populated,
                                                    'identical' if maxerr == 0 and not suspicious else ('knife-edge' if knife else ('full' if H >= steps else 'cut')))
    return {'viol': viol, 'states': (min(H, steps) + 1) * (nperm + 1), 'transitions': min(H, steps) * nperm, 'traces': nperm + (5 if suspicious else 1),
            'outcome': oc, 'nontrivial': bound > 0 and populated >= 2 and H >= 20,
            'info': {'steps': int(steps), 'compared_steps': int(min([H, steps] + cut_pairs)), 'bound_steps': bound, 'max_rel_err': maxerr,
                     'orders': nperm + 1, 'temperature_rule_knife_edges': knife, 'final_volFrac': [float(v) for v in d0.volFrac[-1]]}}


def phase_cases(quick):
    levels = {
        'system': ['bin', 'tern'],
        'nphases': [2, 3],
        'it': ['euler', 'rk4'],
        # 'hrh' = hold 700 K, ramp to 900 K, hold: isothermal steps (the PSD rule only acts there) and ramp steps (temperature rule)
        'temp': ['hrh'] if quick else ['iso', 'hrh', 'heat', 'updown'],
        'only': CONSTRAINTS + ['all'],
        'sites': ['mixed', 'strain'] if quick else ['mixed', 'same', 'gb', 'mixed+parents', 'strain'],
        'horizon': [150 if quick else HORIZON],
    }
    from mc import core
    # the strain-energy aspect-ratio search is expensive (a quadrature per size class at every grid change): only with all
    # constraints on; quick: two phases only
    # (multicomponent runs evaluate the strain energy of every size class at every growth-rate call: 80-350 s per case, so the
    # ternary strain cases are thorough-only, two phases, Euler)
    def keep(c):
        if c['sites'] != 'strain':
            return True
        if c['only'] != 'all':
            return False
        if c['system'] == 'tern':
            return (not quick) and c['nphases'] == 2 and c['it'] == 'euler' and c['temp'] == 'hrh'
        return c['nphases'] == 2 or not quick
    out = [c for c in core.product(levels) if keep(c)]
    for c in out:
        if c['sites'].endswith('+parents'):
            c['sites'], c['parents'] = c['sites'].split('+')[0], True
    return out


def run(ctx):
    quick = ctx.quick
    ctx.rule = ('stage elements: full lattice (temperature x two solute fractions) per ternary database, every solute order, every '
                'query, compared with the database listing order; non-trivial = point with matrix + precipitate equilibrium.  '
                'stage diffusion: system x temperature x initial profile x iterator x model (single phase / five homogenization '
                'functions), N = 5, every solute order.  stage phases: full product system x number of phases x iterator x '
                'temperature programme x step-size constraint switched on alone (and all together) x site assignment, every '
                'permutation of the phase list run and compared with the identity order step by step; non-trivial = a step-size '
                'rule chose at least one step and at least two phases precipitated')
    ctx.assumptions = ['analytic thermodynamic backends (mc/synth_thermo.py) stand in for pycalphad in the phase-permutation product',
                       'stage interstitial uses a harness-owned database (mc/interstitial_tdb.py): none of the shipped ones has an interstitial element',
                       'per-phase parameters travel with the phase name; parent-phase relation set by name',
                       'every query starts from clearCache() and uses removeCache=True: dependence on evaluation history is C09, not C11',
                       'only the solutes are permuted (the reference element stays first), as the property states',
                       'phase-permuted runs are compared on the steps on which four twins of the reference run (initial composition / time scale '
                       'moved by +-2 ulp) agree to 1e-10 (measured per case, only when a deviation is seen); steps behind that horizon are '
                       'counted as not compared',
                       'a run pair that separates at a step where the temperature rule was decided differently on its knife edge (temperature '
                       'change equal to maxNonIsothermalDT to 1e-9 relative in both runs, ">" true in one only) is not compared beyond that step',
                       'pycalphad accepts an equilibrium when site fractions moved < 5e-9 in the last Newton step; two objects that differ '
                       'in the insertion order of the composition conditions were observed to agree to 2e-10 (tolerance 1e-8); a driving force is '
                       'compared relative to max(|DF|, R T) because it passes through zero at the solvus (observed absolute differences <= 3e-6 J/mol)']
    ec, dc, pc = element_cases(quick), diffusion_cases(quick), phase_cases(quick)
    ctx.bounds = {'element_points': len(ec), 'element_systems': {k: {'axes': v['axes'], 'T': v['T'], 'phases': v['phases']} for k, v in ELEMENT_SYSTEMS.items()},
                  'diffusion_cases': len(dc), 'diffusion_steps': DIFF_STEPS, 'nodes': 5,
                  'phase_cases': len(pc), 'horizon_steps': pc[0]['horizon'], 'constraints': CONSTRAINTS + ['all'],
                  'tol_time': TOL_TIME, 'tol_history': TOL_HIST, 'tol_query': TOL_QUERY, 'twin_tol': TWIN_TOL}
    ctx.product_run('elements', 'checks.c11:run_element_point', ec, chunksize=1)
    ctx.product_run('interstitial', 'checks.c11:run_interstitial_point', interstitial_cases(quick))
    ctx.product_run('diffusion', 'checks.c11:run_diffusion', dc, chunksize=1)
    ctx.product_run('phases', 'checks.c11:run_phase_perm', pc, chunksize=1)


# ------------------------------------------------------------------------------------------------------------------
# stage 'elements': real ternary databases, solute order permuted

ELEMENT_SYSTEMS = {
    # lattice: inside / around the matrix + precipitate field used by kawin's own tests and examples (test_thermodynamics:
    # Ni-8Cr-10Al at 1073 K; test_precipitation: Al-0.72Mg-0.57Si at 448 K); single-phase points (negative driving force) are
    # kept on purpose: the driving-force and diffusivity queries are defined there, the curvature queries answer None
    'nicral': dict(db='NICRAL_TDB', elements=['NI', 'CR', 'AL'], phases=['FCC_A1', 'FCC_L12'],
                   axes={'CR': (0.04, 0.14), 'AL': (0.08, 0.16)}, T=(973.15, 1173.15), dG=200.0),
    'almgsi': dict(db='ALMGSI_DB', elements=['AL', 'MG', 'SI'], phases=['FCC_A1', 'MGSI_B_P', 'MG5SI6_B_DP', 'B_PRIME_L', 'U1_PHASE', 'U2_PHASE'],
                   axes={'MG': (0.003, 0.012), 'SI': (0.003, 0.012)}, T=(423.15, 523.15), dG=5000.0),
}
DF_METHODS = ['tangent', 'approximate', 'sampling', 'curvature']
COMPOSITION_KEYS = ('xb', 'matrix', 'precipitate', 'c_eq_alpha', 'c_eq_beta', 'c_alpha', 'c_beta')
_TH = {}


def _therm(sysname, order):
    """Thermodynamics object for one element order (cached per process; every case starts from clearCache())."""
    from kawin.thermo import MulticomponentThermodynamics
    import kawin.tests.datasets as datasets
    key = (sysname, tuple(order))
    if key not in _TH:
        d = ELEMENT_SYSTEMS[sysname]
        # list(...) copies: the constructor renames phases[0] in the caller's list for order/disorder systems
        th = MulticomponentThermodynamics(getattr(datasets, d['db']), list(order), list(d['phases']), drivingForceMethod='tangent')
        th.setDFSamplingDensity(2000)
        th.setEQSamplingDensity(500)
        _TH[key] = th
    return _TH[key]


def _orders(sysname):
    els = ELEMENT_SYSTEMS[sysname]['elements']
    return [[els[0]] + list(p) for p in itertools.permutations(els[1:])]


def _lin(lo, hi, n):
    return [lo + (hi - lo) * i / (n - 1) for i in range(n)] if n > 1 else [0.5 * (lo + hi)]


def _none(v):
    return v is None or (isinstance(v, np.ndarray) and v.dtype == object)


def _cmp(viol, seen, sigbase, what, a, b, tol, tag, mode='max', floor=0.0):
    """a: reference (already re-ordered), b: permuted object's answer.  mode 'max': error relative to the largest entry of
    the object (an off-diagonal diffusivity 1e-6 of the diagonal carries the diagonal's rounding); 'rows': the same per row
    (mobility rows of different phases, -1 rows for phases without mobility data); 'comp': element-wise for mole fractions,
    with an absolute floor of 1e-12 (pycalphad's smallest allowed mass residual).  floor: lower bound of the scale - a driving
    force is a difference of chemical potentials and passes through zero at the solvus, so its error is measured against
    max(|DF|, R T), the natural size of the chemical potentials it is built from."""
    def report(kind, msg):
        sig = sigbase + '/' + what + kind
        if sig not in seen:
            seen.add(sig)
            viol.append({'sig': sig, 'msg': '%s: %s %s' % (tag, what, msg)})
    if _none(a) or _none(b):
        if _none(a) != _none(b):
            report('/none-vs-value', 'is %r in one order and %r in the other' % (a, b))
        return 0.0
    a, b = np.asarray(a, dtype=float), np.asarray(b, dtype=float)
    if a.shape != b.shape:
        report('/shape', 'has shape %r vs %r' % (a.shape, b.shape))
        return 0.0
    if a.size == 0:
        return 0.0
    nan_a, nan_b = np.isnan(a), np.isnan(b)
    if np.any(nan_a != nan_b):
        report('/nan-pattern', '= %s vs %s' % (np.array2string(a, precision=10), np.array2string(b, precision=10)))
        return 0.0
    d = np.where(nan_a, 0.0, np.abs(np.where(nan_a, 0.0, a) - np.where(nan_b, 0.0, b)))
    m = np.maximum(np.abs(np.where(nan_a, 0.0, a)), np.abs(np.where(nan_b, 0.0, b)))
    if mode == 'comp':
        err = float(np.max(np.where(d <= 1e-12, 0.0, d / np.maximum(m, 1e-300))))
    elif mode == 'rows' and a.ndim >= 1:
        scale = np.max(m, axis=-1, keepdims=True)
        err = float(np.max(np.where(scale > 0, d / np.where(scale > 0, scale, 1.0), np.where(d > 0, np.inf, 0.0))))
    else:
        scale = max(float(np.max(m)), floor)
        err = float(np.max(d)) / scale if scale > 0 else 0.0
    if not (err <= tol):
        report('', '= %s in the reference order (re-ordered) but %s in the permuted order (rel %.3g > %g)'
               % (np.array2string(a, precision=12), np.array2string(b, precision=12), err, tol))
    return err if np.isfinite(err) else 0.0


def run_element_point(case):
    """All queries at one (system, T, composition) for every solute order, compared with the database's own listing order."""
    from kawin.diffusion.DiffusionParameters import computeMobility
    sysname, T, xd = case['system'], case['T'], case['x']
    d = ELEMENT_SYSTEMS[sysname]
    orders = _orders(sysname)
    ref = orders[0]
    viol, seen = [], set()
    errs = {}
    nq = 0
    answers = {}
    gl = [0.0, 50.0, 400.0]
    Rl = [1e-9, 5e-9, 2e-8]
    for order in orders:
        th = _therm(sysname, order)
        th.clearCache()
        x = [xd[e] for e in order[1:]]
        x2 = [x, [xd[e] * (1.05 if e == ref[1] else 0.97) for e in order[1:]]]     # array API: two conditions at once
        ans = {}
        for pp in d['phases'][1:]:
            for meth in DF_METHODS:
                th.setDrivingForceMethod(meth)
                th.clearCache()
                dg, xb = th.getDrivingForce(x, T, precPhase=pp, removeCache=True)
                ans[('DF', pp, meth, 'dg')] = dg
                ans[('DF', pp, meth, 'xb')] = ('solutes', xb)
            th.setDrivingForceMethod('tangent')
            th.clearCache()
            xa, xbv = th.getInterfacialComposition(x, T, np.array(gl), precPhase=pp)
            ans[('IC', pp, 'matrix')] = ('full-cols', xa)
            ans[('IC', pp, 'precipitate')] = ('full-cols', xbv)
            cur = th.curvatureFactor(x, T, precPhase=pp, removeCache=True)
            if cur is None:
                for k in ('dc', 'mc', 'gba', 'beta', 'c_eq_alpha', 'c_eq_beta'):
                    ans[('curv', pp, k)] = None
            else:
                ans[('curv', pp, 'dc')] = ('solutes', cur.dc)
                ans[('curv', pp, 'mc')] = cur.mc
                ans[('curv', pp, 'gba')] = ('solutes2', cur.gba)
                ans[('curv', pp, 'beta')] = cur.beta
                ans[('curv', pp, 'c_eq_alpha')] = ('solutes', cur.c_eq_alpha)
                ans[('curv', pp, 'c_eq_beta')] = ('solutes', cur.c_eq_beta)
            th.clearCache()
            gr = th.getGrowthAndInterfacialComposition(x, T, d['dG'], np.array(Rl), np.array([d['dG'] * 1e-9 / r for r in Rl]), precPhase=pp, removeCache=True)
            if gr is None:
                for k in ('growth_rate', 'c_alpha', 'c_beta'):
                    ans[('growth', pp, k)] = None
            else:
                ans[('growth', pp, 'growth_rate')] = gr.growth_rate
                ans[('growth', pp, 'c_alpha')] = ('solute-cols', gr.c_alpha)
                ans[('growth', pp, 'c_beta')] = ('solute-cols', gr.c_beta)
            th.clearCache()
            ans[('beta', pp)] = th.impingementFactor(x, T, precPhase=pp, removeCache=True)
        th.clearCache()
        ans[('D', 'single')] = ('solutes2', th.getInterdiffusivity(x, T))
        ans[('D', 'batch')] = ('solutes2-batch', th.getInterdiffusivity(x2, [T, T + 7.0]))
        ans[('Dtracer', 'single')] = ('full', th.getTracerDiffusivity(x, T))
        ans[('Dtracer', 'batch')] = ('full-cols', th.getTracerDiffusivity(x2, [T, T + 7.0]))
        try:
            md = computeMobility(th, x, T)
            ans[('mob', 'phases')] = ('names', [str(p) for p in md.phases[0]])
            ans[('mob', 'mobility')] = ('full-cols', md.mobility[0])
            ans[('mob', 'phase_fractions')] = md.phase_fractions[0]
            ans[('mob', 'chemical_potentials')] = ('full', md.chemical_potentials[0])
        except Exception as e:    # the global equilibrium did not converge here; that it fails is not C11's business, only
            # that it fails in every order alike
            ans[('mob', 'phases')] = ('names', ['exception:' + type(e).__name__])
        answers[tuple(order)] = ans
    A = answers[tuple(ref)]
    stable = set()
    for order in orders[1:]:
        B = answers[tuple(order)]
        sol = [ref[1:].index(e) for e in order[1:]]            # value_B[j] == value_A[sol[j]]
        full = [ref.index(e) for e in order]
        tag = '%s T=%g x=%s order %s vs %s' % (sysname, T, xd, ref, order)
        for key in sorted(set(A) | set(B), key=str):
            a, b = A.get(key), B.get(key)
            kind = None
            if isinstance(a, tuple):
                kind, a = a
            if isinstance(b, tuple):
                kind, b = b
            nq += 1
            what = '/'.join(str(k) for k in key)
            if kind == 'names':
                if a != b:
                    sig = 'elements/%s/%s' % (sysname, what)
                    if sig not in seen:
                        seen.add(sig)
                        viol.append({'sig': sig, 'msg': '%s: stable phases %r vs %r' % (tag, a, b)})
                continue
            if not _none(a) and kind is not None:
                a = np.asarray(a, dtype=float)
                if kind == 'solutes':
                    a = a[sol]
                elif kind == 'solutes2':
                    a = a[sol][:, sol]
                elif kind == 'solutes2-batch':
                    a = a[:, sol][:, :, sol]
                elif kind == 'solute-cols':
                    a = a[..., sol]
                elif kind == 'full':
                    a = a[full]
                elif kind == 'full-cols':
                    a = a[..., full]
            tol = TOL_SAMPLING if key[0] == 'DF' and key[2] == 'sampling' else TOL_QUERY
            mode = 'rows' if key == ('mob', 'mobility') else ('comp' if key[-1] in COMPOSITION_KEYS else 'max')
            e = _cmp(viol, seen, 'elements/%s' % sysname, what if key[0] not in ('DF', 'IC', 'curv', 'growth', 'beta') else
                     '/'.join([key[0]] + [str(k) for k in key[2:]]) + '/' + key[1], a, b, tol, tag, mode,
                     floor=8.314 * T if (key[0] == 'DF' and key[-1] == 'dg') else 0.0)
            errs[key[0]] = max(errs.get(key[0], 0.0), e)
            if key[0] == 'curv' and key[2] == 'mc' and not _none(a):
                stable.add(key[1])
    dgs = {pp: A[('DF', pp, 'tangent', 'dg')] for pp in d['phases'][1:]}
    npos = sum(1 for v in dgs.values() if not _none(v) and float(v) > 0)
    oc = '%s/two-phase=%d/positive-DF=%d' % (sysname, len(stable), npos)
    return {'viol': viol, 'states': len(orders), 'transitions': nq, 'evaluations': nq, 'outcome': oc, 'nontrivial': len(stable) > 0,
            'info': {'max_rel_err': {k: float('%.3g' % v) for k, v in errs.items()}, 'tangent_dg': {k: (None if _none(v) else float(v)) for k, v in dgs.items()}}}


def element_cases(quick):
    out = []
    n = 3 if quick else 8
    nT = 3 if quick else 6
    for sysname, d in ELEMENT_SYSTEMS.items():
        names = list(d['axes'])
        for T in _lin(d['T'][0], d['T'][1], nT):
            for xa in _lin(*d['axes'][names[0]], n):
                for xb in _lin(*d['axes'][names[1]], n):
                    out.append({'system': sysname, 'T': round(T, 6), 'x': {names[0]: round(xa, 10), names[1]: round(xb, 10)}})
    return out


# ------------------------------------------------------------------------------------------------------------------
# stage 'interstitial': a database with an interstitial sublattice (mc/interstitial_tdb.py), solute order permuted.
# The u-fraction branch of the mobility code (interstitials do not count in the denominator) is unreachable with the shipped
# substitutional databases; the position of the interstitial in the user's list must not matter.

INTERSTITIAL_SYSTEMS = {'fecrc': ['FE', 'CR', 'C'], 'fecrn': ['FE', 'CR', 'N'], 'fecrcn': ['FE', 'CR', 'C', 'N']}
_ITH = {}


def _itherm(order):
    from kawin.thermo import GeneralThermodynamics
    from mc.interstitial_tdb import TDB
    key = tuple(order)
    if key not in _ITH:
        _ITH[key] = GeneralThermodynamics(TDB, list(order), ['FCC_A1'])
    return _ITH[key]


def run_interstitial_point(case):
    from kawin.diffusion.DiffusionParameters import computeMobility
    from kawin.diffusion.HomogenizationParameters import HomogenizationParameters, computeHomogenizationFunction
    from mc.interstitial_tdb import MQ, INTERSTITIALS
    sysname, T, xd = case['system'], case['T'], case['x']
    els = INTERSTITIAL_SYSTEMS[sysname]
    orders = [[els[0]] + list(p) for p in itertools.permutations(els[1:])]
    ref = orders[0]
    viol, seen = [], set()
    nq = 0
    answers = {}
    for order in orders:
        th = _itherm(order)
        th.clearCache()
        x = [xd[e] for e in order[1:]]
        ans = {}
        md = computeMobility(th, x, T)
        ans['mobility'] = ('full-cols', np.asarray(md.mobility[0], dtype=float))
        ans['chemical_potentials'] = ('full', np.asarray(md.chemical_potentials[0], dtype=float))
        for rule in ('wiener upper', 'wiener lower', 'hashin upper', 'hashin lower', 'lab'):
            hp = HomogenizationParameters(rule)
            mobh, mu = computeHomogenizationFunction(th, x, T, hp)
            ans['homogenization/' + rule] = ('full-cols', np.atleast_2d(np.asarray(mobh, dtype=float)))
        th.clearCache()
        ans['D'] = ('solutes2', np.atleast_2d(np.asarray(th.getInterdiffusivity(x, T), dtype=float)))
        ans['Dtracer'] = ('full', np.asarray(th.getTracerDiffusivity(x, T), dtype=float))
        answers[tuple(order)] = ans
        # independent value of the quantity the homogenization model transports: M_k u_k, u_k = x_k / (sum of substitutional x)
        xs = dict(xd)
        xs[els[0]] = 1.0 - sum(xd.values())
        usum = sum(v for e, v in xs.items() if e not in INTERSTITIALS)
        RG = 8.3145          # the constant pycalphad uses for the symbol R of the database
        hand = np.array([math.exp(MQ[e][0] / (RG * T)) * MQ[e][1] / (RG * T) * xs[e] / usum for e in order])
        got = np.asarray(md.mobility[0], dtype=float)[0]
        nq += 1
        if got.shape != hand.shape or not np.all(np.abs(got - hand) <= 1e-6 * hand):
            sig = 'interstitial/%s/mobility-vs-M-times-u-fraction/interstitial-at=%s' % (
                sysname, ','.join(str(order.index(e)) for e in order if e in INTERSTITIALS))
            if sig not in seen:
                seen.add(sig)
                viol.append({'sig': sig, 'msg': '%s T=%g x=%s order %s: computeMobility gives %s, M_k x_k / (sum of substitutional x) = %s'
                             % (sysname, T, xd, order, got.tolist(), hand.tolist())})
    A = answers[tuple(ref)]
    for order in orders[1:]:
        B = answers[tuple(order)]
        sol = [ref[1:].index(e) for e in order[1:]]
        full = [ref.index(e) for e in order]
        tag = '%s T=%g x=%s order %s vs %s' % (sysname, T, xd, ref, order)
        for key in sorted(A):
            kind, a = A[key]
            _, b = B[key]
            a = np.asarray(a, dtype=float)
            a = a[sol][:, sol] if kind == 'solutes2' else (a[full] if kind == 'full' else a[..., full])
            nq += 1
            _cmp(viol, seen, 'interstitial/%s' % sysname, key, a, b, TOL_QUERY, tag, 'rows' if kind == 'full-cols' else 'max')
    return {'viol': viol, 'states': len(orders), 'transitions': nq, 'evaluations': nq, 'outcome': sysname, 'nontrivial': True}


def interstitial_cases(quick):
    out = []
    for sysname, els in INTERSTITIAL_SYSTEMS.items():
        for T in ([1173.15, 1373.15] if quick else [1073.15, 1173.15, 1273.15, 1373.15]):
            for xcr in ([0.05, 0.2] if quick else [0.02, 0.05, 0.12, 0.2, 0.3]):
                for xi in ([0.004, 0.03] if quick else [0.001, 0.004, 0.012, 0.03]):
                    xd = {'CR': xcr}
                    for e in els[2:]:
                        xd[e] = xi if e == 'C' else 0.6 * xi
                    out.append({'system': sysname, 'T': T, 'x': xd})
    return out


# ------------------------------------------------------------------------------------------------------------------
# stage 'diffusion': SinglePhaseModel on N = 5 nodes, real backend, solute order permuted

DIFF_SYSTEMS = {
    'nicral': dict(db='NICRAL_TDB', elements=['NI', 'CR', 'AL'], phases=['FCC_A1'], T=[1273.15, 1473.15],
                   left={'CR': 0.05, 'AL': 0.12}, right={'CR': 0.25, 'AL': 0.02}),
    'almgsi': dict(db='ALMGSI_DB', elements=['AL', 'MG', 'SI'], phases=['FCC_A1'], T=[723.15, 823.15],
                   left={'MG': 0.002, 'SI': 0.010}, right={'MG': 0.012, 'SI': 0.001}),
    # homogenization model: the right end lies in FCC_A1 + BCC_A2 (phase set of kawin's own test_diffusion)
    'nicral-2ph': dict(db='NICRAL_TDB', elements=['NI', 'CR', 'AL'], phases=['FCC_A1', 'BCC_A2'], T=[1273.15, 1473.15],
                       left={'CR': 0.05, 'AL': 0.12}, right={'CR': 0.45, 'AL': 0.02}),
}
HOMOG_FUNCTIONS = ['wiener upper', 'wiener lower', 'hashin upper', 'hashin lower', 'lab']
_GT = {}
DIFF_STEPS = 20


def _gtherm(sysname, order):
    from kawin.thermo import GeneralThermodynamics
    import kawin.tests.datasets as datasets
    key = (sysname, tuple(order))
    if key not in _GT:
        d = DIFF_SYSTEMS[sysname]
        _GT[key] = GeneralThermodynamics(getattr(datasets, d['db']), list(order), list(d['phases']))
    return _GT[key]


def _run_diffusion(case, order, sim_time=None):
    from kawin.diffusion import SinglePhaseModel, HomogenizationModel
    from kawin.diffusion.HomogenizationParameters import HomogenizationParameters
    from kawin.solver.Solver import SolverType
    d = DIFF_SYSTEMS[case['system']]
    th = _gtherm(case['system'], order)
    th.clearCache()
    if case['model'] == 'single':
        m = SinglePhaseModel([-1e-4, 1e-4], 5, list(order), list(d['phases']))
    else:
        m = HomogenizationModel([-1e-4, 1e-4], 5, list(order), list(d['phases']),
                                homogenizationParameters=HomogenizationParameters(case['model']))
    for e in order[1:]:
        if case['profile'] == 'step':
            m.setCompositionStep(d['left'][e], d['right'][e], 0.2e-4, e)
        else:
            m.setCompositionLinear(d['left'][e], d['right'][e], e)
    m.setTemperature(case['T'])
    m.setThermodynamics(th)
    m.setup()
    if sim_time is None:
        _, dt = m.getFluxes()
        sim_time = DIFF_STEPS * float(dt)
    m.solve(sim_time, solverType=SolverType.EXPLICITEULER if case['it'] == 'euler' else SolverType.RK4)
    return m, sim_time


def run_diffusion(case):
    d = DIFF_SYSTEMS[case['system']]
    els = d['elements']
    orders = [[els[0]] + list(p) for p in itertools.permutations(els[1:])]
    ref = orders[0]
    viol, seen = [], set()
    m0, sim_time = _run_diffusion(case, ref)
    t0, X0 = np.array(m0._recordedTime), np.array(m0._recordedX)
    maxerr = 0.0
    kind = 'SinglePhaseModel' if case['model'] == 'single' else 'HomogenizationModel(%s)' % case['model']
    for order in orders[1:]:
        m1, _ = _run_diffusion(case, order, sim_time)
        t1, X1 = np.array(m1._recordedTime), np.array(m1._recordedX)
        sol = [ref[1:].index(e) for e in order[1:]]
        tag = '%s %s N=5 T=%g profile=%s it=%s order %s vs %s' % (kind, case['system'], case['T'], case['profile'], case['it'], ref, order)
        sigbase = 'diffusion/%s/%s' % (case['system'], 'single' if case['model'] == 'single' else 'homogenization')
        if len(t0) != len(t1):
            viol.append({'sig': sigbase + '/time-grid', 'msg': '%s: %d vs %d recorded steps' % (tag, len(t0), len(t1))})
            continue
        maxerr = max(maxerr, _cmp(viol, seen, sigbase, 'time-grid', t0, t1, TOL_TIME, tag))
        maxerr = max(maxerr, _cmp(viol, seen, sigbase, 'profiles', X0[:, sol, :], X1, TOL_HIST, tag))
        maxerr = max(maxerr, _cmp(viol, seen, sigbase, 'final-profile', m0.x[sol], m1.x, TOL_HIST, tag))
    moved = float(np.max(np.abs(X0[-1] - X0[0])) / np.max(np.abs(X0[0])))
    return {'viol': viol, 'states': len(t0) * len(orders), 'transitions': (len(t0) - 1) * len(orders), 'traces': len(orders),
            'outcome': '%s/%s/%s/steps=%d' % (case['system'], case['model'].split()[0], case['profile'], len(t0) - 1), 'nontrivial': moved > 1e-3,
            'info': {'steps': len(t0) - 1, 'max_rel_err': maxerr, 'profile_change': moved}}


def diffusion_cases(quick):
    out = []
    for sysname, d in DIFF_SYSTEMS.items():
        models = ['single'] if len(d['phases']) == 1 else (HOMOG_FUNCTIONS[:2] if quick else HOMOG_FUNCTIONS)
        for T in (d['T'][:1] if quick else d['T']):
            for prof in ('step', 'linear'):
                for it in ('euler', 'rk4'):
                    for model in models:
                        out.append({'system': sysname, 'T': T, 'profile': prof, 'it': it, 'model': model})
    return out
