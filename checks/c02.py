"""C02 - reported precipitate statistics are moments of the size distribution; the number density changes only by
nucleation and dissolution (every recorded step of every run of the configuration products shared with C01)."""
PROPERTY = 'C02'
LEVEL = 'model_checking'


def prepare():
    import kawin.precipitation  # noqa: F401  (heavy import once, before the workers fork)
    from mc import precip, precip_oracles  # noqa: F401
    precip.real_thermo('alzr')      # built once in the parent, inherited by the forked workers


def run_case(case):
    from mc import precip, precip_oracles as po
    r = precip.run_model(case)
    viol, stats = po.check_c02(r)
    err = r['error']
    if err is not None and err[0] != 'StepLimit':
        # crashes are C03's business; here the trace up to the crash is still checked, the crash is only labelled
        stats['crashed'] = err[0]
    if r['model'] is None:
        return {'viol': viol if isinstance(viol, list) else [], 'states': 0, 'outcome': 'build-error/' + r['error'][0], 'nontrivial': False, 'info': {'error': r['error']}}
    d = r['model'].pData
    oc = '%s/%s/%s' % (case.get('system'), case.get('temp'), 'nuc' if stats['nuc_steps'] else 'nonuc')
    if stats['remesh_steps']:
        oc += '/remesh'
    if stats['extend_steps']:
        oc += '/extend'
    if err is not None:
        oc += '/' + err[0]
    return {'viol': viol, 'states': stats['steps'], 'transitions': stats['steps'], 'outcome': oc,
            'nontrivial': stats['nuc_steps'] > 0,
            'info': {'steps': int(d.n), 'stats': stats, 'final_density': [float(v) for v in d.precipitateDensity[-1]]}}


def run(ctx):
    from mc import precip_product as pp
    ctx.rule = ('full Cartesian products of precipitation configurations (system x phases x site x Vm ratio x iterator x temperature '
                'programme x precipitate diffusion x solve split; shape x PBM grid x adaptivity x preloaded PSD; default step growth), '
                'each run monitored at every accepted step; non-trivial = run with nucleation on at least one step')
    ctx.assumptions = ['analytic thermodynamic backends (mc/synth_thermo.py) stand in for pycalphad in the large products; stage real repeats the oracles on Al-Zr (pycalphad)',
                       'the monitor wraps _calcMassBalance/_appendArrays/_calcNucleationRate on the instance it created']
    main, second, shape, dflt = pp.main_product(ctx.tier), pp.second_product(ctx.tier), pp.shape_product(ctx.tier), pp.default_product(ctx.tier)
    ctx.bounds = {'main': len(main), 'second': len(second), 'shape': len(shape), 'default_dtScale': len(dflt), 'horizon_steps': 8000}
    ctx.product_run('main', 'checks.c02:run_case', main, chunksize=1)
    if second:
        ctx.product_run('second', 'checks.c02:run_case', second, chunksize=1)
    units = pp.units_product(ctx.tier)
    ctx.bounds['units'] = len(units)
    ctx.product_run('units', 'checks.c02:run_case', units, chunksize=1)
    options = pp.options_product(ctx.tier)
    ctx.bounds['options'] = len(options)
    ctx.product_run('options', 'checks.c02:run_case', options, chunksize=1)
    reconf = pp.reconfigure_product(ctx.tier)
    ctx.bounds['reconfigure'] = len(reconf)
    ctx.product_run('reconfigure', 'checks.c02:run_case', reconf, chunksize=1)
    ctx.product_run('shape', 'checks.c02:run_case', shape, chunksize=1)
    ctx.product_run('default-dtscale', 'checks.c02:run_case', dflt, chunksize=1)
    real = pp.real_product(ctx.tier)
    ctx.bounds['real_backend_runs'] = len(real)
    ctx.product_run('real', 'checks.c02:run_case', real, chunksize=1)
