"""C01 - precipitation conserves solute between matrix and precipitates (every recorded step of every run of a
configuration product on the analytic backends, plus a smaller real-backend product as conformance)."""
PROPERTY = 'C01'
LEVEL = 'model_checking'


def prepare():
    import kawin.precipitation  # noqa: F401  (heavy import once, before the workers fork)
    from mc import precip, precip_oracles  # noqa: F401
    precip.real_thermo('alzr')      # built once in the parent, inherited by the forked workers


def run_case(case):
    from mc import precip, precip_oracles as po
    r = precip.run_model(case)
    viol, stats = po.check_c01(r)
    err = r['error']
    if err is not None and err[0] != 'StepLimit':
        # crashes are C03's business; here the trace up to the crash is still checked, the crash is only labelled
        stats['crashed'] = err[0]
    if r['model'] is None:
        return {'viol': viol if isinstance(viol, list) else [], 'states': 0, 'outcome': 'build-error/' + r['error'][0], 'nontrivial': False, 'info': {'error': r['error']}}
    d = r['model'].pData
    oc = '%s/%s/%s' % (case.get('system'), case.get('temp'), 'pop' if stats['populated_steps'] else 'empty')
    if stats['clamped']:
        oc += '/clamped'
    if err is not None:
        oc += '/' + err[0]
    return {'viol': viol, 'states': stats['steps'], 'transitions': stats['steps'], 'outcome': oc,
            'nontrivial': stats['populated_steps'] > 0,
            'info': {'steps': int(d.n), 'populated_steps': stats['populated_steps'], 'clamped': stats['clamped'],
                     'max_rel_err': stats['max_rel_err'], 'final_volFrac': [float(v) for v in d.volFrac[-1]]}}


def run(ctx):
    from mc import precip_product as pp
    ctx.rule = ('full Cartesian products of precipitation configurations (system x phases x site x Vm ratio x iterator x temperature '
                'programme x precipitate diffusion x solve split; shape x PBM grid x adaptivity x preloaded PSD; default step growth), '
                'each run monitored at every accepted step; non-trivial = run in which precipitates exist on at least one step')
    ctx.assumptions = ['analytic thermodynamic backends (mc/synth_thermo.py) stand in for pycalphad in the large products; stage real repeats the oracles on Al-Zr (pycalphad)',
                       'the monitor wraps _calcMassBalance/_appendArrays/_calcNucleationRate on the instance it created']
    main, second, shape, dflt = pp.main_product(ctx.tier), pp.second_product(ctx.tier), pp.shape_product(ctx.tier), pp.default_product(ctx.tier)
    ctx.bounds = {'main': len(main), 'second': len(second), 'shape': len(shape), 'default_dtScale': len(dflt), 'horizon_steps': 8000}
    ctx.product_run('main', 'checks.c01:run_case', main, chunksize=1)
    if second:
        ctx.product_run('second', 'checks.c01:run_case', second, chunksize=1)
    units = pp.units_product(ctx.tier)
    ctx.bounds['units'] = len(units)
    ctx.product_run('units', 'checks.c01:run_case', units, chunksize=1)
    floor = pp.floor_product(ctx.tier)
    ctx.bounds['floor'] = len(floor)
    ctx.product_run('floor', 'checks.c01:run_case', floor, chunksize=1)
    options = pp.options_product(ctx.tier)
    ctx.bounds['options'] = len(options)
    ctx.product_run('options', 'checks.c01:run_case', options, chunksize=1)
    reconf = pp.reconfigure_product(ctx.tier)
    ctx.bounds['reconfigure'] = len(reconf)
    ctx.product_run('reconfigure', 'checks.c01:run_case', reconf, chunksize=1)
    ctx.product_run('shape', 'checks.c01:run_case', shape, chunksize=1)
    ctx.product_run('default-dtscale', 'checks.c01:run_case', dflt, chunksize=1)
    real = pp.real_product(ctx.tier)
    ctx.bounds['real_backend_runs'] = len(real)
    ctx.product_run('real', 'checks.c01:run_case', real, chunksize=1)
