"""C06 - integrators reach their nominal order (also for time dependent right-hand sides), the RK4 stages are
evaluated at (t, t+dt/2, t+dt/2, t+dt), and an iterator never modifies the state vector it was given.

Bounded exhaustive exploration (E1, full Cartesian products, no sampling) of the real
kawin.solver.Iterators / DESolver / GenericModel.solve:

  stage `order`        system x initial value x start time x duration x iterator x call path x iterator form:
                       a ladder of fixed dyadic steps T/2^m, observed order from successive error ratios against the
                       closed-form solution.  The ladder is *derived per case* with an independent reference
                       integrator written here (plain loops): the window of up to kmax+1 consecutive steps ending at
                       the finest step whose reference error is still >= 100 x the 1e-13 round-off floor, accepted
                       only if the reference shows its textbook order inside a tight band on the three finest pairs.
                       The code under test is never used to choose the ladder.
  stage `stage-times`  (t, h) lattice x iterator x call path: the exact times at which the derivative callback
                       is invoked during one step.
  stage `no-mutation`  (t, h) lattice x iterator x call path x how the derivative is returned (fresh array, the
                       argument itself, a view of the argument - the last two only arise when the flatten
                       function is the identity, e.g. DESolver.flattenXNotImplemented): bytes of the state
                       vector before == after the iterator call.  The same byte comparison is also made on
                       every step of every `order` run that uses a wrapped iterator.
"""
import math

PROPERTY = 'C06'
LEVEL = 'exploration'

np = None

# ---- tolerances (each next to its origin) -----------------------------------------------------------------
FLOOR = 1e-13            # property text / DESIGN: only error pairs above 1e-13 absolute error enter an order estimate
REF_MARGIN = 1e-11       # ladder design: reference errors on the pairs used must be >= 100 x FLOOR so that accumulated
#                          round-off (<= N*eps ~ 1e-13 for N <= 1024 steps on O(1..10) states) perturbs a ratio by < 1 %
BAND = {'euler': (0.9, 1.15), 'rk4': (3.7, 4.3)}          # DESIGN C06 oracle
TIGHT = {'euler': (0.93, 1.10), 'rk4': (3.85, 4.15)}      # band the *reference* integrator must meet on a ladder before
#                                                           the ladder is used (strictly inside BAND: margin for rounding)


def prepare():
    global np, quad, expm, GenericModel, DESolver, SolverType, ExplicitEulerIterator, RK4Iterator
    import numpy as np
    from scipy.integrate import quad
    from scipy.linalg import expm
    from kawin.GenericModel import GenericModel
    from kawin.solver.Solver import SolverType, DESolver
    from kawin.solver.Iterators import ExplicitEulerIterator, RK4Iterator
    _define()


# ---- the systems (closed forms) ----------------------------------------------------------------------------
SYS = {}
ORDER_SYSTEMS = ['decay', 'logistic', 'oscillator', 'linear3', 'cos', 'gauss', 'mixed', 'arrhenius', 'riccati']

A3 = [[-0.3, 1.5, 0.2], [-1.5, -0.3, 0.1], [0.4, -0.2, -0.8]]     # spectrum -0.3 +- 1.5i (approx), -0.8: complex pair
ARR_A, ARR_Q, ARR_TS, ARR_R = 5.0e3, 6000.0, 600.0, 200.0         # k(t) = A exp(-Q/(Ts + r t)): 0.23 .. 2.8 on [0, 1]
OMEGA = 1.5


def _define():
    global SysModel, IdentityModel
    A = np.array(A3)

    def arr_k(t):
        return ARR_A * math.exp(-ARR_Q / (ARR_TS + ARR_R * t))

    def arr_exact(t0, x0, t):
        val, est = quad(arr_k, t0, t, epsabs=0.0, epsrel=2e-14, limit=200)
        if not est <= 1e-13 * abs(val) + 1e-300:
            raise RuntimeError('quadrature of the Arrhenius rate did not converge: %r +- %r' % (val, est))
        return x0 * math.exp(-val)

    def osc_exact(t0, x0, t):
        c, s = math.cos(OMEGA * (t - t0)), math.sin(OMEGA * (t - t0))
        return np.array([x0[0] * c + x0[1] / OMEGA * s, -x0[0] * OMEGA * s + x0[1] * c])

    SYS.update({
        # autonomous
        'decay': dict(auton=True, T=2.0, T2=4.0, t0s=[0.0, 1.5], x0s=[[1.0], [-2.5], [0.3]],
                      f=lambda t, x: -x, exact=lambda t0, x0, t: x0 * math.exp(-(t - t0))),
        'logistic': dict(auton=True, T=2.0, T2=4.0, t0s=[0.0, -0.5], x0s=[[0.1], [2.0], [0.5]],
                         f=lambda t, x: x * (1.0 - x),
                         exact=lambda t0, x0, t: 1.0 / (1.0 + (1.0 / x0 - 1.0) * math.exp(-(t - t0)))),
        'oscillator': dict(auton=True, T=2.0, T2=4.0, t0s=[0.0, 0.75], x0s=[[1.0, 0.0], [0.3, -0.7], [0.0, 2.0]],
                           f=lambda t, x: np.array([x[1], -OMEGA * OMEGA * x[0]]), exact=osc_exact),
        'linear3': dict(auton=True, T=2.0, T2=4.0, t0s=[0.0, 1.0], x0s=[[1.0, 0.0, 0.0], [0.2, -0.5, 1.0], [0.0, 1.0, -1.0]],
                        f=lambda t, x: A @ x, exact=lambda t0, x0, t: expm(A * (t - t0)) @ x0),
        # non-autonomous
        'cos': dict(auton=False, T=2.0, T2=2.5, t0s=[0.0, 0.5, -1.5], x0s=[[0.0], [1.25], [-3.0]],
                    f=lambda t, x: math.cos(t) * np.ones_like(x),
                    exact=lambda t0, x0, t: x0 + math.sin(t) - math.sin(t0)),
        'gauss': dict(auton=False, T=1.0, T2=1.5, t0s=[0.0, -0.125, 0.25], x0s=[[1.0], [-0.7], [2.0]],
                      f=lambda t, x: -2.0 * t * x, exact=lambda t0, x0, t: x0 * math.exp(-(t * t - t0 * t0))),
        'mixed': dict(auton=False, T=1.0, T2=2.0, t0s=[0.0, 0.5, -0.75], x0s=[[0.0], [1.0], [-3.0]],
                      f=lambda t, x: x + t, exact=lambda t0, x0, t: (x0 + t0 + 1.0) * math.exp(t - t0) - t - 1.0),
        'arrhenius': dict(auton=False, T=1.0, T2=None, t0s=[0.0, 0.5, 0.25], x0s=[[1.0], [0.4], [-2.0]],
                          f=lambda t, x: -arr_k(t) * x, exact=arr_exact),
        'riccati': dict(auton=False, T=2.0, T2=3.0, t0s=[0.0, 0.5, -1.0], x0s=[[1.0], [0.5], [2.0]],
                        f=lambda t, x: -x * x * (1.0 + math.sin(t)),
                        exact=lambda t0, x0, t: 1.0 / (1.0 / x0 + (t - math.cos(t)) - (t0 - math.cos(t0)))),
    })

    class SysModel(GenericModel):
        """A GenericModel whose getdXdt is one of the systems above and whose getDt fixes the step.
        layout 'array'  : X = [1-D array]         layout 'scalars': X = [float, float, ...]"""

        def __init__(self, f, t0, x0, h, layout='array'):
            super().__init__()
            self.f, self.t, self.h, self.layout = f, t0, h, layout
            self.x = np.array(x0, dtype=float)
            self.events = []
            self.nsteps = 0

        def _pack(self, v):
            return [np.array(v, dtype=float)] if self.layout == 'array' else [float(c) for c in v]

        def _unpack(self, X):
            return np.asarray(X[0], dtype=float) if self.layout == 'array' else np.array([float(c) for c in X])

        def getCurrentX(self):
            return self.t, self._pack(self.x)

        def getdXdt(self, t, X):
            self.events.append(('f', t))
            return self._pack(self.f(t, self._unpack(X)))

        def correctdXdt(self, dt, x, dXdt):
            self.events.append(('c', dt))

        def getDt(self, dXdt):
            return self.h

        def postProcess(self, time, X):
            self.events.append(('post', time))
            self.t, self.x = time, self._unpack(X)
            self.nsteps += 1
            if self.nsteps > 5000000:
                raise RuntimeError('horizon: more than 5e6 accepted steps')      # explicit horizon of every run of this check
            return X, False

    class IdentityModel(GenericModel):
        """State is one flat ndarray and flatten/unflatten are the identity, so the array the iterator receives is
        the model's own state array and whatever getdXdt returns reaches the iterator unchanged."""

        def __init__(self, fraw, t0, x0, h):
            super().__init__()
            self.fraw, self.t, self.h = fraw, t0, h
            self.x = np.array(x0, dtype=float)

        def getCurrentX(self):
            return self.t, self.x

        def getdXdt(self, t, x):
            return self.fraw(t, x)

        def getDt(self, dXdt):
            return self.h

        def flattenX(self, X):
            return X

        def unflattenX(self, X_flat, X_ref):
            return X_flat

        def postProcess(self, time, X):
            self.t, self.x = time, X
            return X, False


# ---- independent reference integrators (textbook forms, plain loops) -----------------------------------------------

def ref_solve(f, t0, x0, T, h, it):
    n = int(round(T / h))
    t, x = t0, np.array(x0, dtype=float)
    for _ in range(n):
        if it == 'euler':
            x = x + h * f(t, x)
        else:
            k1 = f(t, x)
            k2 = f(t + h / 2, x + h / 2 * k1)
            k3 = f(t + h / 2, x + h / 2 * k2)
            k4 = f(t + h, x + h * k3)
            x = x + h / 6 * (k1 + 2 * k2 + 2 * k3 + k4)
        t = t + h
    return t, x


def _err(sysd, t0, x0, t, x):
    ex = np.atleast_1d(np.asarray(sysd['exact'](t0, np.array(x0, dtype=float) if len(x0) > 1 else float(x0[0]), t),
                                  dtype=float))
    return float(np.max(np.abs(np.atleast_1d(x) - ex)))


def _orders(errs):
    out = []
    for a, b in zip(errs[:-1], errs[1:]):
        out.append(math.log2(a / b) if (a > 0 and b > 0 and math.isfinite(a) and math.isfinite(b)) else float('nan'))
    return out


def derive_ladder(sysd, t0, x0, T, it, kmax):
    """The reference integrator is run on every dyadic step T/2^m, m = 0..kmax+5.  The ladder is the window of (at
    most) kmax+1 consecutive steps that ends at the finest step whose reference error is still >= REF_MARGIN (for
    Euler that is always the finest step; for RK4 it keeps the ladder above the round-off floor).  It is accepted only
    if the reference shows its textbook order inside TIGHT on the three finest pairs of the window; otherwise the
    system / duration / initial value is unsuitable (not in the asymptotic regime above the floor) and the harness
    raises - the alphabet must be changed then, never the band."""
    hs_all = [T / 2 ** m for m in range(kmax + 6)]
    errs_all = []
    for h in hs_all:
        t, x = ref_solve(sysd['f'], t0, x0, T, h, it)
        errs_all.append(_err(sysd, t0, x0, t, x))
    ok = [m for m, e in enumerate(errs_all) if e >= REF_MARGIN]
    end = max(ok) if ok else -1
    start = max(0, end - kmax)
    errs = errs_all[start:end + 1]
    lo, hi = TIGHT[it]
    if end - start < 3 or not all(lo <= p <= hi for p in _orders(errs[-4:])):
        raise RuntimeError('no admissible step ladder for %s: steps %r reference errors %r' % (it, hs_all, errs_all))
    return hs_all[start:end + 1], errs


# ---- running the real code ------------------------------------------------------------------------------------------

def _iterator(it, form, rec):
    """form 'enum': the SolverType member (exercises DESolver.setIterator); form 'wrapped': a callable around the real
    iterator function that records the bytes of the state vector before and after the call."""
    if form == 'enum':
        return SolverType.EXPLICITEULER if it == 'euler' else SolverType.RK4
    base = ExplicitEulerIterator if it == 'euler' else RK4Iterator

    def wrapped(f, t, X_old, updateX):
        before = np.array(X_old, copy=True)
        out = base(f, t, X_old, updateX)
        rec.append((t, out[1], before.tobytes() == np.asarray(X_old).tobytes(), before, np.array(X_old, copy=True)))
        return out
    return wrapped


def kawin_solve(f, t0, x0, T, h, it, path, form, rec):
    if path == 'model':
        m = SysModel(f, t0, x0, h, layout='array' if form == 'enum' else 'scalars')
        m.solve(T, solverType=_iterator(it, form, rec))
        return m.t, m.x, m.nsteps
    # DESolver used directly with its own identity flatten/unflatten defaults; state is the flat array
    state = {'t': t0, 'x': np.array(x0, dtype=float), 'n': 0}
    s = DESolver(_iterator(it, form, rec))

    def post(currTime, X):
        state['t'], state['x'] = currTime, X
        state['n'] += 1
        return X, False
    s.setFunctions(postProcess=post)
    s.setdXdtFunctions(f, s.correctdXdtNotImplemented, lambda dXdt: h, s.flattenXNotImplemented, s.unflattenXNotImplemented)
    s.solve(t0, state['x'], t0 + T)
    return state['t'], np.asarray(state['x'], dtype=float), state['n']


def run_order(case):
    name, x0, t0, T, it, path, form, kmax = (case['system'], case['x0'], case['t0'], case['T'], case['it'],
                                            case['path'], case['form'], case['kmax'])
    sysd = SYS[name]
    tag = 'order system=%s x0=%r t0=%r T=%r it=%s path=%s form=%s' % (name, x0, t0, T, it, path, form)
    kind = '%s-order%s/%s' % (it, '' if sysd['auton'] else '-nonautonomous', name)
    hs, ref_errs = derive_ladder(sysd, t0, x0, T, it, kmax)
    kmax = len(hs) - 1
    viol, errs, nsteps, mutated = [], [], 0, None
    for h in hs:
        rec = []
        try:
            tf, xf, n = kawin_solve(sysd['f'], t0, x0, T, h, it, path, form, rec)
        except Exception as e:
            viol.append({'sig': 'exception/%s/%s' % (it, name), 'msg': '%s h=%r: %s: %s' % (tag, h, type(e).__name__, e)})
            return {'viol': viol, 'states': nsteps, 'outcome': 'exception'}
        nsteps += n
        errs.append(_err(sysd, t0, x0, tf, xf))
        for (t, dt, same, before, after) in rec:
            if not same and mutated is None:
                mutated = 'h=%r step at t=%r: state vector %r -> %r' % (h, t, before, after)
    if mutated:
        viol.append({'sig': '%s-mutates-x/fresh-derivative' % it, 'msg': tag + ': ' + mutated})
    orders = _orders(errs)
    valid = [k for k in range(kmax) if errs[k] > FLOOR and errs[k + 1] > FLOOR]
    finite = all(math.isfinite(e) for e in errs)
    if finite and len(valid) < 3:
        # cannot happen for a method of the nominal order on a ladder the reference validated (errors >= 100 x floor)
        # unless the code under test is far *more* accurate than its nominal order - a harness matter, not a verdict
        raise RuntimeError('%s: fewer than three error pairs above the floor: %r (reference %r)' % (tag, errs, ref_errs))
    fine = valid[-3:]
    lo, hi = BAND[it]
    bad = [k for k in fine if not (lo <= orders[k] <= hi)] if finite else list(range(kmax))
    if bad:
        viol.append({'sig': kind,
                     'msg': '%s: observed order %s on the three finest valid pairs (band [%g, %g]); h=%r errors=%s; '
                            'reference integrator errors=%s' % (tag, ['%.3f' % orders[k] for k in fine] if finite else 'n/a',
                                                                lo, hi, hs, ['%.3e' % e for e in errs],
                                                                ['%.3e' % e for e in ref_errs])})
    pfine = orders[fine[-1]] if finite else float('nan')
    return {'viol': viol, 'states': nsteps, 'transitions': nsteps, 'traces': len(hs),
            'outcome': '%s:order~%s' % (it, ('%d' % round(pfine)) if math.isfinite(pfine) else 'nan'),
            'nontrivial': len(fine) == 3,
            'info': {'h0': hs[0], 'steps_in_ladder': len(hs), 'orders_fine': [round(orders[k], 3) for k in fine] if finite else None,
                     'err_fine': errs[-1], 'dev_from_reference': abs(errs[-1] - ref_errs[-1])}}


# ---- stage times --------------------------------------------------------------------------------------------------


# ---- stage 'ragged': intervals that are NOT a whole number of steps, with a large minimum step fraction ----------------
# The last step is the remainder (shorter than the minimum step, as the solver documents).  The end state must be the one
# obtained by taking exactly those steps - N full steps and the remainder - with the scheme of the iterator; in particular
# the solver may not move the clock to the end time without advancing the state over the remainder.

def _ref_steps(f, t, x, dts, it):
    x = np.array(x, dtype=float)
    for h in dts:
        if it == 'euler':
            x = x + h * f(t, x)
        else:
            k1 = f(t, x)
            k2 = f(t + h / 2, x + h / 2 * k1)
            k3 = f(t + h / 2, x + h / 2 * k2)
            k4 = f(t + h, x + h * k3)
            x = x + h / 6 * (k1 + 2 * k2 + 2 * k3 + k4)
        t = t + h
    return t, x


def run_ragged(case):
    name, x0, t0, T, it, m, frac, minfrac = (case['system'], case['x0'], case['t0'], case['T'], case['it'], case['m'],
                                             case['frac'], case['minfrac'])
    sysd = SYS[name]
    h = T / (2 ** m + frac)
    tag = 'ragged system=%s x0=%r t0=%r T=%r it=%s h=T/(%d+%g) minDtFrac=%g' % (name, x0, t0, T, it, 2 ** m, frac, minfrac)
    viol = []
    mdl = SysModel(sysd['f'], t0, x0, h, layout='array')
    try:
        mdl.solve(T, solverType=SolverType.EXPLICITEULER if it == 'euler' else SolverType.RK4, minDtFrac=minfrac)
    except Exception as e:
        return {'viol': [{'sig': 'ragged/exception/%s' % it, 'msg': '%s: %s: %s' % (tag, type(e).__name__, e)}], 'states': 0, 'outcome': 'exception'}
    times = [t0] + [e[1] for e in mdl.events if e[0] == 'post']
    dts = [b - a for a, b in zip(times[:-1], times[1:])]
    # the step sizes the solver handed to the model (last correctdXdt call of every step)
    used = [e[1] for e in mdl.events if e[0] == 'c']
    per = 1 if it == 'euler' else 4
    dts_used = used[per - 1::per]
    tf = t0 + T
    if times[-1] != tf:
        viol.append({'sig': 'ragged/end-time/%s' % it, 'msg': '%s: ended at %r, requested %r' % (tag, times[-1], tf)})
    if len(dts_used) != len(dts):
        viol.append({'sig': 'ragged/steps-vs-updates/%s' % it, 'msg': '%s: %d accepted steps but %d state updates' % (tag, len(dts), len(dts_used))})
    else:
        # clock and state must advance together: every accepted time increment equals the step the state was advanced by
        bad = [i for i, (a, b) in enumerate(zip(dts, dts_used)) if abs(a - b) > 4 * np.spacing(max(abs(times[i + 1]), 1.0))]
        if bad:
            i = bad[0]
            viol.append({'sig': 'ragged/clock-vs-state/%s' % it, 'msg': '%s: step %d moved the clock by %r but the state by %r' % (tag, i, dts[i], dts_used[i])})
        _, xr = _ref_steps(sysd['f'], t0, x0, dts_used, it)
        if not np.allclose(mdl.x, xr, rtol=1e-11, atol=1e-14):
            viol.append({'sig': 'ragged/state-vs-reference/%s' % it, 'msg': '%s: end state %r, reference over the same steps %r' % (tag, mdl.x, xr)})
    # and the end state must be accurate for the END TIME (error within the scheme's bound for that step size: generous x50)
    err = _err(sysd, t0, x0, tf, mdl.x)
    _, xfull = _ref_steps(sysd['f'], t0, x0, [h] * (2 ** m) + [T - h * 2 ** m], it)
    eref = _err(sysd, t0, x0, tf, xfull)
    if err > 50 * eref + 1e-12:
        viol.append({'sig': 'ragged/accuracy-at-end-time/%s' % it, 'msg': '%s: error at the end time %r, reference scheme over N steps + remainder %r' % (tag, err, eref)})
    return {'viol': viol, 'states': len(dts), 'transitions': len(dts), 'outcome': 'rem=%s' % ('short' if dts and dts[-1] < minfrac * T else 'long')}


def _expected_times(it, t, dt):
    return [t] if it == 'euler' else [t, t + dt / 2, t + dt / 2, t + dt]


def run_stage_times(case):
    """Whole (t, h) lattice for one iterator and call path; one violation per (iterator, path) with the first failing
    points in the message."""
    it, path, ts, hs = case['it'], case['path'], case['ts'], case['hs']
    adaptive = bool(case.get('adaptive'))     # step proposed by the model depends on the derivative it is given (shrinks along a step)
    base = ExplicitEulerIterator if it == 'euler' else RK4Iterator

    def hof(h, d):
        return h / (1.0 + float(np.max(np.abs(d)))) if adaptive else h
    fails, npts, nsteps, distinct = [], 0, 0, 0
    for t0 in ts:
        for h in hs:
            npts += 1
            if t0 + h / 2 == t0 or t0 + h / 2 == t0 + h:
                continue        # lattice point not resolvable in floats: the four stage times would coincide
            if adaptive and not (abs(t0) <= 100.0 and 1e-3 <= h <= 1.0):
                continue        # derivative-dependent steps are up to ~10 x shorter: keep them resolvable and the solution bounded
            distinct += 1
            try:
                if path == 'direct':
                    seen = []

                    def f(t, x, getDt=False, _s=seen):
                        _s.append(t)
                        d = 0.5 * x + math.cos(t)
                        return (d, hof(h, d)) if getDt else d
                    x0_ = np.array([1.0, -2.0])
                    _, dt_ret = base(f, t0, x0_, lambda x, d, dt: x + d * dt)
                    steps = [(t0, dt_ret, seen)]          # the step the iterator reports is the step its stages belong to
                else:
                    f = lambda t, x: 0.5 * x + math.cos(t)
                    if path == 'model':
                        m = SysModel(f, t0, [1.0, -2.0], h)
                        if adaptive:
                            m.getDt = lambda dXdt, _h=h: hof(_h, np.concatenate([np.atleast_1d(np.asarray(c, dtype=float)) for c in dXdt]))
                        m.solve(3 * h, solverType=_iterator(it, 'enum', None))
                        ev = m.events
                    else:
                        ev = []
                        s = DESolver(_iterator(it, 'enum', None))
                        s.setFunctions(postProcess=lambda ct, X, _e=ev: (_e.append(('post', ct)), (X, False))[1])
                        s.setdXdtFunctions(lambda t, x, _e=ev: (_e.append(('f', t)), f(t, x))[1],
                                           lambda dt, x, d, _e=ev: _e.append(('c', dt)),
                                           lambda dXdt: hof(h, dXdt), s.flattenXNotImplemented, s.unflattenXNotImplemented)
                        s.solve(t0, np.array([1.0, -2.0]), t0 + 3 * h)
                    # split the event log into steps; the step length actually used is the dt of the last
                    # correctdXdt call of the step (the final update), the start is the previous accepted time
                    steps, cur_f, cur_c, start = [], [], [], t0
                    for e in ev:
                        if e[0] == 'f':
                            cur_f.append(e[1])
                        elif e[0] == 'c':
                            cur_c.append(e[1])
                        else:
                            dt_used = cur_c[-1] if cur_c else float('nan')
                            steps.append((start, dt_used, cur_f))
                            if e[1] != start + dt_used:
                                fails.append('(t=%r, dt=%r): the clock advanced to %r, the state by a step of %r' % (start, dt_used, e[1], dt_used))
                            cur_f, cur_c, start = [], [], e[1]
            except Exception as e:
                fails.append('(t=%r, h=%r): %s: %s' % (t0, h, type(e).__name__, e))
                continue
            for (ts_, dt, seen) in steps:
                nsteps += 1
                exp = _expected_times(it, ts_, dt)
                if list(seen) != exp:
                    wrong = [i + 1 for i in range(max(len(seen), len(exp)))
                             if i >= len(seen) or i >= len(exp) or seen[i] != exp[i]]
                    fails.append('(t=%r, dt=%r): derivative evaluated at %r, documented %r (stages %s differ)'
                                 % (ts_, dt, list(seen), exp, wrong))
                    break
    viol = []
    if fails:
        viol.append({'sig': '%s-stage-times/%s%s' % (it, path, '/derivative-dependent-step' if adaptive else ''),
                     'msg': '%d of %d lattice points fail; first: %s' % (len(fails), npts, ' | '.join(fails[:3]))})
    return {'viol': viol, 'states': nsteps, 'transitions': nsteps, 'traces': npts,
            'outcome': '%s/%s:%s' % (it, path, 'ok' if not fails else 'wrong-times'), 'nontrivial': distinct > 0,
            'info': {'lattice_points': npts, 'resolvable': distinct, 'failing': len(fails)}}


# ---- state vector not modified ----------------------------------------------------------------------------------------

def _raw_f(variant):
    """x' = P x with P the reversal permutation (x' = x in one dimension).  How the derivative object is produced:
    fresh  - a new array;  arg - the argument itself (only for dim 1: x' = x);  view - a reversed view of the argument."""
    if variant == 'fresh':
        return lambda t, x: np.array(x[::-1], copy=True)
    if variant == 'arg':
        return lambda t, x: x
    return lambda t, x: x[::-1]


def run_mutation(case):
    it, path, variant, dim, ts, hs = case['it'], case['path'], case['variant'], case['dim'], case['ts'], case['hs']
    base = ExplicitEulerIterator if it == 'euler' else RK4Iterator
    raw = _raw_f(variant)
    x0 = [1.0, -2.0, 0.5][:dim]
    fails, ncalls = [], 0
    for t0 in ts:
        for h in hs:
            rec = []
            try:
                if path == 'direct':
                    X_old = np.array(x0)
                    before = X_old.copy()

                    def f(t, x, getDt=False):
                        d = raw(t, x)
                        return (d, h) if getDt else d
                    out, dt = base(f, t0, X_old, lambda x, d, dt: x + d * dt)
                    rec.append((t0, dt, before.tobytes() == X_old.tobytes(), before, X_old.copy()))
                elif path == 'desolver':
                    s = DESolver(_iterator(it, 'wrapped', rec))
                    s.setdXdtFunctions(raw, s.correctdXdtNotImplemented, lambda dXdt: h, s.flattenXNotImplemented,
                                       s.unflattenXNotImplemented)
                    s.solve(t0, np.array(x0), t0 + 2 * h)
                else:
                    m = IdentityModel(raw, t0, x0, h)
                    m.solve(2 * h, solverType=_iterator(it, 'wrapped', rec))
            except Exception as e:
                fails.append('(t=%r, h=%r): %s: %s' % (t0, h, type(e).__name__, e))
                continue
            for (t, dt, same, before, after) in rec:
                ncalls += 1
                if not same:
                    fails.append('(t=%r, dt=%r): state vector handed to the iterator %r -> %r' % (t, dt, before, after))
                    break
    viol = []
    if fails:
        viol.append({'sig': '%s-mutates-x/%s' % (it, 'fresh-derivative' if variant == 'fresh' else 'derivative-aliases-state'),
                     'msg': 'path=%s derivative=%s dim=%d: %d failing lattice points; first: %s'
                            % (path, variant, dim, len(fails), ' | '.join(fails[:3]))})
    return {'viol': viol, 'states': ncalls, 'transitions': ncalls, 'traces': len(ts) * len(hs),
            'outcome': '%s/%s:%s' % (it, variant, 'unchanged' if not fails else 'modified'),
            'info': {'iterator_calls': ncalls, 'failing': len(fails)}}


# ---------------------------------------------------------------------------------------------------------------

LAT_T = [0.0, 0.1, 1.0 / 3.0, -5.0, 1.0e6, 12345.678]
LAT_H = [1.0e-3, 0.1, 0.3, 1.0, 7.0 / 3.0, 1.0e5]
LAT_T_X = [0.5, -0.1, 2.0 ** -20, 3600.0, 1.0e9, -1.0e3]
LAT_H_X = [1.0e-6, 2.0 ** -7, 0.5, 10.0, 1234.5, 1.0e7]


def run(ctx):
    quick = ctx.quick
    kmax = 5 if quick else 6
    nlev = 3
    paths = ['model', 'desolver']
    forms = ['enum', 'wrapped']
    ctx.rule = ('full product: 9 closed-form systems (4 autonomous, 5 time dependent incl. a temperature-ramp Arrhenius decay) '
                'x initial values x start times x durations x {euler, rk4} x {GenericModel.solve, DESolver direct} x '
                '{SolverType member, wrapped callable}, each on a dyadic step ladder derived with an independent reference '
                'integrator; stage-time and state-vector-unchanged checks on full (t, h) lattices; non-trivial = at least '
                'three error pairs above 1e-13 entered the order estimate / lattice point resolvable in floats')
    ctx.assumptions = ['order is estimated only from error pairs above 1e-13 absolute error, on ladders for which an '
                       'independent reference integrator shows euler in [0.93, 1.10] / rk4 in [3.85, 4.15] with errors >= 1e-11',
                       'start times, durations and steps are dyadic so that accepted times are exact and every run takes T/h steps',
                       'stage-time lattice points whose four stage times coincide in floating point are counted as trivial']
    cases = []
    for name in ORDER_SYSTEMS:
        sysd = SYS[name]
        Ts = [sysd['T']] if (quick or sysd['T2'] is None) else [sysd['T'], sysd['T2']]
        for x0 in sysd['x0s'][:nlev]:
            for t0 in sysd['t0s'][:nlev]:
                for T in Ts:
                    for it in ('euler', 'rk4'):
                        for path in paths:
                            for form in forms:
                                cases.append({'system': name, 'x0': x0, 't0': t0, 'T': T, 'it': it, 'path': path,
                                              'form': form, 'kmax': kmax})
    ctx.bounds = {'systems': ORDER_SYSTEMS, 'ladder': 'T/2^m, window of <= %d consecutive steps derived per case (see derive_ladder)' % (kmax + 1),
                  'initial_values_per_system': nlev, 'start_times_per_system': nlev,
                  'durations_per_system': 1 if quick else 2, 'iterators': ['euler', 'rk4'], 'paths': paths, 'forms': forms,
                  'order_bands': BAND, 'error_floor': FLOOR}
    ctx.product_run('order', 'checks.c06:run_order', cases, chunksize=1)
    rcases = []
    for name in (['decay', 'cos', 'oscillator'] if quick else ORDER_SYSTEMS):
        sysd = SYS[name]
        for x0 in sysd['x0s'][:2]:
            for t0 in sysd['t0s'][:2]:
                for it in ('euler', 'rk4'):
                    for m in (3, 4, 5):
                        for frac in (0.3, 0.9):
                            for minfrac in (1e-8, 0.02):
                                rcases.append({'system': name, 'x0': x0, 't0': t0, 'T': sysd['T'], 'it': it, 'm': m, 'frac': frac, 'minfrac': minfrac})
    ctx.product_run('ragged', 'checks.c06:run_ragged', rcases)

    ts = LAT_T if quick else LAT_T + LAT_T_X
    hs = LAT_H if quick else LAT_H + LAT_H_X
    ctx.bounds['lattice_t'] = ts
    ctx.bounds['lattice_h'] = hs
    scases = [{'it': it, 'path': p, 'ts': [t], 'hs': hs, 'adaptive': ad} for it in ('euler', 'rk4') for p in ('direct', 'model', 'desolver')
              for t in ts for ad in (False, True)]
    ctx.product_run('stage-times', 'checks.c06:run_stage_times', scases)

    mcases = []
    for it in ('euler', 'rk4'):
        for p in ('direct', 'desolver', 'model-identity'):
            for variant, dims in (('fresh', (1, 3)), ('arg', (1,)), ('view', (2, 3))):
                for dim in dims:
                    for t in ts:
                        mcases.append({'it': it, 'path': p, 'variant': variant, 'dim': dim, 'ts': [t], 'hs': hs})
    ctx.product_run('no-mutation', 'checks.c06:run_mutation', mcases)
