"""C15 - precipitate shape factors match the geometry they describe.

Bounded exhaustive exploration (full Cartesian products, no sampling) of the real
kawin.precipitation.parameters.ShapeFactors:

  stage `reference`   shape x aspect-ratio lattice on [1, 100] (dense near 1): unit volume and requested ratio of the
                      returned axes; equivalent-radius factor from the volume of the body; thermodynamic factor =
                      area / area of the equal-volume sphere and kinetic factor = capacitance / equal-volume sphere
                      radius by numerical quadrature of the defining integrals (needle = prolate, plate = oblate
                      spheroid) - independent of kawin's closed forms.
  stage `continuity`  shape x factor: value at 1, right limits (down to the next float above 1), inputs below 1
                      (treated as 1, bit for bit), equal to 1 at ratio 1 and increasing (needle, plate).
  stage `forms`       shape x method x argument form (python float/int, numpy scalar, 0-d array, list, tuple, float /
                      int / strided arrays, ShapeFactor with scalar / radius dependent aspect ratio): element-wise
                      bit equality with the scalar call, output shape, caller's object bit-identical afterwards.
  stage `rcrit`       shape x aspect-ratio function x R_sphere x R_max x tolerance: residual of
                      R = R_sphere * thermoFactor(aspect(R)) at the returned radius, evaluated with the independent
                      reference factor, whenever a root is bracketed by [R_sphere, R_max].
  stage `history`     E2: BFS over histories of ShapeFactor configuration / query operations on fresh objects; every
                      state must answer all queries exactly like a freshly constructed object with that configuration.
"""
import math

PROPERTY = 'C15'
LEVEL = 'exploration'

np = None

# ---- tolerances ------------------------------------------------------------------------------------------------------
TOL_QUAD = 1e-8      # DESIGN C15: closed forms vs quadrature (quadrature itself is asked for 1e-13 and verified < 1e-11;
#                      the closed forms lose ~1e-10 by cancellation at ratio 1+1e-12)
TOL_GEOM = 1e-12     # products / ratios of three cube roots: a few ulp
TOL_CONT = 1e-6      # DESIGN C15: left/right limits at ratio 1 agree with the value at 1 (all factors are Lipschitz with
#                      constant < 1 in the ratio, the right-limit probes are at most 1e-7 above 1)
TOL_MONO = 1e-8      # non-decreasing up to the evaluation noise of the closed forms near ratio 1 (see TOL_QUAD)

SHAPES = ['sphere', 'needle', 'plate', 'cubic']
FACTORS = ['eqRadiusFactor', 'thermoFactor', 'kineticFactor']
METHODS = FACTORS + ['normalRadii']

AR_QUICK = [1.0, 1 + 1e-12, 1 + 1e-9, 1 + 1e-6, 1.001, 1.01, 1.1, 1.5, 2.0, 3.0, 5.0, 10.0, 20.0, 50.0, 100.0]
AR_EXTRA = [1 + 1e-10, 1 + 1e-7, 1.0001, 1.05, 1.2, 1.25, 4.0 / 3.0, 1.75, 2.5, 4.0, 7.5, 15.0, 30.0, 75.0, 99.999]
RIGHT = ['next', 1e-15, 1e-12, 1e-9, 1e-7]            # 1 + eps ('next' = the next float above 1)
BELOW = ['prev', 1 - 1e-9, 0.999, 0.5, 0.0, -1.0, -1e300]


def prepare():
    global np, quad, SF
    import numpy as np
    from scipy.integrate import quad
    import kawin.precipitation.parameters.ShapeFactors as SF


def _desc(shape):
    return {'sphere': SF.SphereDescription, 'needle': SF.NeedleDescription, 'plate': SF.PlateDescription,
            'cubic': SF.CuboidalDescription}[shape]()


# ---- independent reference geometry ----------------------------------------------------------------------------------

def _quad(g, a, b):
    v, e = quad(g, a, b, epsabs=0.0, epsrel=1e-13, limit=400)
    if not e <= 1e-11 * abs(v):
        raise RuntimeError('reference quadrature did not converge: %r +- %r' % (v, e))
    return v


def spheroid_area(a, c):
    """Area of the surface of revolution x = a sin(th), z = c cos(th) (a: equatorial, c: polar semi-axis)."""
    return 2 * math.pi * _quad(lambda th: a * math.sin(th) * math.sqrt(a * a * math.cos(th) ** 2 + c * c * math.sin(th) ** 2),
                               0.0, math.pi)


def ellipsoid_capacitance(a, b, c):
    """C = 2 / int_0^inf ds / sqrt((a^2+s)(b^2+s)(c^2+s))  (units in which a sphere of radius R has C = R)."""
    m = (a * b * c) ** (2.0 / 3.0)
    g = lambda s: 1.0 / math.sqrt((a * a + s) * (b * b + s) * (c * c + s))
    tail = lambda w: (m / (w * w)) * g(m / w) if w > 0 else 0.0          # s = m / w
    return 2.0 / (_quad(g, 0.0, m) + _quad(tail, 0.0, 1.0))


def ref_axes(shape, ar):
    """Body with short (semi-)axis 1: the three (semi-)axes, its volume and its area."""
    if shape == 'sphere':
        return (1.0, 1.0, 1.0), 4 * math.pi / 3, 4 * math.pi
    if shape == 'needle':
        return (1.0, 1.0, ar), 4 * math.pi / 3 * ar, None
    if shape == 'plate':
        return (ar, ar, 1.0), 4 * math.pi / 3 * ar * ar, None
    return (1.0, 1.0, ar), ar, 2.0 + 4.0 * ar           # cuboid with edges 1 x 1 x ar


def ref_factors(shape, ar):
    """(eq radius factor, thermo factor, kinetic factor or None) from volume, area and capacitance of the body."""
    axes, vol, area = ref_axes(shape, ar)
    req = (3 * vol / (4 * math.pi)) ** (1.0 / 3.0)
    if shape == 'sphere':
        return 1.0, 1.0, 1.0
    if shape == 'needle':
        area = spheroid_area(1.0, ar)
        cap = ellipsoid_capacitance(1.0, 1.0, ar)
    elif shape == 'plate':
        area = spheroid_area(ar, 1.0)
        cap = ellipsoid_capacitance(ar, ar, 1.0)
    else:
        cap = None
    return req, area / (4 * math.pi * req * req), (cap / req if cap is not None else None)


def ref_thermo(shape, ar):
    ar = max(1.0, float(ar))
    if shape == 'sphere':
        return 1.0
    if shape == 'cubic':
        req = (3 * ar / (4 * math.pi)) ** (1.0 / 3.0)
        return (2.0 + 4.0 * ar) / (4 * math.pi * req * req)
    req = ar ** (1.0 / 3.0) if shape == 'needle' else ar ** (2.0 / 3.0)
    area = spheroid_area(1.0, ar) if shape == 'needle' else spheroid_area(ar, 1.0)
    return area / (4 * math.pi * req * req)


def _rel(a, b):
    return abs(a - b) / max(abs(b), 1e-300)


# ---- stage reference -------------------------------------------------------------------------------------------------

def run_reference(case):
    shape, ars = case['shape'], case['ars']
    d = _desc(shape)
    viol, fails, n = [], {}, 0

    def bad(kind, msg):
        fails.setdefault(kind, []).append(msg)
    for ar in ars:
        n += 1
        try:
            nr = np.asarray(d.normalRadii(ar), dtype=float)
            eq, th, ki = float(d.eqRadiusFactor(ar)), float(d.thermoFactor(ar)), float(d.kineticFactor(ar))
        except Exception as e:
            bad('exception', 'ar=%r: %s: %s' % (ar, type(e).__name__, e))
            continue
        # axes: unit volume (ellipsoid 4/3 pi abc, cuboid abc), requested ratio, arrangement
        if nr.shape != (3,) or not np.all(np.isfinite(nr)) or not np.all(nr > 0):
            bad('normalRadii', 'ar=%r: axes %r' % (ar, nr))
        else:
            vol = (1.0 if shape == 'cubic' else 4 * math.pi / 3) * nr[0] * nr[1] * nr[2]
            if _rel(vol, 1.0) > TOL_GEOM:
                bad('normalRadii', 'ar=%r: axes %r enclose volume %r, not 1' % (ar, nr, vol))
            s = np.sort(nr)
            want = 1.0 if shape == 'sphere' else ar
            if _rel(s[2] / s[0], want) > TOL_GEOM:
                bad('normalRadii', 'ar=%r: axes %r have ratio %r' % (ar, nr, s[2] / s[0]))
            mid = s[2] if shape == 'plate' else s[0]          # plate: two long axes, else two short axes
            if _rel(s[1], mid) > TOL_GEOM:
                bad('normalRadii', 'ar=%r: axes %r are not a %s' % (ar, nr, shape))
        if shape == 'cubic' and ar == 1.0:
            continue        # the factors *at* ratio 1 of the cuboid are judged by the continuity stage (one defect, one sig)
        req, tref, kref = ref_factors(shape, ar)
        if not _rel(eq, req) <= TOL_GEOM:
            bad('eqRadiusFactor', 'ar=%r: %r, equal-volume sphere radius / short axis = %r' % (ar, eq, req))
        elif shape != 'sphere' and nr.shape == (3,) and not _rel(eq * float(np.min(nr)), (3 / (4 * math.pi)) ** (1.0 / 3.0)) <= TOL_GEOM:
            bad('eqRadiusFactor', 'ar=%r: factor %r x short axis %r is not the unit-volume sphere radius' % (ar, eq, np.min(nr)))
        if not _rel(th, tref) <= (TOL_QUAD if shape in ('needle', 'plate') else TOL_GEOM):
            bad('thermoFactor', 'ar=%r: %r, area / equal-volume sphere area = %r' % (ar, th, tref))
        if kref is not None and not _rel(ki, kref) <= (TOL_QUAD if shape != 'sphere' else 0.0):
            bad('kineticFactor', 'ar=%r: %r, capacitance / equal-volume sphere radius = %r' % (ar, ki, kref))
        if not math.isfinite(ki):
            bad('kineticFactor', 'ar=%r: %r' % (ar, ki))
    for kind, msgs in fails.items():
        viol.append({'sig': '%s-reference/%s' % (kind, shape),
                     'msg': '%s: %d of %d lattice points fail; first: %s' % (shape, len(msgs), n, ' | '.join(msgs[:3]))})
    return {'viol': viol, 'states': n, 'transitions': 4 * n, 'traces': n,
            'outcome': '%s:%s' % (shape, 'ok' if not fails else '+'.join(sorted(fails))),
            'info': {'ars': ars[:4]}}


# ---- stage continuity / monotonicity -----------------------------------------------------------------------------------

def _val(d, method, ar):
    return np.asarray(getattr(d, method)(ar), dtype=float)


def _right(e):
    return float(np.nextafter(1.0, 2.0)) if e == 'next' else 1.0 + e


def _below(b):
    return float(np.nextafter(1.0, 0.0)) if b == 'prev' else float(b)


def run_continuity(case):
    shape, method, ars = case['shape'], case['method'], case['ars']
    d = _desc(shape)
    viol = []
    n = 0
    v1 = None

    def bad(kind, msg):
        viol.append({'sig': '%s/%s/%s' % (kind, shape, method), 'msg': '%s.%s: %s' % (shape, method, msg)})
    try:
        v1 = _val(d, method, 1.0)
        # (a) right limits
        worst = None
        for e in RIGHT:
            a = _right(e)
            v = _val(d, method, a)
            n += 1
            dev = float(np.max(np.abs(v - v1))) if np.all(np.isfinite(v)) and np.all(np.isfinite(v1)) else float('inf')
            if not dev <= TOL_CONT and (worst is None or dev > worst[0]):
                worst = (dev, a, v)
        if worst:
            bad('continuity-at-1', 'value at ratio 1 is %r but at ratio %r it is %r (jump %.3g > %g)'
                % (v1.tolist(), worst[1], worst[2].tolist(), worst[0], TOL_CONT))
        # (b) inputs below 1 are treated as 1
        for b in BELOW:
            a = _below(b)
            v = _val(d, method, a)
            n += 1
            if v.tobytes() != v1.tobytes():
                bad('below-1-not-treated-as-1', 'ratio %r gives %r, ratio 1 gives %r' % (a, v.tolist(), v1.tolist()))
                break
        # (c) equal to 1 at ratio 1 and increasing (needle, plate; sphere: constant 1)
        if method in FACTORS and shape != 'cubic':
            if not abs(float(v1) - 1.0) <= 1e-12:
                bad('not-1-at-ratio-1', 'value at ratio 1 is %r' % float(v1))
            lat = sorted(set(ars))
            vals = [float(_val(d, method, a)) for a in lat]
            n += len(lat)
            for (a0, f0), (a1, f1) in zip(zip(lat[:-1], vals[:-1]), zip(lat[1:], vals[1:])):
                if shape == 'sphere':
                    if f1 != 1.0 or f0 != 1.0:
                        bad('sphere-not-1', 'ratio %r -> %r' % (a1, f1))
                        break
                    continue
                if not (f1 >= f0 - TOL_MONO) or (a0 >= 1.01 and not f1 > f0) or not math.isfinite(f1):
                    bad('not-increasing', 'f(%r)=%r, f(%r)=%r' % (a0, f0, a1, f1))
                    break
    except Exception as e:
        bad('exception', '%s: %s' % (type(e).__name__, e))
    return {'viol': viol, 'states': n, 'transitions': n, 'outcome': '%s:%s' % (shape, 'ok' if not viol else 'viol'),
            'info': {'value_at_1': v1.tolist() if v1 is not None else None}}


# ---- stage forms --------------------------------------------------------------------------------------------------------

VALS_F = [0.5, 1.0, 1.0 + 1e-9, 1.5, 2.0, 10.0, 100.0, 0.0, -2.0]
VALS_I = [0, 1, 2, 3, 10, 100, -1]
VALS_GE1 = [1.0, 1.5, 2.0, 10.0]          # nothing below 1: plain agreement (the clamp has nothing to write)
FORMS = ['pyfloat', 'pyint', 'npfloat64', '0d-array', 'list', 'tuple', 'float-array', 'float-array-ge1', 'int-array',
         'strided-view', 'len1-array', 'sf-scalar-ar', 'sf-func-ar']


def _snapshot(obj):
    if isinstance(obj, np.ndarray):
        return ('nd', obj.dtype.str, obj.shape, obj.tobytes())
    if isinstance(obj, (list, tuple)):
        return ('seq', type(obj).__name__, repr(list(obj)))
    return ('scalar', type(obj).__name__, repr(obj))


def run_forms(case):
    shape, method, form = case['shape'], case['method'], case['form']
    d = _desc(shape)
    viol, seen = [], set()
    n = 0

    def bad(kind, msg):
        # one defect, one sig: the clamp-in-place finding is keyed by the entry point, not by every array flavour
        sig = ('%s/%s' % (kind, 'ShapeFactor' if form.startswith('sf-') else 'description')) if kind == 'arg-mutated' \
            else '%s/%s' % (kind, form)
        if sig not in seen:
            seen.add(sig)
            viol.append({'sig': sig, 'msg': '%s.%s(%s): %s' % (shape, method, form, msg)})

    def scalar_ref(v):
        return np.asarray(getattr(_desc(shape), method)(float(v)), dtype=float)

    def compare(args_vals, out, scalar_like, what):
        """out vs element-wise scalar calls; shapes."""
        out = np.asarray(out, dtype=float)
        k = len(args_vals)
        trail = (3,) if method == 'normalRadii' else ()
        want_shape = trail if (scalar_like or k == 1) else (k,) + trail
        if out.shape != want_shape:
            bad('output-shape', '%s: shape %r, expected %r' % (what, out.shape, want_shape))
            return
        rows = out.reshape((k,) + trail)
        for i, v in enumerate(args_vals):
            r = scalar_ref(v)
            if rows[i].tobytes() != r.tobytes():
                bad('scalar-vs-array', '%s: element %d (ratio %r) gives %r, the scalar call gives %r'
                    % (what, i, v, rows[i].tolist(), r.tolist()))
                return

    def call(arg, vals, scalar_like, what, fn=None):
        nonlocal n
        n += 1
        snap = _snapshot(arg)
        parent_snap = _snapshot(arg.base) if isinstance(arg, np.ndarray) and arg.base is not None else None
        try:
            out = (fn or getattr(d, method))(arg)
        except Exception as e:
            bad('exception', '%s: %s: %s' % (what, type(e).__name__, e))
            return
        if _snapshot(arg) != snap or (parent_snap is not None and _snapshot(arg.base) != parent_snap):
            bad('arg-mutated', "%s: caller's object %s -> %r" % (what, snap[-1] if snap[0] != 'nd' else
                                                                 np.frombuffer(snap[3], dtype=snap[1]).tolist(), arg))
        compare(vals, out, scalar_like, what)

    if form == 'pyfloat':
        for v in VALS_F:
            call(float(v), [v], True, 'ar=%r' % v)
    elif form == 'pyint':
        for v in VALS_I:
            call(int(v), [v], True, 'ar=%r' % v)
    elif form == 'npfloat64':
        for v in VALS_F:
            call(np.float64(v), [v], True, 'ar=np.float64(%r)' % v)
    elif form == '0d-array':
        for v in VALS_F:
            call(np.array(float(v)), [v], True, 'ar=np.array(%r)' % v)
        for v in VALS_I:
            call(np.array(int(v)), [v], True, 'ar=np.array(%r)' % v)
    elif form == 'list':
        call(list(VALS_F), VALS_F, False, 'ar=%r' % VALS_F)
        call(list(VALS_I), VALS_I, False, 'ar=%r' % VALS_I)
    elif form == 'tuple':
        call(tuple(VALS_F), VALS_F, False, 'ar=%r' % (tuple(VALS_F),))
    elif form == 'float-array':
        call(np.array(VALS_F), VALS_F, False, 'ar=np.array(%r)' % VALS_F)
        for k in range(len(VALS_F) - 1):          # every adjacent pair: below/above 1 in both orders
            vs = VALS_F[k:k + 2]
            call(np.array(vs), vs, False, 'ar=np.array(%r)' % vs)
    elif form == 'float-array-ge1':
        call(np.array(VALS_GE1), VALS_GE1, False, 'ar=np.array(%r)' % VALS_GE1)
    elif form == 'int-array':
        call(np.array(VALS_I), VALS_I, False, 'ar=np.array(%r)' % VALS_I)
    elif form == 'strided-view':
        big = np.array([x for v in VALS_F for x in (v, -7.0)])
        call(big[::2], VALS_F, False, 'ar=big[::2] with big=%r' % big.tolist())
    elif form == 'len1-array':
        for v in VALS_F:
            call(np.array([float(v)]), [v], False, 'ar=np.array([%r])' % v)
    elif form == 'sf-scalar-ar':
        # ShapeFactor with a scalar aspect ratio: every radius gets the factor of that ratio
        for v in [1, 2.5, 0.5, 10]:
            sf = SF.ShapeFactor(shape, v)
            fn = getattr(sf, method)
            call(2e-9, [v], True, 'ShapeFactor(%s, %r).%s(2e-9)' % (shape, v, method), fn)
            R = np.array([1e-9, 2e-9, 5e-9])
            call(R, [v, v, v], False, 'ShapeFactor(%s, %r).%s(R array)' % (shape, v, method), fn)
    elif form == 'sf-func-ar':
        # radius dependent aspect ratio whose function hands back the radius array itself (ratio == radius in its units)
        sf = SF.ShapeFactor(shape, lambda R: R)
        fn = getattr(sf, method)
        call(np.array(VALS_F), VALS_F, False, 'ShapeFactor(%s, lambda R: R).%s(np.array(%r))' % (shape, method, VALS_F), fn)
        for v in VALS_F:
            call(float(v), [v], True, 'ShapeFactor(%s, lambda R: R).%s(%r)' % (shape, method, v), fn)
        sf2 = SF.ShapeFactor(shape, lambda R: 0.5 + 2.0 * np.asarray(R))
        vs = [0.1, 0.25, 1.0, 4.0]
        call(np.array(vs), [0.5 + 2.0 * v for v in vs], False,
             'ShapeFactor(%s, lambda R: 0.5+2R).%s(np.array(%r))' % (shape, method, vs), getattr(sf2, method))
    else:
        raise KeyError(form)
    return {'viol': viol, 'states': n, 'transitions': n, 'outcome': '%s:%s' % (form, 'ok' if not viol else 'viol')}


# ---- stage rcrit --------------------------------------------------------------------------------------------------------

R0 = 1e-9
ARFUNCS = ['scalar-1', 'scalar-2.5', 'scalar-10', 'const-callable', 'linear', 'power', 'saturating', 'decreasing', 'clamped-low']


def _arfunc(name):
    if name.startswith('scalar-'):
        v = float(name.split('-')[1])
        return v, (lambda R: v + 0.0 * R)
    f = {
        'const-callable': lambda R: 2.5 + 0.0 * R,
        'linear': lambda R: np.minimum(1.0 + 2.0 * R / R0, 100.0),
        'power': lambda R: np.minimum(2.3 * (R / R0) ** 1.1, 100.0),     # the repository's own test function (capped)
        'saturating': lambda R: 1.0 + 4.0 * (1.0 - np.exp(-R / R0)),
        'decreasing': lambda R: 1.0 + 3.0 / (1.0 + R / R0),
        'clamped-low': lambda R: np.minimum(R / (2.0 * R0), 100.0),      # below 1 for R < 2 nm: treated as 1 there
    }[name]
    return f, f


def run_rcrit(case):
    shape, name, Rs, fmax, tol = case['shape'], case['arfunc'], case['Rs'], case['fmax'], case['tol']
    arg, arf = _arfunc(name)
    Rmax = Rs * fmax
    viol = []
    tag = 'shape=%s ar=%s R_sphere=%r R_max=%r tol=%r' % (shape, name, Rs, Rmax, tol)

    def g(R):
        return R / (Rs * ref_thermo(shape, float(arf(R)))) - 1.0
    gmax = g(Rmax)
    scalar = not callable(arg)
    # a root of g is bracketed by [R_sphere, R_max] when g(R_sphere) <= 0 (always: factor >= 1) and g(R_max) > 0;
    # a scalar aspect ratio is solved in closed form and needs no bracket
    bracketed = scalar or gmax > 0
    try:
        sf = SF.ShapeFactor(shape, arg)
        sf.tol = tol
        R = sf.findRcrit(Rs, Rmax)
        R = float(R)
    except Exception as e:
        viol.append({'sig': 'findRcrit-exception/%s/%s' % (shape, name), 'msg': '%s: %s: %s' % (tag, type(e).__name__, e)})
        return {'viol': viol, 'outcome': 'exception'}
    res = g(R) if math.isfinite(R) and R > 0 else float('inf')
    # tolerance: the search's own criterion |R/(R_s f) - 1| <= tol, evaluated with the reference factor
    # (reference and closed form agree to ~1e-10 at worst, see TOL_QUAD, hence the additive 1e-9)
    if bracketed and not abs(res) <= tol * (1 + 1e-6) + 1e-9:
        viol.append({'sig': 'findRcrit-residual/%s/%s' % (shape, 'scalar-ratio' if scalar else 'ratio-function'),
                     'msg': '%s: returned R=%r, residual R/(R_sphere*factor(ar(R)))-1 = %.3e > tol (g(R_max)=%.3e: root bracketed)'
                            % (tag, R, res, gmax)})
    if not bracketed and not (math.isfinite(R)):
        viol.append({'sig': 'findRcrit-nonfinite/%s/%s' % (shape, name), 'msg': '%s: returned %r' % (tag, R)})
    return {'viol': viol, 'states': 1, 'transitions': 1,
            'outcome': 'scalar' if scalar else ('bracketed' if bracketed else 'unbracketed'), 'nontrivial': bracketed,
            'info': {'R': R, 'residual': res}}


# ---- stage history (E2) ---------------------------------------------------------------------------------------------------

H_AR = ['1', '2.5', 'linear', 'clamped-low']


def _h_ar(spec):
    if spec in ('1', '2.5'):
        return float(spec) if spec != '1' else 1
    return _arfunc(spec)[0]


def _h_ops():
    ops = []
    for s in SHAPES:
        for a in H_AR:
            ops.append(['setPrecipitateShape', s, a])
    for s in ('needle', 'plate', 'cubic'):
        ops.append(['set' + {'needle': 'Needle', 'plate': 'Plate', 'cubic': 'Cuboidal'}[s] + 'Shape', s, '2.5'])
    ops.append(['setSpherical', 'sphere', '1'])
    for a in H_AR:
        ops.append(['setAspectRatio', None, a])
    for m in METHODS:
        ops.append(['query', m, None])
    return ops


def _h_apply(sf, op, cfg):
    kind, a, b = op
    if kind == 'setPrecipitateShape':
        sf.setPrecipitateShape(a, _h_ar(b))
        return [a, b]
    if kind in ('setNeedleShape', 'setPlateShape', 'setCuboidalShape'):
        getattr(sf, kind)(_h_ar(b))
        return [a, b]
    if kind == 'setSpherical':
        sf.setSpherical()
        return ['sphere', '1']
    if kind == 'setAspectRatio':
        sf.setAspectRatio(_h_ar(b))
        return [cfg[0], b]
    # query with an array that has entries the description clamps; result discarded
    getattr(sf, a)(np.array([0.2e-9, 1e-9, 3e-9]))
    getattr(sf.description, a)(np.array([0.5, 1.0, 3.0]))
    return cfg


PROBE_R = [0.4e-9, 1e-9, 2e-9, 6e-9]


def _h_observe(sf):
    obs = []
    R = np.array(PROBE_R)
    for m in METHODS + ['aspectRatio']:
        obs.append(np.asarray(getattr(sf, m)(R), dtype=float).tobytes())
        obs.append(np.asarray(getattr(sf, m)(2e-9), dtype=float).tobytes())
    obs.append(np.asarray(sf.findRcrit(1e-9, 1e-7), dtype=float).tobytes())
    obs.append(type(sf.description).__name__.encode())
    if R.tobytes() != np.array(PROBE_R).tobytes():
        obs.append(b'probe-mutated')
    return obs


def _h_build(hist):
    sf = SF.ShapeFactor()
    cfg = ['sphere', '1']
    for op in hist:
        cfg = _h_apply(sf, op, cfg)
    return sf, cfg


def _h_check(hist, sf, cfg):
    """Differential oracle: the object reached by `hist` answers like a fresh ShapeFactor(shape, ar)."""
    import hashlib
    got = _h_observe(sf)
    fresh = SF.ShapeFactor(cfg[0], _h_ar(cfg[1]))
    want = _h_observe(fresh)
    viol = []
    if got != want:
        idx = [i for i, (a, b) in enumerate(zip(got, want)) if a != b]
        viol.append({'sig': 'history-dependent/%s/%s/after=%s' % (cfg[0], cfg[1], hist[-1][0] if hist else 'init'),
                     'msg': 'history %r: observations %r differ from a fresh ShapeFactor(%r, %s)' % (hist, idx, cfg[0], cfg[1])})
    canon = hashlib.sha1(b'|'.join(got)).hexdigest() + ':' + cfg[0] + ':' + cfg[1]
    return canon, viol


def expand_history(case):
    hist = case['hist']
    sf, cfg = _h_build(hist)
    canon, viol = _h_check(hist, sf, cfg)
    succ = []
    for op in _h_ops():
        h2 = hist + [op]
        try:
            sf2, cfg2 = _h_build(h2)
            c2, v2 = _h_check(h2, sf2, cfg2)
            succ.append({'op': op, 'canon': c2, 'viol': v2, 'outcome': '%s->%s/%s' % (op[0], cfg2[0], cfg2[1])})
        except Exception as e:
            succ.append({'op': op, 'canon': 'dead', 'dead': True, 'outcome': 'exception',
                         'viol': [{'sig': 'history-exception/%s' % op[0],
                                   'msg': 'history %r: %s: %s' % (h2, type(e).__name__, e)}]})
    return {'canon': canon, 'viol': viol, 'succ': succ}


# ---------------------------------------------------------------------------------------------------------------------

def run(ctx):
    quick = ctx.quick
    ars = sorted(AR_QUICK + AR_EXTRA)
    if not quick:
        # + 161 log-spaced ratios on [1.0001, 100], written with 6 significant digits so that the lattice is stable
        ars = sorted(set(ars + [float('%.6g' % v) for v in np.geomspace(1.0001, 100.0, 161)]))
    ctx.rule = ('full product shape x aspect-ratio lattice (dense near 1) x method x argument form; critical-radius search over '
                'shape x aspect-ratio function x R_sphere x R_max x tolerance; BFS over ShapeFactor operation histories; '
                'non-trivial = root bracketed (rcrit) / every case otherwise')
    ctx.assumptions = ['the "axes" of the cuboid are its full edges (product = 1), those of the spheroids semi-axes (4/3 pi abc = 1) - '
                       'this is what the equivalent-radius factor of each shape is consistent with',
                       'the cuboid kinetic factor is an empirical fit: only continuity, argument handling and scalar/array agreement are checked',
                       'the factors of the cuboid *at* ratio 1 are judged by the continuity stage only',
                       'aspect-ratio functions are continuous; a root counts as bracketed when g(R_sphere) <= 0 < g(R_max) '
                       'with g(R) = R/(R_sphere*factor(ar(R))) - 1 evaluated with the reference factor']
    ctx.bounds = {'aspect_ratios': ars, 'right_limit_probes': RIGHT, 'below_1_probes': BELOW, 'shapes': SHAPES,
                  'argument_forms': FORMS, 'aspect_ratio_functions': ARFUNCS}
    # reference: blocks of 5 lattice points per case (quadrature ~ 2 ms per point)
    rc = []
    for s in SHAPES:
        for i in range(0, len(ars), 5):
            rc.append({'shape': s, 'ars': ars[i:i + 5]})
    ctx.product_run('reference', 'checks.c15:run_reference', rc)
    cc = [{'shape': s, 'method': m, 'ars': ars} for s in SHAPES for m in METHODS]
    ctx.product_run('continuity', 'checks.c15:run_continuity', cc)
    fc = [{'shape': s, 'method': m, 'form': f} for s in SHAPES for m in METHODS for f in FORMS]
    ctx.product_run('forms', 'checks.c15:run_forms', fc)
    Rss = [1e-10, 1e-9, 5e-9] if quick else [1e-10, 3e-10, 1e-9, 2e-9, 5e-9, 2e-8]
    fmaxs = [1.0001, 1.5, 10.0, 1000.0] if quick else [1.0001, 1.05, 1.5, 3.0, 10.0, 100.0, 1000.0]
    tols = [1e-3, 1e-6, 1e-9] if quick else [1e-2, 1e-3, 1e-4, 1e-6, 1e-9]
    ctx.bounds.update({'R_sphere': Rss, 'R_max/R_sphere': fmaxs, 'tol': tols})
    qc = [{'shape': s, 'arfunc': a, 'Rs': r, 'fmax': fm, 'tol': t}
          for s in SHAPES for a in ARFUNCS for r in Rss for fm in fmaxs for t in tols]
    ctx.product_run('rcrit', 'checks.c15:run_rcrit', qc)
    depth = 2 if quick else 3
    ctx.bounds['history_depth'] = depth
    ctx.bfs('history', 'checks.c15:expand_history', [], depth)
