"""C19 - stopping conditions stop the run when, and only when, they are met.

Every accepted step of every run of the products below is a state on which the latch invariant is evaluated (E1 + E3, the real
PrecipitateModel on the analytic backends of mc/synth_thermo.py).

For one configuration a *free run* (no conditions) gives the history of every monitored quantity; thresholds are derived from
it so that each (quantity, inequality, selection) is met  at the start (rows 0 and 1 already satisfy it) | early | late | never.
Then the same configuration is run with the condition set and

  stop     an independent scan of the recorded history gives, per condition, the first row k_i >= 1 at which its raw predicate
           holds (conditions are evaluated after every accepted step; a condition that was met stays met), hence the stop row
           K = min( min_{or} k_i , max_{and} k_i )  (max undefined -> no stop by the and-group if one member is never met);
           the run has exactly K steps, or - K undefined - ends exactly at the requested end time;
  prefix   the run is bit-identical to the free run up to its last row (conditions observe, they do not steer);
  latch    seen through the coupling slot at every accepted step n (called before the conditions are evaluated, i.e. it sees
           the evaluations up to step n-1) and after solve: isSatisfied_i == (k_i <= last evaluated row), satisfiedTime_i is
           -1 before and the crossing time ever after (a quantity that crosses back, e.g. the nucleation rate, keeps it);
  time     t_i = t_{k-1} + (t_k - t_{k-1}) (v - q_{k-1}) / (q_k - q_{k-1})  (1e-12 relative: same formula, the order of the
           floating-point operations may differ) and t_{k-1} <= t_i <= t_k;  if rows 0 and 1 both satisfy the condition there
           is no crossing - only t_0 <= t_i <= t_1 is asserted (reported under its own signature);
  reset    model.reset() clears every latch.

stage single   configuration x quantity (6) x inequality (2) x threshold class (4) x selection (default / named phase or
               element) x mode (or / and)
stage sets     pairs and triples from a pool of designed conditions x mode assignment ((or,or), (and,and), (or,and), (and,or);
               (or,and,and), (and,or,or)): or / and / mixed
stage ttp      TTPCalculator over 3 temperatures vs three independent fresh runs: transformation times and histories bit for bit
"""
import itertools

PROPERTY = 'C19'
LEVEL = 'model_checking'

np = None
MAX_STEPS = 8000
MAX_STEPS_TTP = 30000      # the calculator solves with the default settings (RK4, no step cap): two-phase runs at 750 K take ~1e4 steps

QUANT = {   # name: (condition class, pData attribute, what a selection names)
    'vf': ('VolumeFractionCondition', 'volFrac', 'phase'),
    'radius': ('AverageRadiusCondition', 'Ravg', 'phase'),
    'dg': ('DrivingForceCondition', 'drivingForce', 'phase'),
    'nuc': ('NucleationRateCondition', 'nucRate', 'phase'),
    'dens': ('PrecipitateDensityCondition', 'precipitateDensity', 'phase'),
    'comp': ('CompositionCondition', 'composition', 'element'),
}
CLASSES = ['start', 'early', 'late', 'never']


def prepare():
    global np, precip, SC, SolverType, TTPCalculator, PrecipitationData
    import numpy as np
    import kawin.precipitation  # noqa: F401
    import kawin.precipitation.StoppingConditions as SC
    from kawin.precipitation.TimeTemperaturePrecipitation import TTPCalculator
    from kawin.precipitation.PrecipitationParameters import PrecipitationData
    from kawin.solver.Solver import SolverType
    from mc import precip


# ----------------------------------------------------------------------------------------------------------
# independent side: series, predicate, thresholds, expected stop row / times

def series(d, names, elements, cond):
    _, attr, kind = QUANT[cond['q']]
    arr = getattr(d, attr)
    sel = cond.get('sel')
    if kind == 'phase':
        return arr[:, 0 if sel is None else list(names).index(sel)]
    return arr[:, 0 if sel is None else list(elements).index(sel)]


def pred(v, ineq, value):
    return bool(v > value) if ineq == '>' else bool(v < value)


def first_row(s, ineq, value, upto=None):
    n = len(s) if upto is None else min(len(s), upto + 1)
    for k in range(1, n):
        if pred(s[k], ineq, value):
            return k
    return None


def _margin(x):
    return 0.5 * abs(x) if x != 0 else 1.0


def design_threshold(s, ineq, cls):
    """Threshold v such that on the series s the condition is first met as the class asks; None when the free run offers
    no such threshold (e.g. a volume fraction never falls below its initial 0).  Verified by scan before use."""
    s = np.asarray(s, dtype=float)
    if len(s) < 4 or not np.all(np.isfinite(s)):
        return None
    sign = 1.0 if ineq == '>' else -1.0
    u = sign * s                                   # '>' on u in both cases
    if cls == 'start':
        m = min(u[0], u[1])
        v = m - _margin(m)
    elif cls == 'never':
        M = float(np.max(u))
        v = M + _margin(M)
    else:
        run = np.maximum.accumulate(u)
        recs = [k for k in range(2, len(u)) if u[k] > run[k - 1]]
        if not recs:
            return None
        k = recs[len(recs) // 4] if cls == 'early' else recs[(3 * len(recs)) // 4]
        v = 0.5 * (run[k - 1] + u[k])
        if not (run[k - 1] <= v < u[k]):
            return None
    v = sign * v
    k = first_row(s, ineq, v)
    ok = {'start': k == 1 and pred(s[0], ineq, v), 'never': k is None}.get(cls, k is not None and k >= 2)
    return float(v) if ok else None


def expected(d, names, elements, conds):
    """Independent scan of a recorded history: per condition first row and crossing time, and the stop row."""
    ks, ts, crossing = [], [], []
    for c in conds:
        s = series(d, names, elements, c)
        k = first_row(s, c['ineq'], c['value'])
        ks.append(k)
        if k is None:
            ts.append(-1.0)
            crossing.append(None)
        else:
            t0, t1, q0, q1 = float(d.time[k - 1]), float(d.time[k]), float(s[k - 1]), float(s[k])
            crossing.append(not pred(q0, c['ineq'], c['value']))
            with np.errstate(all='ignore'):
                ts.append(float(np.float64(t1 - t0) * np.float64(c['value'] - q0) / np.float64(q1 - q0) + t0))
    ors = [k for k, c in zip(ks, conds) if c['mode'] == 'or' and k is not None]
    ands = [k for k, c in zip(ks, conds) if c['mode'] != 'or']
    stop = []
    if ors:
        stop.append(min(ors))
    if ands and all(k is not None for k in ands):
        stop.append(max(ands))
    return ks, ts, crossing, (min(stop) if stop else None)


# ----------------------------------------------------------------------------------------------------------
# execution side

def make_condition(c):
    cls = getattr(SC, QUANT[c['q']][0])
    ineq = SC.Inequality.GREATER_THAN if c['ineq'] == '>' else SC.Inequality.LESSER_THAN
    if QUANT[c['q']][2] == 'phase':
        return cls(ineq, c['value']) if c.get('sel') is None else cls(ineq, c['value'], phase=c['sel'])
    return cls(ineq, c['value']) if c.get('sel') is None else cls(ineq, c['value'], element=c['sel'])


class Obs:
    def __init__(self, model, objs, max_steps=MAX_STEPS):
        self.objs, self.max_steps = objs, max_steps
        self.latch = {}
        model.addCouplingModel(self)

    def updateCoupledModel(self, model):
        n = int(model.pData.n)
        self.latch[n] = [(bool(o.isSatisfied()), float(o.satisfiedTime())) for o in self.objs]
        if n > self.max_steps:
            raise precip.StepLimit()


def execute(cfg, conds, prior=None):
    m, therm, c = precip.build_model(cfg)
    if prior:
        # an earlier condition set of this model, registered and cleared again through the public API (what TTPCalculator does on
        # construction): the run that follows must not remember it
        for cd in prior:
            m.addStoppingCondition(make_condition(cd), cd['mode'])
        m.clearStoppingConditions()
    objs = [make_condition(cd) for cd in conds]
    for o, cd in zip(objs, conds):
        m.addStoppingCondition(o, cd['mode'])
    obs = Obs(m, objs)
    it = SolverType.EXPLICITEULER if c['it'] == 'euler' else SolverType.RK4
    err = None
    try:
        m.solve(c['tf'], solverType=it, **c['solve'])
    except precip.StepLimit:
        err = ('StepLimit', 'more than %d accepted steps' % MAX_STEPS)
    except Exception as e:
        import traceback
        tb = traceback.extract_tb(e.__traceback__)
        where = '%s:%s' % (tb[-1].filename.split('/')[-1], tb[-1].name) if tb else '?'
        err = (type(e).__name__, '%s at %s' % (e, where))
    final = [(bool(o.isSatisfied()), float(o.satisfiedTime())) for o in objs]
    return {'model': m, 'cfg': c, 'objs': objs, 'obs': obs, 'error': err, 'final': final,
            'names': [str(p) for p in m.phases], 'elements': list(m.elements)}


class Viol:
    def __init__(self):
        self.v, self.seen = [], set()

    def __call__(self, sig, msg):
        if sig not in self.seen:
            self.seen.add(sig)
            self.v.append({'sig': sig, 'msg': msg})


def _cstr(c):
    return '%s%s%.6g%s[%s]' % (c['q'], c['ineq'], c['value'], '' if c.get('sel') is None else '@' + c['sel'], c['mode'])


def _same_time(a, b):
    if a == b:
        return True
    return bool(np.isfinite(a) and np.isfinite(b) and abs(a - b) <= 1e-12 * max(abs(a), abs(b)))


def check_run(cfg, conds, free, bad, tag, prior=None):
    """Run cfg with the condition set and evaluate every oracle.  Returns (states, label)."""
    # signature of a wrong stop row: quantity and mode for a single condition, the mode assignment for a set (members in the message)
    stop_sig = ('C19/wrong-stop-step/q=%s/mode=%s' % (conds[0]['q'], conds[0]['mode']) if len(conds) == 1
                else 'C19/wrong-stop-step/modes=%s' % '+'.join(c['mode'] for c in conds))
    if prior:
        stop_sig += '/after-clear-of-%s' % '+'.join(c['mode'] for c in prior)
    r = execute(cfg, conds, prior)
    d = r['model'].pData
    names, elements = r['names'], r['elements']
    err = r['error']
    if err is not None:
        if err[0] == 'StepLimit':
            return int(d.n), 'steplimit'
        bad('C19/exception/%s/%s' % (err[0], err[1].split(' at ')[-1]), '%s: %s: %s' % (tag, err[0], err[1]))
        return int(d.n), 'exception'
    ks, ts, crossing, K = expected(d, names, elements, conds)
    tf = r['cfg']['tf']
    # --- stop row
    if K is None:
        label = 'ran-to-end'
        if float(d.time[-1]) != float(tf):
            kf = expected(free.pData, names, elements, conds)[3]
            bad(stop_sig,
                '%s: no row of the recorded history satisfies the combined condition, yet the run ended at t=%r after %d steps instead of '
                'the end time %r (free run: first satisfied at row %r)' % (tag, float(d.time[-1]), int(d.n), tf, kf))
    else:
        label = 'stopped'
        if int(d.n) != K:
            bad(stop_sig,
                '%s: the combined condition first holds at row %d (t=%r; per condition first rows %r) but the run has %d steps (ended at t=%r)'
                % (tag, K, float(d.time[K]), ks, int(d.n), float(d.time[-1])))
    # --- prefix of the free run
    fd = free.pData
    L = len(d.time)
    for name in PrecipitationData.ATTRIBUTES:
        a, b = getattr(d, name), getattr(fd, name)
        if len(b) < L or a.tobytes() != b[:L].tobytes():
            bad('C19/perturbs-run', '%s: %s of the run with conditions is not the prefix of the run without (rows %d vs %d)' % (tag, name, L, len(b)))
            break
    # --- latch at every step (the observer at step n sees the evaluations of steps 1..n-1) and after solve
    last = int(d.n)
    views = [(n, r['obs'].latch.get(n), n - 1) for n in range(1, last + 1)] + [('final', r['final'], last)]
    states = 0
    for n, seen, upto in views:
        if seen is None:
            raise RuntimeError('observer missed step %r' % n)
        states += 1
        for i, c in enumerate(conds):
            want_sat = ks[i] is not None and ks[i] <= upto
            sat, tm = seen[i]
            if sat != want_sat:
                bad('C19/latch/%s' % c['q'], '%s: condition %s at view %r (evaluated up to row %d): isSatisfied=%r, the history says %r '
                    '(first row satisfying it: %r)' % (tag, _cstr(c), n, upto, sat, want_sat, ks[i]))
            elif not want_sat and tm != -1:
                bad('C19/latch/%s' % c['q'], '%s: condition %s not met up to row %d but satisfiedTime()=%r' % (tag, _cstr(c), upto, tm))
            elif want_sat and not (tm == seen_final_time(r, i) or (np.isnan(tm) and np.isnan(seen_final_time(r, i)))):
                bad('C19/latch/%s' % c['q'], '%s: condition %s: satisfiedTime() changed after it latched (%r at view %r, %r after solve)'
                    % (tag, _cstr(c), tm, n, seen_final_time(r, i)))
    # --- reported times
    for i, c in enumerate(conds):
        sat, tm = r['final'][i]
        if not sat:
            continue
        k = ks[i]
        if k is None or k > last:
            continue       # reported as latch violation above
        t0, t1 = float(d.time[k - 1]), float(d.time[k])
        slack = 1e-12 * max(abs(t0), abs(t1))
        if crossing[i]:
            if not _same_time(tm, ts[i]):
                bad('C19/time-not-interpolated/%s' % c['q'], '%s: condition %s crossed on step %d (t %r -> %r): reported %r, linear interpolation %r'
                    % (tag, _cstr(c), k, t0, t1, tm, ts[i]))
            elif not (t0 - slack <= tm <= t1 + slack):
                bad('C19/time-outside-step/%s' % c['q'], '%s: condition %s crossed on step %d (t %r -> %r) but reported time %r' % (tag, _cstr(c), k, t0, t1, tm))
        else:
            if not (t0 - slack <= tm <= t1 + slack):
                s = series(d, names, elements, c)
                bad('C19/time-outside-step/already-met-at-start',
                    '%s: condition %s holds on rows 0 and 1 already (values %r, %r; t %r -> %r): reported time %r is not within the first step'
                    % (tag, _cstr(c), float(s[0]), float(s[1]), t0, t1, tm))
    # --- reset clears the latch
    r['model'].reset()
    for o, c in zip(r['objs'], conds):
        if o.isSatisfied() or o.satisfiedTime() != -1:
            bad('C19/reset-latch', '%s: after model.reset() condition %s has isSatisfied=%r satisfiedTime=%r' % (tag, _cstr(c), o.isSatisfied(), o.satisfiedTime()))
    return states, label


def seen_final_time(r, i):
    return r['final'][i][1]


def free_run(cfg):
    r = execute(cfg, [])
    if r['error'] is not None:
        raise RuntimeError('free run failed: %r' % (r['error'],))      # the configurations are in-domain (C03 checks that)
    return r


def check_free(fr, cfg, bad):
    """A run without any stopping condition runs to the requested end time (the 'otherwise' clause of the statement)."""
    d = fr['model'].pData
    tf = fr['cfg']['tf']
    if float(d.time[-1]) != float(tf):
        bad('C19/wrong-stop-step/no-conditions', '%s: a run without stopping conditions ended at t=%r after %d steps instead of the end time %r'
            % (_describe(cfg), float(d.time[-1]), int(d.n), tf))
        return False
    return True


def selections(r, q, level):
    kind = QUANT[q][2]
    pool = r['names'] if kind == 'phase' else r['elements']
    out = [None, pool[-1]]
    if level == 'all' and len(pool) > 1:
        out.append(pool[0])
    return out


def _describe(cfg):
    return 'system=%s phases=%s it=%s temp=%s' % (cfg.get('system', 'bin'), cfg.get('nphases', 1), cfg.get('it', 'euler'), cfg.get('temp', 'iso'))


# ----------------------------------------------------------------------------------------------------------
# stage single

def run_single(case):
    bad = Viol()
    cfg, q = case['cfg'], case['q']
    fr = free_run(cfg)
    d = fr['model'].pData
    if not check_free(fr, cfg, bad):
        return {'viol': bad.v, 'states': int(d.n), 'transitions': int(d.n), 'outcome': '%s/free-run-stopped' % q, 'nontrivial': False}
    states = runs = 0
    labels, infeasible = set(), 0
    for ineq in case.get('ineqs', ['>', '<']):
        for cls in case.get('classes', CLASSES):
            for sel in selections(fr, q, case.get('sel', 'two')):
                v = design_threshold(series(d, fr['names'], fr['elements'], {'q': q, 'sel': sel}), ineq, cls)
                if v is None:
                    infeasible += 1
                    continue
                for mode in case.get('modes', ['or', 'and']):
                    c = {'q': q, 'ineq': ineq, 'value': v, 'sel': sel, 'mode': mode}
                    tag = '%s condition %s (designed: %s)' % (_describe(cfg), _cstr(c), cls)
                    n, lab = check_run(cfg, [c], fr['model'], bad, tag)
                    states += n
                    runs += 1
                    labels.add('%s:%s' % (cls, lab))
    return {'viol': bad.v, 'states': states, 'transitions': states, 'traces': runs, 'evaluations': runs,
            'steplimit': any(x.endswith('steplimit') for x in labels),
            'outcome': '%s/%s' % (q, ','.join(sorted(labels)) or 'none'), 'nontrivial_count': len(labels),
            'info': {'runs': runs, 'infeasible_thresholds': infeasible, 'free_run_steps': int(d.n), 'labels': sorted(labels)}}


# ----------------------------------------------------------------------------------------------------------
# stage sets

POOL = [('vf', '>', 'early', None), ('nuc', '>', 'early', None), ('dg', '<', 'late', None), ('dens', '>', 'never', None),
        ('radius', '<', 'start', None), ('vf', '>', 'late', 'last'), ('comp', '<', 'early', 'last')]
MODES2 = [('or', 'or'), ('and', 'and'), ('or', 'and'), ('and', 'or')]
MODES3 = [('or', 'and', 'and'), ('and', 'or', 'or')]


def run_set(case):
    bad = Viol()
    cfg = case['cfg']
    fr = free_run(cfg)
    d = fr['model'].pData
    if not check_free(fr, cfg, bad):
        return {'viol': bad.v, 'states': int(d.n), 'transitions': int(d.n), 'outcome': 'free-run-stopped', 'nontrivial': False}
    members = []
    for i in case['members']:
        q, ineq, cls, selk = POOL[i]
        kind = QUANT[q][2]
        sel = None if selk is None else (fr['names'] if kind == 'phase' else fr['elements'])[-1]
        v = design_threshold(series(d, fr['names'], fr['elements'], {'q': q, 'sel': sel}), ineq, cls)
        if v is None:
            return {'viol': [], 'states': 0, 'transitions': 0, 'outcome': 'infeasible', 'nontrivial': False,
                    'info': {'member': POOL[i]}}
        members.append({'q': q, 'ineq': ineq, 'value': v, 'sel': sel, 'cls': cls})
    states = runs = 0
    labels = set()
    for modes in (MODES2 if len(members) == 2 else MODES3):
        conds = [dict(mb, mode=md) for mb, md in zip(members, modes)]
        tag = '%s conditions %s (designed: %s)' % (_describe(cfg), ' , '.join(_cstr(c) for c in conds), ','.join(mb['cls'] for mb in members))
        n, lab = check_run(cfg, conds, fr['model'], bad, tag)
        states += n
        runs += 1
        labels.add('%s:%s' % ('+'.join(modes), lab))
    # the same model after an earlier condition set was registered and cleared (first and last mode assignment)
    for modes in ((MODES2 if len(members) == 2 else MODES3)[0], (MODES2 if len(members) == 2 else MODES3)[-1]):
        conds = [dict(mb, mode=md) for mb, md in zip(members, modes)]
        for pm in ('and', 'or'):
            prior = [dict(members[-1], mode=pm)]
            tag = '%s conditions %s after clearStoppingConditions() of %s' % (_describe(cfg), ' , '.join(_cstr(c) for c in conds), _cstr(prior[0]))
            n, lab = check_run(cfg, conds, fr['model'], bad, tag, prior=prior)
            states += n
            runs += 1
            labels.add('%s:after-clear-%s:%s' % ('+'.join(modes), pm, lab))
    return {'viol': bad.v, 'states': states, 'transitions': states, 'traces': runs, 'evaluations': runs,
            'steplimit': any(x.endswith('steplimit') for x in labels),
            'outcome': '%s/%s' % ('+'.join(mb['cls'] for mb in members), ','.join(sorted(labels))), 'nontrivial_count': len(labels),
            'info': {'runs': runs, 'free_run_steps': int(d.n)}}


# ----------------------------------------------------------------------------------------------------------
# stage ttp

class PDataTap:
    """Collects, in order, the distinct pData objects a model goes through (reset() replaces the object)."""

    def __init__(self, model):
        self.seen = []
        model.addCouplingModel(self)

    def updateCoupledModel(self, model):
        if not self.seen or self.seen[-1] is not model.pData:
            self.seen.append(model.pData)
        if model.pData.n > MAX_STEPS_TTP:
            raise precip.StepLimit()


def run_ttp(case):
    bad = Viol()
    cfg = dict(case['cfg'])
    tag = '%s pbm=%s TTP %r%s' % (_describe(cfg), case['pbm'], case['temps'], ' (pool protocol)' if case.get('pool') else '')
    if case['pbm'] == 'default':
        # kawin's own default grid: reset() (called by the calculator) rebuilds the population balance models with the default
        # parameters, so only with these is "an independent run" of the same configuration unambiguous
        cfg['pbm'] = [1e-10, 1e-9, 150, 100, 200]
    Tlow, Thigh = case['temps']
    Ts = np.linspace(Tlow, Thigh, 3)
    maxTime = cfg['tf']
    # thresholds from a free run at the middle temperature (default solver settings, as the calculator uses them)
    fm, _, c0 = precip.build_model(cfg)
    fm.setTemperature(float(Ts[1]))
    fm.solve(maxTime)
    fd = fm.pData
    if float(fd.time[-1]) != float(maxTime):
        bad('C19/wrong-stop-step/no-conditions', '%s: a run without stopping conditions ended at t=%r after %d steps instead of the end time %r'
            % (tag, float(fd.time[-1]), int(fd.n), maxTime))
        return {'viol': bad.v, 'states': int(fd.n), 'outcome': 'free-run-stopped', 'nontrivial': False}
    names, elements = [str(p) for p in fm.phases], list(fm.elements)
    cds = []
    for q, ineq, cls in [('vf', '>', 'early'), ('vf', '>', 'late'), ('radius', '>', 'late'), ('dens', '>', 'never')]:
        v = design_threshold(series(fd, names, elements, {'q': q, 'sel': None}), ineq, cls)
        if v is not None:
            cds.append({'q': q, 'ineq': ineq, 'value': v, 'sel': None, 'mode': 'and'})
    if len(cds) < 2:
        return {'viol': [], 'states': 0, 'outcome': 'infeasible', 'nontrivial': False}
    # the calculator
    m, _, _ = precip.build_model(cfg)
    objs = [make_condition(c) for c in cds]
    tap = PDataTap(m)
    try:
        ttp = TTPCalculator(m, objs)
        if case.get('pool'):
            # "a pool, must have a map function": an in-process object with a map method (the documented protocol)
            class _SerialPool:
                def map(self, f, xs):
                    return [f(v) for v in xs]
            ttp.calculateTTP(float(Tlow), float(Thigh), 3, maxTime, pool=_SerialPool())
        else:
            ttp.calculateTTP(float(Tlow), float(Thigh), 3, maxTime)
    except precip.StepLimit:
        return {'viol': [], 'states': 0, 'outcome': 'steplimit', 'nontrivial': False, 'steplimit': True}
    except Exception as e:
        import traceback
        tb = traceback.extract_tb(e.__traceback__)
        where = '%s:%s' % (tb[-1].filename.split('/')[-1], tb[-1].name) if tb else '?'
        bad('C19/exception/%s/%s' % (type(e).__name__, where), '%s: %s: %s at %s' % (tag, type(e).__name__, e, where))
        return {'viol': bad.v, 'states': 0, 'outcome': 'exception', 'nontrivial': False}
    times = np.array(ttp.transformationTimes, dtype=float)
    states = 0
    nsat = 0
    for i, T in enumerate(Ts):
        fmod, _, _ = precip.build_model(cfg)
        fobjs = [make_condition(c) for c in cds]
        for o in fobjs:
            fmod.addStoppingCondition(o, 'and')
        fmod.setTemperature(float(T))
        fmod.solve(maxTime)
        d = fmod.pData
        states += int(d.n)
        ind = np.array([o.satisfiedTime() for o in fobjs], dtype=float)
        nsat += int(np.sum(ind != -1))
        if times[i].tobytes() != ind.tobytes():
            bad('C19/ttp/times-differ/pbm=%s' % case['pbm'],
                '%s: temperature %d (%.6g K): calculator reports %r, an independent fresh run reports %r (run lengths %s vs %d steps)'
                % (tag, i, T, times[i].tolist(), ind.tolist(), len(tap.seen[i].time) - 1 if i < len(tap.seen) else None, int(d.n)))
        elif i < len(tap.seen):
            for name in PrecipitationData.ATTRIBUTES:
                if getattr(tap.seen[i], name).tobytes() != getattr(d, name).tobytes():
                    bad('C19/ttp/history-differs/pbm=%s' % case['pbm'], '%s: temperature %d (%.6g K): %s of the calculator run differs from the fresh run'
                        % (tag, i, T, name))
                    break
        # the fresh run's own times against the independent scan
        ks, ts, crossing, K = expected(d, names, elements, cds)
        for j, c in enumerate(cds):
            if ks[j] is None:
                if ind[j] != -1:
                    bad('C19/latch/%s' % c['q'], '%s: %s never met at %.6g K but reported time %r' % (tag, _cstr(c), T, ind[j]))
            elif crossing[j] and not _same_time(float(ind[j]), ts[j]):
                bad('C19/time-not-interpolated/%s' % c['q'], '%s: %s at %.6g K: reported %r, interpolation %r' % (tag, _cstr(c), T, ind[j], ts[j]))
        if (K is None and float(d.time[-1]) != float(maxTime)) or (K is not None and int(d.n) != K):
            bad('C19/wrong-stop-step/modes=%s' % '+'.join('and' for _ in cds),
                '%s: fresh run at %.6g K has %d steps (t=%r), scan says stop row %r' % (tag, T, int(d.n), float(d.time[-1]), K))
    if len(tap.seen) != 3:
        bad('C19/ttp/runs', '%s: the calculator went through %d histories for 3 temperatures' % (tag, len(tap.seen)))
    return {'viol': bad.v, 'states': states, 'transitions': states, 'traces': 6, 'evaluations': 6,
            'outcome': 'satisfied=%d/%d' % (nsat, 3 * len(cds)), 'nontrivial': nsat > 0,
            'info': {'times': times.tolist(), 'conditions': [_cstr(c) for c in cds]}}


# ----------------------------------------------------------------------------------------------------------

BASE = {'tf': 20.0, 'constraints': {'dtScale': 0.05}, 'solve': {'maxDtFrac': 0.02}, 'record': False}


QUICK_CFGS = [('bin', 1, 'euler', 'iso'), ('bin', 1, 'rk4', 'slowheat'), ('bin', 2, 'euler', 'cool'),
              ('tern', 1, 'euler', 'iso'), ('tern', 2, 'euler', 'slowheat')]
QUICK_SET_CFGS = [('bin', 1, 'euler', 'iso'), ('tern', 1, 'rk4', 'iso')]
THOROUGH_SET_CFGS = [('bin', 1, 'euler', 'iso'), ('bin', 1, 'rk4', 'iso'), ('bin', 2, 'euler', 'iso'), ('tern', 1, 'euler', 'iso'),
                     ('tern', 1, 'rk4', 'iso'), ('tern', 2, 'euler', 'slowheat')]


def _cfg(system, nph, it, temp):
    return dict(BASE, system=system, nphases=nph, it=it, temp=temp)


def configs(quick):
    """quick: five configurations that between them cover both systems, 1-2 phases, both iterators, three temperature programmes;
    thorough: the full product system x phases x iterator x {iso, slowheat} plus the quick ones."""
    if quick:
        return [_cfg(*k) for k in QUICK_CFGS]
    out = [_cfg(s, n, i, t) for s in ['bin', 'tern'] for n in [1, 2] for i in ['euler', 'rk4'] for t in ['iso', 'slowheat']]
    return out + [_cfg(*k) for k in QUICK_CFGS if k[3] not in ('iso', 'slowheat')]


def run(ctx):
    quick = ctx.quick
    ctx.rule = ('full products configuration x quantity x inequality x threshold class (met at the start / early / late / never, derived '
                'from a free run of the same configuration) x selection x mode; pairs and triples of designed conditions x mode '
                'assignment; TTP calculator vs independent runs.  Every accepted step of every run with conditions is a state on which '
                'the latch invariant is evaluated; stop row, prefix equality with the free run, reported times and reset per run; '
                'non-trivial = distinct (class, stopped / ran-to-end) outcomes per case')
    ctx.assumptions = ['analytic thermodynamic backends (mc/synth_thermo.py)',
                       'thresholds are derived from the free run of the same configuration; a class the free run does not offer '
                       '(e.g. a volume fraction falling below its initial 0) is counted as infeasible, not as covered',
                       'conditions are evaluated after accepted steps only (row >= 1); "met at the start" = rows 0 and 1 satisfy it']
    cfgs = configs(quick)
    cases = [{'cfg': cfg, 'q': q, 'sel': 'two' if quick else 'all'} for cfg in cfgs for q in QUANT]
    res = ctx.product_run('single', 'checks.c19:run_single', cases, chunksize=1)
    ctx.extra['single_infeasible_thresholds'] = int(sum(r.get('info', {}).get('infeasible_thresholds', 0) for r in res))
    if any(r.get('steplimit') for r in res):
        ctx.cap('single: step limit %d hit' % MAX_STEPS)

    pool = [0, 1, 2, 3, 4] if quick else list(range(len(POOL)))
    groups = list(itertools.combinations(pool, 2)) + list(itertools.combinations(pool if quick else pool[:6], 3))
    scfgs = [_cfg(*k) for k in (QUICK_SET_CFGS if quick else THOROUGH_SET_CFGS)]
    cases = [{'cfg': cfg, 'members': list(g)} for cfg in scfgs for g in groups]
    res = ctx.product_run('sets', 'checks.c19:run_set', cases, chunksize=1)
    if any(r.get('steplimit') for r in res):
        ctx.cap('sets: step limit %d hit' % MAX_STEPS)

    tcases = []
    for system in ['bin', 'tern']:
        for nph in ([1] if quick else [1, 2]):
            for pbm in ['default', 'configured']:
                for temps in ([[680.0, 720.0]] if quick else [[680.0, 720.0], [700.0, 750.0]]):
                    tcases.append({'cfg': dict(BASE, system=system, nphases=nph), 'pbm': pbm, 'temps': temps})
                    if nph == 1 and pbm == 'default':
                        tcases.append({'cfg': dict(BASE, system=system, nphases=nph), 'pbm': pbm, 'temps': temps, 'pool': True})
    res = ctx.product_run('ttp', 'checks.c19:run_ttp', tcases, chunksize=1)
    if any(r.get('steplimit') for r in res):
        ctx.cap('ttp: step limit %d hit' % MAX_STEPS_TTP)
    ctx.bounds = {'configurations': [_describe(c) for c in cfgs], 'quantities': list(QUANT), 'inequalities': ['>', '<'],
                  'threshold_classes': CLASSES, 'selection': 'default + last named' if quick else 'default + every named',
                  'single_modes': ['or', 'and'], 'pool': [POOL[i] for i in pool], 'pair_modes': MODES2, 'triple_modes': MODES3,
                  'set_configurations': [_describe(c) for c in scfgs], 'ttp': tcases, 'horizon_steps': MAX_STEPS}
