"""C03 - precipitation runs are well formed for every configuration and survive backend failures.

Stage 'config'  : full product of configurations (incl. constraint toggles, solver step fractions, temperatures inside /
                  on / outside the two-phase region), each run must terminate at exactly the requested time, well formed.
Stage 'faults'  : deviation-bounded fault enumeration: 0, 1, (thorough: 2) documented "no result" answers placed on every
                  subset of the first K interceptable backend calls of a method.
"""
import itertools

PROPERTY = 'C03'
LEVEL = 'model_checking'


def prepare():
    import kawin.precipitation  # noqa: F401
    from mc import precip, precip_oracles  # noqa: F401
    precip.real_thermo('alzr')


def run_config(case):
    from mc import precip, precip_oracles as po
    r = precip.run_model(case)
    viol = po.check_c03(r)
    if r['model'] is None:
        return {'viol': viol if isinstance(viol, list) else [], 'states': 0, 'outcome': 'build-error/' + r['error'][0], 'nontrivial': False, 'info': {'error': r['error']}}
    d = r['model'].pData
    oc = '%s/%s/%s' % (case.get('system'), case.get('temp'), 'pop' if float(d.volFrac.max()) > 0 else 'empty')
    if r['error'] is not None:
        oc += '/' + r['error'][0]
    return {'viol': viol, 'states': int(d.n), 'transitions': int(d.n), 'outcome': oc,
            'nontrivial': float(d.volFrac.max()) > 0,
            'info': {'steps': int(d.n), 'error': r['error'], 'final_volFrac': [float(v) for v in d.volFrac[-1]]}}


_REF = {}


def run_fault_group(case):
    """One (configuration, method, number of faults, K): every placement of that many faults among the first K calls."""
    import numpy as np
    from mc import precip, precip_oracles as po
    base, method, nf, K = case['base'], case['method'], case['nfaults'], case['K']
    only = case.get('placement')
    viol = {}
    nexec = nstates = 0
    outcomes = set()
    key = repr(sorted(base.items(), key=lambda kv: kv[0]))
    if key not in _REF:
        ref = precip.run_model(dict(base))
        if ref['model'] is None:
            raise RuntimeError('fault-free reference run could not be built: %r' % (ref['error'],))
        _REF[key] = (ref['error'], [float(v) for v in ref['model'].pData.volFrac[-1]], dict(ref['therm'].faults.calls))
    rerr, rfv, rcalls = _REF[key]   # the fault-free run tells how many interceptable calls exist
    ncalls = rcalls.get(method, 0)
    placements = [tuple(only)] if only is not None else list(itertools.combinations(range(min(K, ncalls)), nf))
    for pl in placements:
        cfg = dict(base)
        cfg['faults'] = {method: list(pl)}
        r = precip.run_model(cfg)
        nexec += 1
        d = r['model'].pData if r['model'] is not None else None
        nstates += int(d.n) if d is not None else 0
        fired = len(r['therm'].faults.fired) if r['therm'] is not None else -1
        vs = po.check_c03(r)
        for v in vs:
            sig = v['sig'].replace('C03/', 'C03/fault:%s/' % method, 1)
            if sig not in viol:
                viol[sig] = {'sig': sig, 'msg': 'faults %s at calls %r (fired %d): %s' % (method, list(pl), fired, v['msg'])}
        outcomes.add('fired=%d/%s' % (fired, 'ok' if r['error'] is None else r['error'][0]))
    return {'viol': list(viol.values()), 'states': nstates, 'transitions': nstates, 'traces': nexec, 'evaluations': nexec,
            'nontrivial_count': nexec if ncalls > 0 else 0,
            'outcome': ','.join(sorted(outcomes))[:200],
            'info': {'placements': len(placements), 'interceptable_calls_in_fault_free_run': ncalls}}


TOGGLES = [{}, {'checkPSD': False}, {'checkNucleation': False}, {'checkTemperature': False}, {'checkRcrit': False},
           {'checkVolumePre': False},
           {'checkPSD': False, 'checkNucleation': False, 'checkTemperature': False, 'checkRcrit': False, 'checkVolumePre': False}]


def config_cases(tier):
    from mc import core, precip_product as pp
    quick = tier == 'quick'
    out = []
    # (1) the shared products (well-formedness of every run C01/C02 look at)
    main = pp.main_product(tier)
    if quick:
        main = [c for c in main if c['precdiff'] == 'inf']
    out += main
    out += [c for c in pp.shape_product(tier) if (not quick) or (c['it'] == 'euler')]
    out += pp.options_product(tier)
    # the floor product of C01 with the floor BELOW the equilibrium matrix composition (1e-5): a floor above it (C01 uses 0.005, half the
    # alloy content, to make the matrix cross it) keeps the matrix supersaturated for ever - after the first clamp the precipitates grow
    # until the volume-fraction cap, with ~1e-4 s steps; such a run is no admissible configuration for the well-formedness clauses
    seen_floor = set()
    for c in pp.floor_product(tier):
        c = dict(c)
        c['constraints'] = dict(c['constraints'], minComposition=1e-5)
        key = core.canon_json(c)
        if key not in seen_floor:
            seen_floor.add(key)
            out.append(c)
    # (2) constraint toggles x solver fractions x temperatures inside / on / outside the two-phase region
    levels = {
        'system': ['bin', 'tern'],
        'toggle': list(range(len(TOGGLES))),
        'solve': [{}, {'minDtFrac': 1e-3, 'maxDtFrac': 0.05}],
        'temp': ['iso', 'iso_mid', 'iso_hot', 'heat'] if quick else ['iso', 'iso_mid', 'iso_hot', 'heat', 'updown'],
        'it': ['euler', 'rk4'],
        'adaptive': [True] if quick else [True, False],
        'nphases': [1] if quick else [1, 2],
        'parents': [False] if quick else [False, True],
    }
    for c in core.product(levels):
        if c['parents'] and c['nphases'] < 2:
            continue
        d = {'tf': 60.0, 'max_steps': 8000}
        d.update(c)
        cons = {'dtScale': 0.05}
        cons.update(TOGGLES[d.pop('toggle')])
        d['constraints'] = cons
        out.append(d)
    # (2b) temperature steps (quench and up-quench): short runs, generous horizon
    for system in ('bin', 'tern'):
        for temp in ('jump', 'jumpdown'):
            for it in ('euler', 'rk4'):
                out.append({'system': system, 'temp': temp, 'it': it, 'tf': 2.0, 'constraints': {'dtScale': 0.05},
                            'max_steps': 20000, 'record': False})
    # (2c) documented options outside the main products: second impingement-rate function, aspect ratio derived from the elastic
    #      strain energy (calculateAspectRatio) on a grid that is extended / re-meshed during the run
    strain = {'P1': {'eig': [0.022, 0.022, 0.003], 'calc': True}, 'P2': {'eig': [0.010, 0.010, 0.002], 'calc': True}}
    for it in ('euler', 'rk4'):
        for temp in ('iso', 'hrh'):
            for nph in (1, 2):
                out.append({'system': 'bin', 'beta': 2, 'temp': temp, 'it': it, 'nphases': nph, 'tf': 20.0,
                            'constraints': {'dtScale': 0.05}, 'max_steps': 8000})
                out.append({'system': 'bin', 'strain': strain, 'temp': temp, 'it': it, 'nphases': nph, 'tf': 20.0,
                            'constraints': {'dtScale': 0.05}, 'max_steps': 8000, 'pbm': pp.PBM_B, 'preload': nph == 1})
    # (2d) a distribution loaded (after setup) into a matrix far above the solvus: short horizons, the particles dissolve with
    #      time steps of ~1e-7 s
    for system in ('bin', 'tern'):
        for it in ('euler', 'rk4'):
            for tf in (3e-6, 6e-5):
                out.append({'system': system, 'temp': 'iso_hot', 'it': it, 'preload': True, 'tf': tf, 'split': 3, 'constraints': {'dtScale': 0.05},
                            'max_steps': 8000})
    # (2f) concentrated alloy (x0 just below the precipitate composition) with unequal molar volumes: the transformation runs to
    #      completion and the RK4 overshoot makes the documented cap of the volume fraction at 1 act (1 353 steps of the 0.8 case)
    for vm in (0.8, 1.0):          # (a precipitate molar volume above x_beta / x0 puts the alloy beyond the pole of the growth law)
        for it in ('euler', 'rk4'):
            out.append({'system': 'bin', 'x0': 0.24, 'vm': vm, 'it': it, 'temp': 'iso', 'tf': 4.0, 'constraints': {'dtScale': 0.05},
                        'max_steps': 20000})
    # (3) recording with a fixed grid, all site types, compositions at the edge
    for system in ('bin', 'tern'):
        for site in ['bulk', 'dislocations', 'grain boundaries', 'grain edges', 'grain corners']:
            for adaptive in (True, False):
                out.append({'system': system, 'site': site, 'adaptive': adaptive, 'tf': 60.0, 'constraints': {'dtScale': 0.05},
                            'temp': 'hrh', 'record': True, 'pbm': pp.PBM_B})
    # horizon: the shared products carry 8 000 steps (enough for C01/C02, which only label a run that hits it).  Here hitting the horizon
    # is the verdict "does not terminate", so it must be far above what a terminating run needs: runs of the thorough products were
    # measured at up to 9 533 steps (three phases, hold-ramp-hold); 40 000 leaves a factor of four
    for c in out:
        if c.get('max_steps', 4000) <= 8000:
            c['max_steps'] = 40000
    return out


FAULT_METHODS = {'bin': ['getInterfacialComposition', 'getDrivingForce'],
                 'tern': ['getGrowthAndInterfacialComposition', 'impingementFactor', 'getDrivingForce']}


def fault_cases(tier):
    quick = tier == 'quick'
    out = []
    K1 = 12 if quick else 40
    K2 = 0 if quick else 12
    for system in ('bin', 'tern'):
        for it in ('euler', 'rk4'):
            for temp in (['iso', 'hrh', 'iso_hot'] if quick else ['iso', 'hrh', 'heat', 'iso_hot']):   # iso_hot: undersaturated
                for pre in (False, True):
                    if pre and temp == 'iso_hot':
                        continue
                    if quick and pre and it == 'rk4' and temp == 'hrh':
                        continue      # quick tier: the preloaded hold-ramp-hold base with Euler only      # a loaded distribution far above the solvus dissolves with time steps of 1e-7 s: outside the horizon
                    base = {'system': system, 'it': it, 'temp': temp, 'tf': 6.0, 'constraints': {'dtScale': 0.05},
                            'preload': pre, 'max_steps': 12000}
                    for meth in FAULT_METHODS[system]:
                        out.append({'base': base, 'method': meth, 'nfaults': 0, 'K': K1})
                        out.append({'base': base, 'method': meth, 'nfaults': 1, 'K': K1})
                        if K2:
                            out.append({'base': base, 'method': meth, 'nfaults': 2, 'K': K2})
    # two precipitate phases: the calls of the phases interleave, the fall-back values are per phase
    for system in ('bin', 'tern'):
        for it in (['euler'] if quick else ['euler', 'rk4']):
            for temp in (['iso'] if quick else ['iso', 'hrh']):
                base = {'system': system, 'it': it, 'temp': temp, 'tf': 6.0, 'constraints': {'dtScale': 0.05},
                        'preload': False, 'max_steps': 12000, 'nphases': 2}
                for meth in FAULT_METHODS[system]:
                    out.append({'base': base, 'method': meth, 'nfaults': 1, 'K': K1})
                    if K2:
                        out.append({'base': base, 'method': meth, 'nfaults': 2, 'K': K2})
    return out


def run(ctx):
    cc = config_cases(ctx.tier)
    fc = fault_cases(ctx.tier)
    ctx.rule = ('config: full products of configurations, every run must end at exactly the requested time and be well formed; '
                'faults: every placement of 0/1 (thorough: 2) "no result" answers among the first K interceptable calls of each '
                'backend method; non-trivial = run with precipitates / execution with a fault placement')
    ctx.bounds = {'config_runs': len(cc), 'fault_groups': len(fc),
                  'K_single': 12 if ctx.quick else 40, 'K_pairs': 0 if ctx.quick else 12, 'fault_methods': FAULT_METHODS}
    ctx.assumptions = ['analytic backends; a fault is the documented "no result" answer of the method: None for '
                       'getGrowthAndInterfacialComposition, the previous/None impingement factor, (None, None) for getDrivingForce, '
                       'the -1 sentinel for getInterfacialComposition']
    from mc import precip_product as pp
    cc = cc + pp.real_product(ctx.tier)
    ctx.product_run('config', 'checks.c03:run_config', cc, chunksize=1)
    ctx.product_run('faults', 'checks.c03:run_fault_group', fc, chunksize=1)
