"""C18 - coupled strength and grain-growth models stay physical and aligned.

Bounded exhaustive exploration of the real StrengthModel / GrainGrowthModel:

  formulas   theta x every subset of the five cutting contributions x phase addressing mode x line-tension model x
             J model x core radius, each case evaluated on the full (radius x spacing) lattice (0, sub-core 2r < r_i,
             spacing < r_i, moderate, huge) and for several Taylor factors / base and solid-solution strengths
  multiphase two precipitate phases with different contribution sets, every pair of lattice points, through the public
             precStrength(model) / totalStrength
  grain      grain size distribution x Zener drag level x size grid x iterator x horizon; every accepted grain step of
             every run is a state (observer registered through addCouplingModel on the grain model)
  coupled    analytic precipitation host (mc/precip.py) with a StrengthModel and a GrainGrowthModel attached through
             addCouplingModel, host split over 1-3 solve calls, both host iterators; every host step is a state, every
             grain step inside it too

Oracles (source next to each assertion in the code): the clauses of the property statement; separately written edge /
screw formulas (Ahmadi et al., Comput. Mater. Sci. 91 (2014) 173 as transcribed in the docstrings; de Wit-Koehler line
tension; Hirth-Lothe partial separation constants); docstring formulas of constrainedGrowth / computeZenerRadius.
"""
import math

PROPERTY = 'C18'
LEVEL = 'model_checking'

np = None

# ---- material constants of the lattice (those of kawin/tests/test_strength.py) ------------------------------------
G_, B_, NU_ = 79.3e9, 0.25e-9, 1.0 / 3.0
PSI_DEG = 120.0
PAR_ALL = {'eps': 0.001, 'Gp': 70e9, 'yAPB': 0.04, 'ySFP': 0.05, 'gamma': 0.5}
PAR_P1 = {'eps': 0.002, 'Gp': 140e9, 'yAPB': 0.08, 'ySFP': 0.02, 'gamma': 0.3}
YSFM = 0.1
W1_, W2_ = 0.05, 0.85            # documented defaults of setModulusParameters (they replace the constructor values)
S_, BETA_, V_ = 2, 1, 2.8        # documented defaults of setAPBParameters
LABELS = ['Coherency', 'Modulus', 'APB', 'SFE', 'Interfacial']
N_SINGLE = 1.8                   # documented default superposition exponents
N_TOTAL = 1.8

# radius / spacing lattice (m).  r_i is b or 2b = 0.25 / 0.5 nm: 0.05 and 0.1 nm are sub-core for both (2r < r_i), 0.125 nm
# is exactly r_i / 2 for r_i = b, 0.2 nm is sub-core only for r_i = 2b
R_LAT = [0.0, 0.05e-9, 0.1e-9, 0.125e-9, 0.2e-9, 1e-9, 5e-9, 50e-9, 1e-6, 1e-3, 1.0]
L_LAT = [0.0, 0.1e-9, 0.3e-9, 1e-9, 50e-9, 200e-9, 1e-5, 1.0, 1.6e4]
TAYLOR = [2.24, 1.0, 3.06]
SIGMA0 = [0.0, 30e6]
SS_LAT = [0.0, 1e6, 2e8]

MODES = ['all', 'all->P1', 'P1-only', 'P1-only->P2', 'override']
HOST_HORIZON = 8000        # accepted host steps per coupled run


class StepLimit(Exception):
    pass


def prepare():
    global np, StrengthModel, GrainGrowthModel, SolverType, precip
    import numpy as np
    import kawin.precipitation  # noqa: F401   heavy import once before the workers fork
    from kawin.precipitation.coupling import StrengthModel, GrainGrowthModel
    from kawin.solver.Solver import SolverType
    from mc import precip


# =======================================================================================================================
# independent reference formulas (plain closed forms; never call the code under test)

def ref_T(kind, r0, tmodel, ri):
    """Dislocation line tension.  simple: G b^2 / 2 (docstring of Tsimple).  complex: de Wit-Koehler,
    T = G b^2 / (4 pi) * (1 + nu - 3 nu sin^2 theta) / (1 - nu) * ln(r0 / ri); edge (sin = 1): (1 - 2 nu) / (1 - nu),
    screw (sin = 0): (1 + nu) / (1 - nu)."""
    if tmodel == 'simple':
        return 0.5 * G_ * B_ ** 2 * np.ones_like(r0)
    c = (1 - 2 * NU_) / (1 - NU_) if kind == 'edge' else (1 + NU_) / (1 - NU_)
    return G_ * B_ ** 2 / (4 * math.pi) * c * np.log(r0 / ri)


def ref_J(theta_deg, jmodel):
    """J = 1 ('simple') or (1 - nu cos^2(pi/2 - theta)) / sqrt(1 - nu) = (1 - nu sin^2 theta) / sqrt(1 - nu) (docstring of Jcomplex)."""
    if jmodel == 'simple':
        return 1.0
    s = math.sin(math.radians(theta_deg))
    return (1 - NU_ * s * s) / math.sqrt(1 - NU_)


def ref_contribution(label, kind, branch, r, L, r0, par, tmodel, ri, J):
    """Edge / screw formula of one cutting contribution; returns (value, scale) where scale is the magnitude of the
    largest term entering a difference (for the absolute part of the tolerance)."""
    T = ref_T(kind, r0, tmodel, ri)
    if label == 'Coherency':
        if branch == 'weak':      # edge: sqrt(592/35 G^3 b eps^3 r^3 / (L^2 T)); screw: sqrt(9/5 ...)
            c = 592.0 / 35.0 if kind == 'edge' else 9.0 / 5.0
            v = np.sqrt(c * G_ ** 3 * B_ * par['eps'] ** 3 * r ** 3 / (L ** 2 * T))
        else:                     # edge: sqrt(2) 3^(3/8) J / L (T^3 G eps r / b^3)^(1/4); screw: 2 J / L (...)^(1/4); J = 1
            c = math.sqrt(2.0) * 3.0 ** 0.375 if kind == 'edge' else 2.0
            v = c / L * np.power(T ** 3 * G_ * par['eps'] * r / B_ ** 3, 0.25)
        return v, np.abs(v)
    if label == 'Modulus':
        F = W1_ * abs(G_ - par['Gp']) * B_ ** 2 * np.power(r / B_, W2_)     # Nembach
        if branch == 'weak':
            v = 2 * T / (B_ * L) * np.power(F / (2 * T), 1.5)
        else:
            v = J * F / (B_ * L)
        return v, np.abs(v)
    if label == 'APB':
        y = par['yAPB']
        if branch == 'weak':      # 2/s [ 2T/(bL) (y r / T)^(3/2) - beta 16 y r^2 / (3 pi b L^2) ]
            t1 = 2 * T / (B_ * L) * np.power(y * r / T, 1.5)
            t2 = BETA_ * 16 * y * r ** 2 / (3 * math.pi * B_ * L ** 2)
            return 2.0 / S_ * (t1 - t2), 2.0 / S_ * (np.abs(t1) + np.abs(t2))
        v = 2 * V_ * T / (math.pi * B_ * L) * np.sqrt(math.pi * y * r / (V_ * T))
        return v, np.abs(v)
    if label == 'SFE':
        # separation constant of the partials (Hirth & Lothe): K = G bp^2 (2 - nu - 2 nu cos 2theta) / (8 pi (1 - nu));
        # edge (cos 2theta = -1): (2 + nu), screw (cos 2theta = 1): (2 - 3 nu)
        c = (2 + NU_) if kind == 'edge' else (2 - 3 * NU_)
        K = G_ * B_ ** 2 * c / (8 * math.pi * (1 - NU_))
        W = 2 * K / (YSFM + par['ySFP'])
        F = 2 * (YSFM - par['ySFP']) * np.sqrt(W * r - W ** 2 / 4)
        if branch == 'weak':
            v = 2 * T / (B_ * L) * np.power(F / (2 * T), 1.5)
        else:
            v = F / (B_ * L)
        return v, np.abs(v)
    if label == 'Interfacial':
        if branch == 'weak':
            v = 2 * T / (B_ * L) * np.power(par['gamma'] * B_ / T, 1.5)
        else:
            v = 2 * par['gamma'] / L * np.ones_like(r)
        return v, np.abs(v)
    raise KeyError(label)


OWN_EDGE_SCREW = {('Coherency', 'weak'): 'coherencyWeak', ('Coherency', 'strong'): 'coherencyStrong', ('Modulus', 'weak'): 'modulusWeak',
                  ('APB', 'weak'): 'APBweak', ('APB', 'strong'): 'APBstrong', ('Interfacial', 'weak'): 'interfacialWeak'}

# relative tolerance of the edge/screw reduction per contribution and branch: 1e-9 where the mixed formula contains only exact
# constants (rounding of a dozen floating operations, cancellation covered by the absolute term 1e-9 * scale); where kawin's
# mixed formula carries a rounded decimal literal the tolerance is half a unit of its last digit:
#   coherency 1.3416 / 4.1127 / 2.1352 (5 digits; sqrt(9/5), sqrt(592/35), sqrt(2) 3^(3/8))  -> 0.00005 / 1.3416 < 4e-5
#   APB strong 0.69 (2 digits; 2/sqrt(pi) * sqrt(3/8) = 0.69099)                             -> 0.005 / 0.69   < 8e-3
def red_tol(label, branch):
    if label == 'Coherency':
        return 4e-5
    if label == 'APB' and branch == 'strong':
        return 8e-3
    return 1e-9


def ref_orowan(r, L, ri, J):
    """J G b / (2 pi sqrt(1 - nu) L) ln(2 r / ri) (docstring / Ahmadi eq. for non-shearable particles)."""
    return J * G_ * B_ / (2 * math.pi * math.sqrt(1 - NU_) * L) * np.log(2 * r / ri)


def clip_ref(v):
    """the property's own clause: every contribution finite and non-negative -> negative / undefined values count as 0"""
    v = np.array(v, dtype=float)
    v[~np.isfinite(v) | (v < 0)] = 0
    return v


def superpose(parts, n):
    parts = np.array(parts, dtype=float)
    return np.power(np.sum(np.power(parts, n), axis=0), 1.0 / n)


# =======================================================================================================================
# stage formulas

def _region(r, L, ri):
    if 0 < 2 * r < ri:
        return 'sub-core'
    if r == 0 and L == 0:
        return 'no-precipitates'
    if r == 0 or L == 0:
        return 'zero-radius-or-spacing'
    if L < ri:
        return 'spacing-below-core'
    if r >= 1e-3 or L >= 1.0:
        return 'huge'
    return 'regular'


def _build_strength(theta, mask, mode, tmodel, jmodel, ri_mult, psi=PSI_DEG, nexp=N_SINGLE, ntot=None):
    sm = StrengthModel()
    ri = None if ri_mult == 1 else ri_mult * B_
    sm.setDislocationParameters(G_, B_, NU_, ri, theta=theta, psi=psi)
    ntot = nexp if ntot is None else ntot
    if nexp != N_SINGLE or ntot != N_SINGLE:
        # the two superposition exponents are independent settings (single-phase contributions / total strength)
        sm.setStrengthSuperpositionExponent(singlePhaseExp=nexp, totalExp=ntot)
    sm.setTmodel(tmodel)
    sm.setJfactor(jmodel)          # (after setDislocationParameters: the J factor is evaluated when it is selected)
    targets = {'all': [('all', PAR_ALL)], 'all->P1': [('all', PAR_ALL)], 'P1-only': [('P1', PAR_P1)],
               'P1-only->P2': [('P1', PAR_P1)], 'override': [('all', PAR_ALL), ('P1', PAR_P1)]}[mode]
    for ph, par in targets:
        if mask & 1:
            sm.setCoherencyParameters(par['eps'], phase=ph)
        if mask & 2:
            sm.setModulusParameters(par['Gp'], phase=ph)
        if mask & 4:
            sm.setAPBParameters(par['yAPB'], phase=ph)
        if mask & 8:
            sm.setSFEParameters(YSFM, par['ySFP'], phase=ph)
        if mask & 16:
            sm.setInterfacialParameters(par['gamma'], phase=ph)
    query = {'all': 'all', 'all->P1': 'P1', 'P1-only': 'P1', 'P1-only->P2': 'P2', 'override': 'P1'}[mode]
    active = [LABELS[i] for i in range(5) if mask & (1 << i)] if mode != 'P1-only->P2' else []
    par = PAR_ALL if mode in ('all', 'all->P1') else PAR_P1
    return sm, query, active, par, (B_ if ri is None else ri)


def run_formulas(case):
    theta, mask, mode, tmodel, jmodel, ri_mult = (case['theta'], case['mask'], case['mode'], case['tmodel'],
                                                  case['jmodel'], case['ri'])
    psi, nexp = case.get('psi', PSI_DEG), case.get('exp', N_SINGLE)
    ntot = case.get('exptot', nexp)
    viol, seen = [], set()
    tag = 'theta=%g contributions=%s mode=%s T=%s J=%s ri=%gb psi=%g exponent=%g' % (
        theta, '+'.join(LABELS[i] for i in range(5) if mask & (1 << i)) or 'none', mode, tmodel, jmodel, ri_mult, psi, nexp)

    def bad(sig, msg):
        if sig not in seen:
            seen.add(sig)
            viol.append({'sig': 'formulas/' + sig, 'msg': tag + ': ' + msg})

    sm, query, active, par, ri = _build_strength(theta, mask, mode, tmodel, jmodel, ri_mult, psi, nexp, ntot)
    case_phase = {'all': 'all', 'all->P1': 'all', 'P1-only': 'P1', 'P1-only->P2': 'P1', 'override': 'P1'}[mode]   # key the parameters were stored under
    R, L = [a.ravel() for a in np.meshgrid(np.array(R_LAT), np.array(L_LAT), indexing='ij')]
    npt = len(R)
    regions = [_region(R[k], L[k], ri) for k in range(npt)]
    try:
        w, s, o, labels = sm.getStrengthContributions(R.copy(), L.copy(), query)
    except Exception as e:
        bad('exception/getStrengthContributions', '%s: %s' % (type(e).__name__, e))
        return {'viol': viol, 'states': 0, 'outcome': 'exception'}
    w, s, o = np.array(w, dtype=float), np.array(s, dtype=float), np.array(o, dtype=float)

    # --- phase-specific vs 'all' (docstrings of the set*Parameters methods): which contributions act on the queried phase
    if list(labels) != active:
        bad('phase-addressing/labels', 'contributions acting on phase %r are %r, expected %r' % (query, list(labels), active))
        return {'viol': viol, 'states': npt, 'outcome': 'labels'}
    if len(active) and (w.shape != (len(active), npt) or s.shape != (len(active), npt)):
        bad('shape', 'weak %r strong %r for %d contributions on %d points' % (w.shape, s.shape, len(active), npt))
        return {'viol': viol, 'states': npt, 'outcome': 'shape'}

    # --- statement: every strength contribution is finite and non-negative for all non-negative radii and spacings
    tainted = np.zeros(npt, dtype=bool)          # points whose inputs to the combination already violate the clause
    for name, arr in [(lab + '-weak', w[i]) for i, lab in enumerate(active)] + \
                     [(lab + '-strong', s[i]) for i, lab in enumerate(active)] + [('orowan', o)]:
        badpts = ~np.isfinite(arr) | (arr < 0)
        for k in np.nonzero(badpts)[0]:
            # downstream consequence, for the message only
            down = _downstream(sm, w, s, o, k)
            bad('contribution-negative-or-nonfinite/%s/%s' % (name if name == 'orowan' else name.split('-')[0].lower() + '-' + name.split('-')[1], regions[k]),
                '%s contribution = %r at r=%g m, spacing=%g m (r_i=%g m); precipitate strength from it = %r, total strength = %r'
                % (name, float(arr[k]), R[k], L[k], ri, down[0], down[1]))
        tainted |= badpts

    # --- statement: mixed-dislocation formulas reduce to the edge / screw formulas at 90 / 0 degrees
    Jref = ref_J(theta, jmodel)
    nred = 0
    if theta in (0, 90):
        kind = 'edge' if theta == 90 else 'screw'
        r0w = L / math.sqrt(math.cos(math.radians(psi) / 2))      # effective (Friedel) spacing of weak obstacles
        with np.errstate(all='ignore'):
            for i, lab in enumerate(active):
                if jmodel != 'simple' and lab != 'Modulus':
                    continue         # the edge / screw references are written for J = 1 (see assumptions); J enters only modulus-strong
                for branch, got, r0 in (('weak', w[i], r0w), ('strong', s[i], L)):
                    ref, scale = ref_contribution(lab, kind, branch, R, L, r0, par, tmodel, ri, Jref)
                    ok = np.isfinite(ref) & (ref > 0) & np.isfinite(scale)
                    exp = clip_ref(ref)
                    tol = red_tol(lab, branch)
                    err = np.abs(got - exp)
                    lim = tol * np.abs(exp) + 1e-9 * np.where(ok, scale, 0.0)
                    # where the reference is undefined / non-positive the clipped contribution must be exactly 0
                    wrong = np.where(ok, err > lim, got != 0)
                    nred += int(np.sum(ok))
                    for k in np.nonzero(wrong)[0][:1]:
                        bad('reduction/%s-%s/%s' % (lab.lower(), branch, kind),
                            '%s %s at %s limit: kawin %r, %s formula %r at r=%g spacing=%g (rel. tolerance %g)'
                            % (lab, branch, kind, float(got[k]), kind, float(exp[k]), R[k], L[k], tol))
                    # ... and to the edge / screw formulas the library itself ships (public methods <contribution><Branch><Edge|Screw>)
                    own_name = OWN_EDGE_SCREW.get((lab, branch))
                    if own_name is not None:
                        fn = getattr(sm, own_name + kind.capitalize(), None)
                        if fn is None:
                            bad('reduction/own-formula-missing/%s-%s' % (lab.lower(), branch), 'no method %s%s' % (own_name, kind.capitalize()))
                            continue
                        try:
                            own = np.asarray(fn(R, L, r0, phase=case_phase), dtype=float)
                        except Exception as e:
                            bad('reduction/own-formula-exception/%s-%s/%s' % (lab.lower(), branch, kind), '%s: %s' % (type(e).__name__, e))
                            continue
                        oko = np.isfinite(own) & (own > 0) & ok
                        wrongo = oko & (np.abs(got - own) > tol * np.abs(own) + 1e-9 * np.where(oko, scale, 0.0))
                        nred += int(np.sum(oko))
                        for k in np.nonzero(wrongo)[0][:1]:
                            bad('reduction/own-formula/%s-%s/%s' % (lab.lower(), branch, kind),
                                '%s %s at the %s limit: mixed formula %r, the library\'s own %s formula %s%s gives %r at r=%g spacing=%g'
                                % (lab, branch, kind, float(got[k]), kind, own_name, kind.capitalize(), float(own[k]), R[k], L[k]))
    # Orowan (any theta: theta enters only through J)
    with np.errstate(all='ignore'):
        oref = ref_orowan(R, L, ri, Jref)
    oexp = clip_ref(oref)           # (statement: contributions are finite and non-negative -> undefined / negative values count as 0)
    wrong = np.where(oexp > 0, np.abs(o - oexp) > 1e-9 * oexp, o != 0) & ~tainted
    # (a negative Orowan value is reported above as a negative contribution; its points are not compared a second time)
    for k in np.nonzero(wrong)[0][:1]:
        bad('reduction/orowan', 'Orowan: kawin %r, formula %r at r=%g spacing=%g' % (float(o[k]), float(oexp[k]), R[k], L[k]))

    # --- statement: precipitate strength = Taylor factor x min(weak, strong, Orowan); finite, non-negative; zero without precipitates
    n_eval = 0
    prec_by_M = {}
    for M in TAYLOR:
        sm.setTaylorFactor(M)
        try:
            ps = np.array(sm.combineStrengthContributions(w.copy(), s.copy(), o.copy()), dtype=float)
        except Exception as e:
            bad('exception/combineStrengthContributions', '%s: %s' % (type(e).__name__, e))
            break
        prec_by_M[M] = ps
        clean = ~tainted
        with np.errstate(all='ignore'):
            wsum = superpose(w, nexp) if len(active) else np.zeros(npt)
            ssum = superpose(s, nexp) if len(active) else np.zeros(npt)
        exp = M * np.minimum(np.minimum(wsum, ssum), o)
        # 1e-12: the reference repeats the same handful of floating operations
        wrong = clean & ~(np.abs(ps - exp) <= 1e-12 * np.abs(exp))
        for k in np.nonzero(wrong)[0][:1]:
            bad('min-rule/%s' % regions[k], 'precipitate strength %r, M*min(weak %r, strong %r, orowan %r) = %r at r=%g spacing=%g M=%g'
                % (float(ps[k]), float(wsum[k]), float(ssum[k]), float(o[k]), float(exp[k]), R[k], L[k], M))
        wrong = clean & (~np.isfinite(ps) | (ps < 0))
        for k in np.nonzero(wrong)[0][:1]:
            bad('precipitate-strength-negative-or-nonfinite/%s' % regions[k], 'precipitate strength %r at r=%g spacing=%g' % (float(ps[k]), R[k], L[k]))
        k0 = [k for k in range(npt) if regions[k] == 'no-precipitates']
        for k in k0:
            if ps[k] != 0:
                bad('no-precipitates-nonzero', 'precipitate strength %r with radius 0 and spacing 0' % float(ps[k]))
        n_eval += npt

        # --- statement: total strength >= each part, non-decreasing in each part, finite and non-negative
        for s0 in SIGMA0:
            sm.setBaseStrength(s0)
            order = np.argsort(ps[clean], kind='stable')
            pvals = ps[clean][order]
            prev_ss = None
            for ssv in SS_LAT:
                ssarr = np.full(len(pvals), ssv)
                try:
                    tot = np.array(sm.totalStrength(ssarr, pvals.copy()), dtype=float)
                except Exception as e:
                    bad('exception/totalStrength', '%s: %s' % (type(e).__name__, e))
                    break
                okp = np.isfinite(pvals) & (pvals >= 0)        # (violations of that are reported above)
                if np.any(okp & (~np.isfinite(tot) | (tot < 0))):
                    k = int(np.nonzero(okp & (~np.isfinite(tot) | (tot < 0)))[0][0])
                    bad('total-negative-or-nonfinite', 'total %r from base %g, solid solution %g, precipitate %r' % (float(tot[k]), s0, ssv, float(pvals[k])))
                # 1e-14 relative: pow/sum/pow round by a few ulp; mathematically (a^n+b^n+c^n)^(1/n) >= max(a,b,c) for n > 0
                part = np.maximum(np.maximum(s0, ssv), np.where(okp, pvals, 0))
                lowp = okp & (tot < part * (1 - 1e-14))
                if np.any(lowp):
                    k = int(np.nonzero(lowp)[0][0])
                    bad('total-below-part', 'total %r < a part: base %g, solid solution %g, precipitate %r' % (float(tot[k]), s0, ssv, float(pvals[k])))
                t_ok = tot[okp]
                if np.any(t_ok[1:] < t_ok[:-1] * (1 - 1e-14)):
                    bad('total-not-monotone/precipitate', 'total strength decreases while the precipitate part increases (base %g, solid solution %g)' % (s0, ssv))
                if prev_ss is not None and np.any((tot < prev_ss * (1 - 1e-14)) & okp):
                    bad('total-not-monotone/solid-solution', 'total strength decreases while the solid-solution part increases to %g (base %g)' % (ssv, s0))
                prev_ss = tot
                n_eval += len(pvals)
        sm.setBaseStrength(0)
    # monotone in the base strength
    if prec_by_M:
        ps = prec_by_M[TAYLOR[0]]
        okp = np.isfinite(ps) & (ps >= 0)
        prev = None
        for s0 in SIGMA0:
            sm.setBaseStrength(s0)
            tot = np.array(sm.totalStrength(np.full(npt, SS_LAT[1]), ps.copy()), dtype=float)
            if prev is not None and np.any((tot < prev * (1 - 1e-14)) & okp):
                bad('total-not-monotone/base', 'total strength decreases while the base strength increases to %g' % s0)
            prev = tot
    oc = 'n=%d%s%s' % (len(active), ',tainted' if tainted.any() else '', ',reduced' if nred else '')
    return {'viol': viol, 'states': npt, 'transitions': n_eval, 'evaluations': 1, 'outcome': oc,
            'nontrivial': len(active) > 0 or mode == 'P1-only->P2',
            'info': {'points': npt, 'reduction_points_compared': nred, 'tainted_points': int(tainted.sum())}}


def _downstream(sm, w, s, o, k):
    try:
        with np.errstate(all='ignore'):
            ps = sm.combineStrengthContributions(w[:, k:k + 1].copy() if len(w) else w.copy(), s[:, k:k + 1].copy() if len(s) else s.copy(),
                                                 o[k:k + 1].copy())
            tot = sm.totalStrength(np.zeros(1), np.array(ps, dtype=float))
        return float(ps[0]), float(tot[0])
    except Exception as e:      # message decoration only
        return 'n/a (%s)' % type(e).__name__, 'n/a'


# =======================================================================================================================
# stage multiphase: precStrength(model) / totalStrength with two phases on every pair of lattice points

class _PhasesOnly:
    def __init__(self, phases):
        self.phases = phases


def run_multi(case):
    theta, maskA, maskB = case['theta'], case['maskA'], case['maskB']
    viol, seen = [], set()
    tag = 'theta=%g P1=%s P2=%s' % (theta, '+'.join(LABELS[i] for i in range(5) if maskA & (1 << i)) or 'none',
                                    '+'.join(LABELS[i] for i in range(5) if maskB & (1 << i)) or 'none')

    def bad(sig, msg):
        if sig not in seen:
            seen.add(sig)
            viol.append({'sig': 'multiphase/' + sig, 'msg': tag + ': ' + msg})

    sm = StrengthModel()
    sm.setDislocationParameters(G_, B_, NU_, None, theta=theta, psi=PSI_DEG)
    for ph, mask, par in (('P1', maskA, PAR_P1), ('P2', maskB, PAR_ALL)):
        if mask & 1:
            sm.setCoherencyParameters(par['eps'], phase=ph)
        if mask & 2:
            sm.setModulusParameters(par['Gp'], phase=ph)
        if mask & 4:
            sm.setAPBParameters(par['yAPB'], phase=ph)
        if mask & 8:
            sm.setSFEParameters(YSFM, par['ySFP'], phase=ph)
        if mask & 16:
            sm.setInterfacialParameters(par['gamma'], phase=ph)
    R, L = [a.ravel() for a in np.meshgrid(np.array(R_LAT), np.array(L_LAT), indexing='ij')]
    npt = len(R)
    ia, ib = [a.ravel() for a in np.meshgrid(np.arange(npt), np.arange(npt), indexing='ij')]
    # the histories a coupled run would have produced (rows = "time steps", columns = phases)
    sm.rss = np.stack([R[ia], R[ib]], axis=1)
    sm.ls = np.stack([L[ia], L[ib]], axis=1)
    sm.solidStrength = np.full(len(ia), SS_LAT[1])
    sm.setBaseStrength(SIGMA0[1])
    model = _PhasesOnly(np.array(['P1', 'P2']))
    # points with a negative Orowan term are reported by stage formulas (contribution clause); here they are only masked
    with np.errstate(all='ignore'):
        oro = ref_orowan(R, L, B_, 1.0)
    neg = np.isfinite(oro) & (oro < 0)
    clean = ~(neg[ia] | neg[ib])
    try:
        ps = np.array(sm.precStrength(model), dtype=float)
        tot = np.array(sm.totalStrength(sm.solidStrength, ps.copy()), dtype=float)
    except Exception as e:
        bad('exception', '%s: %s' % (type(e).__name__, e))
        return {'viol': viol, 'states': 0, 'outcome': 'exception'}
    # statement: combined precipitate strength finite and non-negative; zero when there are no precipitates
    wrong = clean & (~np.isfinite(ps) | (ps < 0))
    for k in np.nonzero(wrong)[0][:1]:
        bad('precipitate-strength-negative-or-nonfinite', 'combined precipitate strength %r for (r, spacing) = (%g, %g) and (%g, %g)'
            % (float(ps[k]), R[ia[k]], L[ia[k]], R[ib[k]], L[ib[k]]))
    none = (R[ia] == 0) & (L[ia] == 0) & (R[ib] == 0) & (L[ib] == 0)
    if np.any(ps[none] != 0):
        bad('no-precipitates-nonzero', 'combined precipitate strength %r without precipitates' % float(ps[none][0]))
    # statement: total finite, non-negative, at least each part
    okp = clean & np.isfinite(ps) & (ps >= 0)
    wrong = okp & (~np.isfinite(tot) | (tot < 0))
    for k in np.nonzero(wrong)[0][:1]:
        bad('total-negative-or-nonfinite', 'total %r from precipitate strength %r' % (float(tot[k]), float(ps[k])))
    part = np.maximum(np.maximum(SIGMA0[1], SS_LAT[1]), np.where(okp, ps, 0))
    wrong = okp & (tot < part * (1 - 1e-14))
    for k in np.nonzero(wrong)[0][:1]:
        bad('total-below-part', 'total %r < max(base, solid solution, precipitate %r)' % (float(tot[k]), float(ps[k])))
    return {'viol': viol, 'states': int(len(ia)), 'transitions': int(len(ia)), 'outcome': 'masked=%s' % bool((~clean).any()),
            'nontrivial': bool(np.any(ps[clean] > 0)), 'info': {'pairs': int(len(ia)), 'positive': int(np.sum(ps[clean] > 0))}}


# =======================================================================================================================
# stage grain: stand-alone grain growth, every accepted step is a state

def _dist(name, lo, hi):
    """grain size distributions on the (linear) size grid [lo, hi]; c = 0.3 hi keeps them well inside the grid"""
    c = 0.3 * hi
    if name == 'lognormal':
        return lambda R: np.exp(-0.5 * (np.log(R / c) / 0.35) ** 2) / R
    if name == 'narrow':          # compact support: a box 0.8c .. 1.25c
        return lambda R: ((R > 0.8 * c) & (R < 1.25 * c)).astype(float)
    if name == 'narrow-low':      # a box in the lowest few classes of the grid (the first grain step re-meshes the grid)
        cl = math.sqrt(lo * hi)
        return lambda R: ((R > 0.8 * cl) & (R < 1.25 * cl)).astype(float)
    if name == 'bimodal':
        return lambda R: (np.exp(-0.5 * (np.log(R / (0.4 * c)) / 0.2) ** 2) / R + 0.05 * np.exp(-0.5 * (np.log(R / (2.5 * c)) / 0.15) ** 2) / R)
    if name == 'wide':
        return lambda R: np.exp(-0.5 * (np.log(R / c) / 0.8) ** 2) / R
    raise KeyError(name)


GRIDS = {'g100': (1e-7, 1e-4, 100, 50, 150), 'g40': (2e-8, 5e-6, 40, 20, 80), 'g150': (1e-9, 1e-6, 150, 100, 200)}
ZLEVELS = ['zero', 'small', 'half', 'below-freeze-pop', 'above-freeze-pop', 'below-freeze', 'above-freeze', 'far-above']


class _ZenerStub:
    """What computeZenerRadius reads from a precipitation model: phases, pData.n, pData.Ravg, pData.volFrac."""

    class _P:
        pass

    def __init__(self, z, K=4.0 / 3.0):
        # one phase of mean radius R and volume fraction f with z = f^m / (K R), m = 1 (docstring of computeZenerRadius)
        self.phases = np.array(['P'])
        self.pData = self._P()
        self.pData.n = 0
        self.R = 1e-12           # (only a number: keeps f = z K R below 1 for every drag level of the lattice)
        self.f = z * K * self.R
        self.pData.Ravg = np.array([[self.R]])
        self.pData.volFrac = np.array([[self.f]])
        self.z = (self.f ** 1) / (K * self.R) if z > 0 else 0.0


class _GrainObserver:
    def __init__(self, limit):
        self.rows, self.limit = [], limit

    def updateCoupledModel(self, g):
        self.rows.append((float(g.time[-1]), np.array(g.pbm.PSD, copy=True), np.array(g.pbm.PSDbounds, copy=True),
                          np.array(g.pbm.PSDsize, copy=True), float(g.avgR[-1])))
        if len(self.rows) > self.limit:
            raise StepLimit()


def _freeze_levels(g):
    """freezing drags of the current state from the docstring of constrainedGrowth: growth stops at a boundary when
    z >= |1/Rcr - 1/R_i|; all boundaries -> 'structure frozen'; boundaries next to a populated class -> nothing can move."""
    psd, bnd, cen = g.pbm.PSD, g.pbm.PSDbounds, g.pbm.PSDsize
    rcr = float(np.sum(psd * cen ** 2) / np.sum(psd * cen))
    d = np.abs(1.0 / rcr - 1.0 / bnd)
    pop = np.zeros(len(bnd), dtype=bool)
    pop[:-1] |= psd > 0
    pop[1:] |= psd > 0
    return rcr, float(np.max(d)), float(np.max(d[pop]))


def _check_grain_state(g, psd, bnd, cen, z, bad, where):
    """state invariants of one grain state (after a grain step)"""
    # third moment = 1 (statement: grain growth conserves total grain volume; Normalize() after every step).  1e-12: the
    # normalisation divides by the same sum, leaving the rounding of <= 200 products
    m3 = float(np.sum(psd * cen ** 3))
    if not abs(m3 - 1.0) <= 1e-12:
        bad('third-moment', '%s: third moment %.17g' % (where, m3))
    if not np.all(np.isfinite(psd)) or np.any(psd < 0):
        bad('psd-negative-or-nonfinite', '%s: min %r' % (where, float(np.min(psd))))
    gr = np.array(g.grainGrowth(psd), dtype=float)
    amg = g.alpha * g.M * g.gbe
    zf_all = float(np.max(np.abs(gr))) / amg
    for zz in (z, 0.0, zf_all * (1 + 1e-9), zf_all * (1 - 1e-9)):
        cg = np.array(g.constrainedGrowth(gr.copy(), zz), dtype=float)
        # statement: Zener drag never reverses or accelerates a boundary
        if np.any(np.abs(cg) > np.abs(gr)):
            bad('drag-accelerates', '%s: |constrained| > |unconstrained| at z=%g' % (where, zz))
        if np.any((cg != 0) & (np.sign(cg) != np.sign(gr))):
            bad('drag-reverses', '%s: constrained growth has the opposite sign at z=%g' % (where, zz))
        # docstring: dR/dt = alpha M gbe ((1/Rcr - 1/Ri) -/+ z), zero between the two limits
        ref = np.sign(gr) * np.maximum(np.abs(gr) - amg * zz, 0.0)
        if not np.all(np.abs(cg - ref) <= 1e-12 * np.abs(gr)):
            bad('drag-formula', '%s: constrained growth differs from sign(g) max(|g| - alpha M gbe z, 0) at z=%g' % (where, zz))
        # statement: freezes the structure when strong enough
        if zz > zf_all and np.any(cg != 0):
            bad('not-frozen', '%s: non-zero constrained growth at z=%g beyond the freezing drag %g' % (where, zz, zf_all))
        if zz == 0 and cg.tobytes() != gr.tobytes():
            bad('zero-drag-changes-growth', '%s: constrained growth with z=0 differs from the unconstrained one' % where)
    # independent value of the unconstrained growth: alpha M gbe (1/Rcr - 1/R_i), Rcr = sum n r^2 / sum n r (docstrings)
    rcr = float(np.sum(psd * cen ** 2) / np.sum(psd * cen))
    refg = amg * (1.0 / rcr - 1.0 / bnd)
    if not np.all(np.abs(gr - refg) <= 1e-9 * np.abs(refg) + 1e-12 * amg / bnd):
        bad('growth-formula', '%s: grainGrowth differs from alpha M gbe (1/Rcr - 1/R)' % where)


def run_grain(case):
    dist, zl, grid, it, horizon = case['dist'], case['z'], case['grid'], case['it'], case['horizon']
    viol, seen = [], set()
    tag = 'dist=%s z=%s grid=%s it=%s horizon=%g' % (dist, zl, grid, it, horizon)
    alpha = case.get('alpha')
    if alpha is not None:
        tag += ' alpha=%g' % alpha

    def bad(sig, msg):
        sig = 'grain/' + sig
        if sig not in seen:
            seen.add(sig)
            viol.append({'sig': sig, 'msg': tag + ': ' + msg})

    cmin, cmax, bins, minb, maxb = GRIDS[grid]
    g = GrainGrowthModel(cmin, cmax, bins, minb, maxb, solverType=SolverType.RK4 if it == 'rk4' else SolverType.EXPLICITEULER)
    if alpha is not None:
        g.setAlpha(alpha)          # the fitting factor scales curvature term and drag alike: the freezing drag does not depend on it
    g.LoadDistributionFunction(_dist(dist, cmin, cmax))
    obs = _GrainObserver(4000)
    g.addCouplingModel(obs)
    rcr0, zf_all, zf_pop = _freeze_levels(g)
    z = {'zero': 0.0, 'small': 0.05 / rcr0, 'half': 0.5 / rcr0, 'below-freeze-pop': zf_pop * (1 - 1e-3),
         'above-freeze-pop': zf_pop * (1 + 1e-3), 'below-freeze': zf_all * (1 - 1e-3), 'above-freeze': zf_all * (1 + 1e-3),
         'far-above': 50 * zf_all}[zl]
    stub = _ZenerStub(z)
    g.computeZenerRadius(stub)
    zz = getattr(g, '_z')          # (private; the harness fails loudly if it disappears)
    # docstring of computeZenerRadius: z = sum_j f_j^m_j / (K_j avgR_j)
    if not abs(zz - stub.z) <= 1e-12 * abs(stub.z):
        bad('zener-formula', 'drag %r, f^m/(K R) = %r' % (zz, stub.z))
    g0_psd, g0_bnd = g.pbm.PSD.copy(), g.pbm.PSDbounds.copy()
    m3_0 = float(np.sum(g.pbm.PSD * g.pbm.PSDsize ** 3))
    if not abs(m3_0 - 1.0) <= 1e-12:
        bad('third-moment', 'after loading the distribution: %.17g' % m3_0)
    _check_grain_state(g, g.pbm.PSD.copy(), g.pbm.PSDbounds.copy(), g.pbm.PSDsize.copy(), zz, bad, 'initial state')
    # time scale: the mean grain grows by about R/tau per second with tau = Rcr^2 / (alpha M gbe)
    tau = rcr0 ** 2 / (g.alpha * g.M * g.gbe)
    outcome = None
    try:
        for k in range(case['calls']):
            g.solve(horizon * tau / case['calls'])
    except StepLimit:
        outcome = 'step-limit'
    except Exception as e:
        bad('exception', 'solve raised %s: %s' % (type(e).__name__, e))
        outcome = 'exception'
    rows = obs.rows
    prevR = float(g.avgR[0])
    prev = (g0_psd, g0_bnd)
    frozen_run = zz > zf_all
    nremesh = 0
    for k, (t, psd, bnd, cen, avg) in enumerate(rows):
        where = 'grain step %d t=%g' % (k + 1, t)
        _check_grain_state(g_with(g, psd, bnd, cen), psd, bnd, cen, zz, bad, where)
        same_grid = len(bnd) == len(prev[1]) and bnd.tobytes() == prev[1].tobytes()
        nremesh += 0 if same_grid else 1
        # statement: the mean grain size never decreases without pinning.  1e-12 relative: cbrt/sum rounding only.  A step on which
        # the size grid was re-meshed is labelled separately (the re-binning is a grid operation), as is a step that starts with
        # grains in the last size class (they can leave through the end of the grid)
        if zz == 0 and not avg >= prevR * (1 - 1e-12):
            why = '/last-class-populated' if prev[0][-1] > 0 else ('' if same_grid else '/on-remesh')
            if not same_grid:
                # a decrease on a step that re-binned the distribution is identified by the configuration and the re-binning, so that
                # any other decrease (other input, other grid change, or none) is a different signature
                why += '/remesh=%d->%d-classes/dist=%s/grid=%s/it=%s' % (len(prev[0]), len(psd), dist, grid, it)
            bad('mean-size-decreases' + why, '%s: mean size %.17g -> %.17g without drag (number of grains per volume %.9g -> %.9g, last size class held %.3g)'
                % (where, prevR, avg, float(np.sum(prev[0])), float(np.sum(psd)), float(prev[0][-1])))
        # statement: Zener drag freezes the structure when strong enough: beyond the freezing drag of the initial state no size
        # class changes (1e-12: only the renormalisation by a third moment of 1 +- eps touches the numbers).  Compared on steps
        # that keep the size grid; a re-meshed grid holds the same grains in other classes (grid operations are C08's subject)
        if frozen_run and same_grid and not np.all(np.abs(psd - prev[0]) <= 1e-12 * np.max(prev[0])):
            bad('not-frozen-run', '%s: the size distribution changed although the drag %g exceeds the freezing drag %g (mean %.17g -> %.17g)'
                % (where, zz, zf_all, prevR, avg))
        prevR = avg
        prev = (psd, bnd)
    if len(g.avgR) != len(g.time) or len(g.time) != len(rows) + 1:
        bad('history-length', '%d times, %d mean sizes, %d observed steps' % (len(g.time), len(g.avgR), len(rows)))
    # ---- the same model object used again: reset() restores the loaded distribution, LoadDistributionFunction loads it anew; the
    #      second run must obey the same clauses as the first (state kept from the first run must not leak into it)
    reuse = case.get('reuse')
    if reuse and outcome is None:
        nfirst = len(rows)
        try:
            if reuse == 'reset':
                g.reset()
            else:
                g.LoadDistributionFunction(_dist(dist, cmin, cmax))
            g.computeZenerRadius(stub)
            startR = float(g.Rm(g.pbm.PSD))
            start_last = float(g.pbm.PSD[-1])
            m3 = float(np.sum(g.pbm.PSD * g.pbm.PSDsize ** 3))
            if not abs(m3 - 1.0) <= 1e-12:
                bad('third-moment/after-%s' % reuse, 'third moment %.17g after %s' % (m3, reuse))
            g.solve(horizon * tau / case['calls'])
        except StepLimit:
            pass
        except Exception as e:
            bad('exception/after-%s' % reuse, '%s raised %s: %s' % (reuse, type(e).__name__, e))
        else:
            prevR2 = startR
            for k, (t, psd, bnd, cen, avg) in enumerate(obs.rows[nfirst:]):
                m3 = float(np.sum(psd * cen ** 3))
                if not abs(m3 - 1.0) <= 1e-12:
                    bad('third-moment/after-%s' % reuse, 'second run step %d: %.17g' % (k + 1, m3))
                if zz == 0 and not avg >= prevR2 * (1 - 1e-12):
                    bad('mean-size-decreases/after-%s%s' % (reuse, '/last-class-populated' if (k == 0 and start_last > 0) else ''),
                        'second run (after %s) step %d: mean size %.17g -> %.17g without drag' % (reuse, k + 1, prevR2, avg))
                prevR2 = avg
    if np.any(np.diff(g.time) <= 0):
        bad('time-not-increasing', 'grain time stamps are not strictly increasing')
    grew = len(rows) > 0 and g.avgR[-1] > g.avgR[0] * (1 + 1e-6)
    if outcome is None:
        outcome = '%s%s/%s' % ('remesh,' if nremesh else '', 'frozen' if (len(rows) and abs(g.avgR[-1] - g.avgR[0]) <= 1e-12 * g.avgR[0]) else ('grew' if grew else 'moved'),
                             'steps=%s' % _bucket(len(rows)))
    return {'viol': viol, 'states': len(rows) + 1, 'transitions': len(rows), 'outcome': outcome, 'nontrivial': len(rows) > 0,
            'info': {'steps': len(rows), 'avgR0': float(g.avgR[0]), 'avgR1': float(g.avgR[-1]), 'z': zz, 'z_freeze': zf_all,
                     'z_freeze_populated': zf_pop}}


class g_with:
    """View of a grain model evaluated on a stored state: grainGrowth / constrainedGrowth read pbm.PSDbounds and the moments
    read pbm.PSDsize, so a stored state is evaluated on a scratch model carrying that grid (the run's model is not touched)."""

    def __init__(self, g, psd, bnd, cen):
        self._g = g
        s = GrainGrowthModel(float(bnd[0]), float(bnd[-1]), len(psd), len(psd), len(psd))
        s.pbm.PSDbounds, s.pbm.PSDsize, s.pbm.PSD = bnd.copy(), cen.copy(), psd.copy()
        s.gbe, s.M, s.alpha = g.gbe, g.M, g.alpha
        self._s = s
        self.alpha, self.M, self.gbe = g.alpha, g.M, g.gbe

    def grainGrowth(self, x):
        return self._s.grainGrowth(x)

    def constrainedGrowth(self, gr, z):
        return self._s.constrainedGrowth(gr, z)


def _bucket(n):
    return str(n) if n <= 2 else ('3-9' if n < 10 else ('10-99' if n < 100 else ('100-999' if n < 1000 else '1000+')))


# =======================================================================================================================
# stage coupled

STRENGTH_SETUPS = {
    # name: (theta, ri multiple of b, 'all' contributions mask, P1-specific mask, solid-solution weights / exponent)
    'coh+mod': (90, 2, 1 | 2, 0, ({'B': 1e8, 'C': 5e7}, 1)),
    'all5/P1-apb': (30, 1, 1 | 2 | 8 | 16, 4, ({'B': 3e8}, 0.5)),
    'none': (0, 1, 0, 0, ({}, 1)),
}


class _HostObserver:
    """registered LAST on the host, so it runs after the strength and the grain model have been updated for the step"""

    def __init__(self, host, sm, gg, gobs, limit, bad):
        self.host, self.sm, self.gg, self.gobs, self.limit, self.bad = host, sm, gg, gobs, limit, bad
        self.steps = 0
        self.t_attach = float(host.pData.time[host.pData.n])
        self.n_attach = int(host.pData.n)
        self.max_clock_err = 0.0

    def updateCoupledModel(self, model):
        self.steps += 1
        n = int(model.pData.n)
        t = float(model.pData.time[n])
        sm, gg = self.sm, self.gg
        where = 'host step %d (n=%d, t=%.9g)' % (self.steps, n, t)
        # statement: the strength history has exactly one entry per host step (plus the initial row)
        want = self.steps + 1
        lens = (len(sm.rss), len(sm.ls), len(sm.solidStrength))
        if lens != (want, want, want):
            self.bad('strength-history-length', '%s: len(rss, ls, solidStrength) = %r, expected %d (host time has %d entries, attached at n=%d)'
                     % (where, lens, want, len(model.pData.time), self.n_attach))
        if self.n_attach == 0 and len(model.pData.time) != want:
            self.bad('host-history-length', '%s: host time has %d entries after %d steps' % (where, len(model.pData.time), self.steps))
        # statement: the grain-growth clock equals the host clock after every host step.  1e-12 t (DESIGN.md): each host step adds
        # (t_n - t_(n-1)) to the grain clock, one rounding of <= eps/2 * t per step, 8000 * 1.1e-16 < 1e-12 for the steps of the horizon
        tg = float(gg.time[-1])
        err = abs(tg - (t - self.t_attach))
        self.max_clock_err = max(self.max_clock_err, err / t if t > 0 else 0.0)
        if not err <= 1e-12 * t:
            self.bad('grain-clock', '%s: grain clock %.17g, host clock since attachment %.17g (difference %.3g)' % (where, tg, t - self.t_attach, err))
        if self.steps > self.limit:
            raise StepLimit()


def run_coupled(case):
    viol, seen = [], set()
    tag = ' '.join('%s=%s' % (k, case[k]) for k in sorted(case))

    def bad(sig, msg):
        sig = 'coupled/' + sig
        if sig not in seen:
            seen.add(sig)
            viol.append({'sig': sig, 'msg': tag + ': ' + msg})

    cfg = {'system': case['system'], 'nphases': case['nphases'], 'it': case['it'], 'temp': case['temp'], 'tf': case['tf'],
           'constraints': {'dtScale': 0.05}, 'record': False}
    host, therm, c = precip.build_model(cfg)
    theta, rim, mask_all, mask_p1, (ssw, ssexp) = STRENGTH_SETUPS[case['strength']]
    sm = StrengthModel()
    sm.setDislocationParameters(G_, B_, NU_, None if rim == 1 else rim * B_, theta=theta, psi=PSI_DEG)
    for ph, mask, par in (('all', mask_all, PAR_ALL), ('P1', mask_p1, PAR_P1)):
        if mask & 1:
            sm.setCoherencyParameters(par['eps'], phase=ph)
        if mask & 2:
            sm.setModulusParameters(par['Gp'], phase=ph)
        if mask & 4:
            sm.setAPBParameters(par['yAPB'], phase=ph)
        if mask & 8:
            sm.setSFEParameters(YSFM, par['ySFP'], phase=ph)
        if mask & 16:
            sm.setInterfacialParameters(par['gamma'], phase=ph)
    sm.setSolidSolutionStrength(ssw, ssexp)
    sm.setBaseStrength(30e6)
    cmin, cmax, bins, minb, maxb = GRIDS[case['grid']]
    gg = GrainGrowthModel(cmin, cmax, bins, minb, maxb, solverType=SolverType.RK4 if case['git'] == 'rk4' else SolverType.EXPLICITEULER)
    gg.LoadDistributionFunction(_dist(case['dist'], cmin, cmax))
    gg.setGrainBoundaryMobility(case['mob'])
    gobs = _GrainObserver(200000)
    gg.addCouplingModel(gobs)
    it = SolverType.EXPLICITEULER if case['it'] == 'euler' else SolverType.RK4
    parts, attach = case['split'], case['attach']
    obs = None
    err = None
    segs = []
    try:
        for k in range(parts):
            if k == attach:
                host.addCouplingModel(sm)
                host.addCouplingModel(gg)
                obs = _HostObserver(host, sm, gg, gobs, HOST_HORIZON, bad)
                host.addCouplingModel(obs)
            host.solve(case['tf'] / parts, solverType=it)
            segs.append(int(host.pData.n))
    except StepLimit:
        err = 'step-limit'
    except Exception as e:
        import traceback
        tb = traceback.extract_tb(e.__traceback__)
        bad('exception', 'solve call raised %s: %s at %s:%s' % (type(e).__name__, e, tb[-1].filename.split('/')[-1], tb[-1].name))
        err = 'exception'
    nh = obs.steps if obs is not None else 0
    # every grain step inside the host steps is a state
    zs = set()
    for k, (t, psd, bnd, cen, avg) in enumerate(gobs.rows):
        m3 = float(np.sum(psd * cen ** 3))
        if not abs(m3 - 1.0) <= 1e-12:
            bad('grain-third-moment', 'grain step %d: third moment %.17g' % (k + 1, m3))
        if not np.all(np.isfinite(psd)) or np.any(psd < 0):
            bad('grain-psd-negative-or-nonfinite', 'grain step %d' % (k + 1))
    # drag inequalities on the final grain state with the drag the host produced
    if gobs.rows:
        t, psd, bnd, cen, avg = gobs.rows[-1]
        _check_grain_state(g_with(gg, psd, bnd, cen), psd, bnd, cen, float(getattr(gg, '_z')),
                           lambda s, m: bad('grain-' + s, m), 'final grain state')
        # docstring of computeZenerRadius on the host's last row: z = sum_p f_p^m / (K avgR_p) over phases with avgR_p > 0
        n = int(host.pData.n)
        zref = sum((float(host.pData.volFrac[n, p]) ** 1) / (4.0 / 3.0 * float(host.pData.Ravg[n, p]))
                   for p in range(len(host.phases)) if host.pData.Ravg[n, p] > 0)
        if not abs(float(getattr(gg, '_z')) - zref) <= 1e-12 * abs(zref):
            bad('zener-formula', 'drag %r, sum f/(K R) over the host phases = %r' % (float(getattr(gg, '_z')), zref))
    # strength histories: finite, non-negative (statement); solid-solution strength = sum k_i c_i^n (docstring of ssStrength)
    sub_core = False
    if sm.rss is not None and nh > 0:
        rss, ls, ss = np.array(sm.rss), np.array(sm.ls), np.array(sm.solidStrength)
        if not (np.all(np.isfinite(rss)) and np.all(rss >= 0) and np.all(np.isfinite(ls)) and np.all(ls >= 0)):
            bad('radius-spacing-negative-or-nonfinite', 'mean projected radius / spacing history contains negative or non-finite values')
        comp = np.array(host.pData.composition)
        n0 = obs.n_attach
        rows = [0] + list(range(n0 + 1, n0 + 1 + nh))       # the initial entry is taken from host row 0, then one per host step
        rows = [r for r in rows if r < len(comp)][:len(ss)]
        ref = np.zeros(len(rows))
        for i, el in enumerate(host.elements):
            if el in ssw:
                ref += ssw[el] * comp[rows, i] ** ssexp
        if len(ref) == len(ss) and not np.all(np.abs(ss - ref) <= 1e-12 * np.abs(ref)):
            k = int(np.argmax(np.abs(ss - ref)))
            bad('solid-solution-formula', 'entry %d: %r, sum k c^n = %r' % (k, float(ss[k]), float(ref[k])))
        if not (np.all(np.isfinite(ss)) and np.all(ss >= 0)):
            bad('solid-solution-negative-or-nonfinite', 'min %r' % float(np.min(ss)))
        ri = B_ * rim
        sub_core = bool(np.any((rss > 0) & (2 * rss < ri)))
        try:
            ps = np.array(sm.precStrength(host), dtype=float)
            tot = np.array(sm.totalStrength(ss, ps.copy()), dtype=float)
            # rows with a sub-core radius carry the negative Orowan term reported by stage formulas; flagged separately here
            row_sub = np.any((rss > 0) & (2 * rss < ri), axis=1)
            for name, arr in (('precipitate', ps), ('total', tot)):
                wrong = ~np.isfinite(arr) | (arr < 0)
                if np.any(wrong & ~row_sub):
                    k = int(np.nonzero(wrong & ~row_sub)[0][0])
                    bad('%s-strength-negative-or-nonfinite' % name, 'history entry %d: %r (rss %r, ls %r)' % (k, float(arr[k]), rss[k].tolist(), ls[k].tolist()))
            wrong = (~np.isfinite(ps) | (ps < 0) | ~np.isfinite(tot) | (tot < 0)) & row_sub
            if np.any(wrong):
                k = int(np.nonzero(wrong)[0][0])
                bad('strength-negative-or-nonfinite/sub-core', 'history entry %d (host t=%.6g s): precipitate strength %r, total strength %r with mean projected radii %r '
                    '(one below r_i/2 = %g m: negative Orowan term), spacings %r' % (k, float(host.pData.time[rows[k]]) if k < len(rows) else float('nan'),
                                                                                    float(ps[k]), float(tot[k]), rss[k].tolist(), ri / 2, ls[k].tolist()))
            okr = np.isfinite(ps) & (ps >= 0) & np.isfinite(tot)
            part = np.maximum(np.maximum(30e6, ss), np.where(okr, ps, 0))
            if np.any(okr & (tot < part * (1 - 1e-14))):
                bad('total-below-part', 'total strength below one of its parts in the history')
            if np.all(rss[0] == 0) and ps[0] != 0:
                bad('no-precipitates-nonzero', 'precipitate strength %r in the initial row (no precipitates)' % float(ps[0]))
        except Exception as e:
            bad('exception', 'precStrength/totalStrength raised %s: %s' % (type(e).__name__, e))
    populated = bool(sm.rss is not None and np.any(np.array(sm.rss) > 0))
    oc = '%s/%s/%s%s%s' % (case['system'], 'pop' if populated else 'empty', 'grainsteps=%s' % _bucket(len(gobs.rows)),
                           '/sub-core' if sub_core else '', '/' + err if err else '')
    return {'viol': viol, 'states': nh + len(gobs.rows), 'transitions': nh + len(gobs.rows), 'outcome': oc,
            'nontrivial': nh > 0 and len(gobs.rows) > 0 and populated,
            'info': {'host_steps': nh, 'grain_steps': len(gobs.rows), 'segments': segs,
                     'max_rel_clock_err': obs.max_clock_err if obs else None,
                     'grain_mean_size': [float(gg.avgR[0]), float(gg.avgR[-1])], 'drag': float(getattr(gg, '_z'))}}


# =======================================================================================================================

def run(ctx):
    quick = ctx.quick
    ctx.rule = ('formulas: theta x every subset of the 5 cutting contributions x phase addressing mode x line tension model x J model x '
                'core radius, each on the full radius x spacing lattice x Taylor factor x base x solid-solution level; multiphase: two '
                'phases, every pair of lattice points; grain: distribution x drag level x grid x iterator x horizon x solve calls, every '
                'accepted grain step a state; coupled: analytic precipitation host x phases x host iterator x split x attach point x '
                'strength set-up x grain set-up, every host step and every grain step a state. non-trivial = case that exercises a '
                'contribution / takes grain steps / has precipitates')
    ctx.assumptions = [
        'edge / screw references are written for J = 1 (kawin\'s default "simple" J); with the "complex" J only the terms that '
        'contain J explicitly (modulus-strong, Orowan) are compared',
        'where kawin\'s mixed-dislocation formula carries a rounded literal (coherency 5 digits, APB-strong 0.69) the reduction is '
        'compared to half a unit of the last digit of that literal',
        'the drag of stand-alone grain runs is set through the public computeZenerRadius(model) with a duck-typed one-phase model',
        'coupled runs use the analytic thermodynamic backends of mc/synth_thermo.py; horizon %d host steps' % HOST_HORIZON,
        'stored grain states are re-evaluated (grainGrowth / constrainedGrowth) on a scratch GrainGrowthModel carrying that grid',
    ]
    thetas = [0, 30, 60, 90]
    # ---- formulas
    fcases = []
    for theta in thetas:
        for mask in range(32):
            for mode in MODES:
                for tmodel in ['complex', 'simple']:
                    for jmodel in (['simple'] if quick else ['simple', 'complex']):
                        for ri in [1, 2]:
                            if mode == 'P1-only->P2' and mask not in (0, 1, 31):
                                continue      # nothing acts on P2: three representative subsets
                            # (psi, single-phase exponent, total exponent); the two exponents are independent settings, so
                            # unequal pairs are part of the alphabet (quick: on the all-contributions / none subsets only)
                            if quick:
                                levels = [(PSI_DEG, N_SINGLE, N_SINGLE)] + ([(PSI_DEG, 2.5, 1.0), (PSI_DEG, 1.0, 2.5)] if mask in (0, 31) else [])
                            else:
                                levels = [(PSI_DEG, N_SINGLE, N_SINGLE), (60.0, 1.0, 1.0), (150.0, 2.5, 2.5), (PSI_DEG, 2.5, 1.0), (PSI_DEG, 1.0, 2.5)]
                            for psi, nexp, ntot in levels:
                                c = {'theta': theta, 'mask': mask, 'mode': mode, 'tmodel': tmodel, 'jmodel': jmodel, 'ri': ri}
                                if (psi, nexp, ntot) != (PSI_DEG, N_SINGLE, N_SINGLE):
                                    c['psi'], c['exp'], c['exptot'] = psi, nexp, ntot
                                fcases.append(c)
    ctx.product_run('formulas', 'checks.c18:run_formulas', fcases)
    # ---- multiphase
    masks = [0, 1, 2, 4, 8, 16, 31] if quick else list(range(32))
    mcases = [{'theta': th, 'maskA': a, 'maskB': b} for th in ([90, 30] if quick else thetas) for a in masks
              for b in ([0, 3, 31] if quick else [0, 1, 3, 4, 24, 31])]
    ctx.product_run('multiphase', 'checks.c18:run_multi', mcases, chunksize=1)
    # ---- grain
    gcases = []
    for dist in ['lognormal', 'narrow', 'narrow-low', 'bimodal'] + ([] if quick else ['wide']):
        for zl in ZLEVELS:
            for grid in (['g100', 'g40'] if quick else ['g100', 'g40', 'g150']):
                for it in ['rk4', 'euler']:
                    for horizon, calls in ([(0.3, 1), (1.0, 2)] if quick else [(0.3, 1), (1.0, 2), (3.0, 3)]):
                        gcases.append({'dist': dist, 'z': zl, 'grid': grid, 'it': it, 'horizon': horizon, 'calls': calls})
                        if grid == 'g40' and calls == 1:
                            for alpha in (4.0, 0.25):
                                gcases.append({'dist': dist, 'z': zl, 'grid': grid, 'it': it, 'horizon': horizon, 'calls': calls, 'alpha': alpha})
                        if zl in ('zero', 'small') and calls == 1:
                            for reuse in ('reset', 'reload'):
                                gcases.append({'dist': dist, 'z': zl, 'grid': grid, 'it': it, 'horizon': horizon, 'calls': calls, 'reuse': reuse})
    res = ctx.product_run('grain', 'checks.c18:run_grain', gcases, chunksize=1)
    nlim = sum(1 for r in res if 'step-limit' in str(r.get('outcome')))
    if nlim:
        ctx.cap('grain: %d runs stopped at the 4000-step horizon' % nlim)
    # ---- coupled
    ccases = []
    for system in ['bin', 'tern']:
        for nph in [1, 2]:
            for it in ['euler', 'rk4']:
                for split in [1, 2, 3]:
                    for attach in ([0] if quick else [0, 1]):
                        if attach >= split:
                            continue
                        for strength in (['coh+mod', 'all5/P1-apb'] if quick else list(STRENGTH_SETUPS)):
                            for dist, grid, mob, git in ([('lognormal', 'g150', 1e-14, 'rk4'), ('bimodal', 'g40', 1e-13, 'euler')] if quick else
                                                         [('lognormal', 'g150', 1e-14, 'rk4'), ('bimodal', 'g40', 1e-13, 'euler'),
                                                          ('narrow', 'g150', 1e-15, 'rk4')]):
                                for temp in (['iso'] if quick else ['iso', 'heat']):
                                    ccases.append({'system': system, 'nphases': nph, 'it': it, 'split': split, 'attach': attach,
                                                   'strength': strength, 'dist': dist, 'grid': grid, 'mob': mob, 'git': git,
                                                   'temp': temp, 'tf': 6.0 if quick else 12.0})
    if quick:
        # the quick tier adds the dissolution corner of the thorough product (heating ramp, second phase dissolving: the mean
        # projected radius passes through the sub-core range) for both host iterators and two splits
        for it in ['euler', 'rk4']:
            for split in [1, 3]:
                ccases.append({'system': 'bin', 'nphases': 2, 'it': it, 'split': split, 'attach': 0, 'strength': 'coh+mod', 'dist': 'lognormal',
                               'grid': 'g150', 'mob': 1e-14, 'git': 'rk4', 'temp': 'heat', 'tf': 12.0})
    res = ctx.product_run('coupled', 'checks.c18:run_coupled', ccases, chunksize=1)
    nlim = sum(1 for r in res if 'step-limit' in str(r.get('outcome')))
    if nlim:
        ctx.cap('coupled: %d runs stopped at the %d-host-step horizon' % (nlim, HOST_HORIZON))
    ctx.bounds = {'theta_deg': thetas, 'radius_lattice_m': R_LAT, 'spacing_lattice_m': L_LAT, 'core_radius': ['b', '2b'], 'psi_deg/superposition_exponent': [[120, 1.8]] if quick else [[120, 1.8], [60, 1.0], [150, 2.5]],
                  'contribution_subsets': 32, 'phase_modes': MODES, 'taylor_factors': TAYLOR, 'base_strength': SIGMA0,
                  'solid_solution_levels': SS_LAT, 'grain_distributions': sorted(set(c['dist'] for c in gcases)),
                  'drag_levels': ZLEVELS, 'grain_grids': {k: list(v) for k, v in GRIDS.items()},
                  'grain_horizons_in_units_of_Rcr^2/(alpha M gbe)': sorted(set(c['horizon'] for c in gcases)),
                  'coupled_cases': len(ccases), 'coupled_horizon_host_steps': HOST_HORIZON,
                  'coupled_split': [1, 2, 3], 'strength_setups': list(STRENGTH_SETUPS)}
