"""C04 - diffusion models conserve every component and honour boundary conditions.

Bounded exhaustive exploration of the real SinglePhaseModel / HomogenizationModel:
full product  model x element set x mesh size x initial profile kind x boundary-condition mix per element and side x
iterator x number of consecutive solve calls x temperature spec (x homogenization rule), every run driven through
the public `solve`, every accepted step observed (E3) and checked.

Instruments (all public seams, nothing in /repo is touched):
  * an observer registered with `addCouplingModel` (called once per accepted step after postProcess) snapshots (t, x);
  * the iterator handed to `solve` is kawin's own ExplicitEulerIterator / RK4Iterator behind a thin wrapper that records,
    per accepted step, the state the solver starts from, the step it took, the un-clipped new state and - for the
    Euler / composition-boundary oracle - the model's public `getFluxes()` at the step start
    (stage `instrument` shows bit-for-bit that the wrapper does not perturb a run made with the SolverType enums);
  * the thermodynamic environment is owned by the harness (E4, mc/diff_env.py) for the large products and is a real
    pycalphad backend (Ni-Cr(-Al) single phase, Fe-Cr-Ni / Ni-Cr homogenization) for the conformance product.

Oracles, per accepted step and per independent component (tolerances next to the code):
  sum     sum_i x_new,i - sum_i x_old,i == (J_left - J_right) dt / dz   (prescribed fluxes; for a composition boundary
          the copied face flux of getFluxes() at the step start, Euler only - for RK4 the copied flux differs per stage,
          so nothing is asserted about the sum of such a component, only about its fixed node)
  clip    recorded state == clip(un-clipped state, min, 1-min) bit for bit; clip events are counted
  bounds  min <= x <= 1-min
  time    t_new == t_old + dt > t_old, the next step starts at t_new
  bc-node a node with a composition boundary holds bit-for-bit the same value in every state of the run, within
          nElements*min of the requested value (the documented one-time shift of setup)
  across-solve   the state a solve call starts from has the mesh sums / boundary nodes the previous call ended with
  record  the recorded history has strictly increasing time stamps and contains every observed state in order
"""
import math
import os

PROPERTY = 'C04'
LEVEL = 'model_checking'

np = None
L_MESH = 1.0e-3
MAX_STEPS = 60                # bound B: accepted steps per solve call (enforced through minDtFrac, guarded by Horizon)
MIN_DT_FRAC = 1.0 / 50
J_REL = 0.0013                # a boundary flux +-J changes the boundary node by 0.0013 per initial-size step
                              # (not 0.002 = maxCompositionChange: on N = 2 that J equals the interior flux exactly)
CVALS = {(0, 'L'): 0.30, (0, 'R'): 0.22, (1, 'L'): 0.18, (1, 'R'): 0.12}
BC_LABELS = ['f0', '+J', '-J', 'c']
RULES = ['wiener upper', 'wiener lower', 'hashin upper', 'hashin lower', 'lab']
ELEMENTS = {'bin': ['NI', 'CR'], 'tern': ['NI', 'CR', 'AL'], 'tern-int': ['FE', 'CR', 'C']}
PROFILES = ['step', 'linear', 'bounded', 'single', 'function', 'data', 'stacked']
EDGE_PROFILES = ['bare-single', 'bare-bounded', 'full-step']
_REAL = {}


class Horizon(Exception):
    pass


class ProbeFailed(Exception):
    pass


def prepare():
    global np, SinglePhaseModel, HomogenizationModel, BoundaryConditions, TemperatureParameters, CompositionProfile
    global HomogenizationParameters, SolverType, ExplicitEulerIterator, RK4Iterator, diff_env
    import numpy as np
    from kawin.diffusion import SinglePhaseModel, HomogenizationModel
    from kawin.diffusion.DiffusionParameters import BoundaryConditions, TemperatureParameters, CompositionProfile
    from kawin.diffusion.HomogenizationParameters import HomogenizationParameters
    from kawin.solver.Solver import SolverType
    from kawin.solver.Iterators import ExplicitEulerIterator, RK4Iterator
    from mc import diff_env
    # real backends for the conformance product, built once in the parent (about 3 s) and inherited by the workers
    from kawin.thermo import GeneralThermodynamics
    from kawin.tests.datasets import NICRAL_TDB, FECRNI_DB
    _REAL['nicral'] = GeneralThermodynamics(NICRAL_TDB, ['NI', 'CR', 'AL'], ['FCC_A1', 'BCC_A2'])
    _REAL['nicr'] = GeneralThermodynamics(NICRAL_TDB, ['NI', 'CR'], ['FCC_A1', 'BCC_A2'])
    _REAL['fecrni'] = GeneralThermodynamics(FECRNI_DB, ['FE', 'CR', 'NI'], ['FCC_A1', 'BCC_A2'])


# ------------------------------------------------------------------------------------------------------
# building a model from a case

REAL_SETUPS = {
    # name: (model, backend, elements, phases, T, zlim, linear profile per independent element)
    'single-nicral': ('single', 'nicral', ['NI', 'CR', 'AL'], ['FCC_A1'], 1473.15, 1e-3, [(0.077, 0.359), (0.054, 0.062)]),
    'single-nicr': ('single', 'nicr', ['NI', 'CR'], ['FCC_A1'], 1473.15, 1e-3, [(0.077, 0.359)]),
    'homog-fecrni': ('homog', 'fecrni', ['FE', 'CR', 'NI'], ['FCC_A1', 'BCC_A2'], 1373.15, 5e-4, [(0.257, 0.423), (0.065, 0.276)]),
    'homog-nicr': ('homog', 'nicr', ['NI', 'CR'], ['FCC_A1', 'BCC_A2'], 1473.15, 5e-4, [(0.15, 0.65)]),
}
REAL_CVALS = {'single-nicral': {(0, 'L'): 0.10, (0, 'R'): 0.30, (1, 'L'): 0.05, (1, 'R'): 0.07},
              'single-nicr': {(0, 'L'): 0.10, (0, 'R'): 0.30},
              'homog-fecrni': {(0, 'L'): 0.27, (0, 'R'): 0.40, (1, 'L'): 0.08, (1, 'R'): 0.25},
              'homog-nicr': {(0, 'L'): 0.20, (0, 'R'): 0.60}}


def _profile_steps(kind, variant):
    """Composition build steps (method name, kwargs) of one element; variant 0 spans 0.12..0.45, variant 1 0.10..0.35
    in the opposite direction, so a ternary profile sums to at most 0.8 and every node starts at >= 0.10."""
    a, b = (0.12, 0.40) if variant == 0 else (0.30, 0.10)
    hi, mid, L = max(a, b) + 0.05, 0.5 * (a + b), L_MESH
    if kind == 'step':
        return [('addStepCompositionStep', dict(leftValue=a, rightValue=b, zValue=0.05 * L))]
    if kind == 'linear':
        return [('addLinearCompositionStep', dict(leftValue=a, rightValue=b))]
    if kind == 'bounded':
        return [('addLinearCompositionStep', dict(leftValue=mid, rightValue=mid)),
                ('addBoundedCompositionStep', dict(value=hi, leftZ=-0.1 * L, rightZ=0.6 * L))]
    if kind == 'single':
        return [('addLinearCompositionStep', dict(leftValue=a, rightValue=mid)),
                ('addSingleCompositionStep', dict(value=hi, zValue=0.2 * L))]
    if kind == 'function':
        return [('addFunctionCompositionStep',
                 dict(function=lambda z: mid + 0.5 * (b - a) * np.sin(2.2 * np.asarray(z) / L + 0.3)))]
    if kind == 'data':
        return [('addProfileCompositionStep', dict(xList=[a, b, mid, b], zList=[-0.5 * L, -0.1 * L, 0.2 * L, 0.5 * L]))]
    if kind == 'stacked':
        return [('addStepCompositionStep', dict(leftValue=a, rightValue=b, zValue=0.05 * L)),
                ('addBoundedCompositionStep', dict(value=mid, leftZ=0.15 * L, rightZ=0.45 * L)),
                ('addSingleCompositionStep', dict(value=hi, zValue=-0.4 * L))]
    # profiles that touch the bounds (edge stage): untouched nodes are 0 -> clamped to min by setup
    if kind == 'bare-single':
        return [('addSingleCompositionStep', dict(value=0.6 if variant == 0 else 0.3, zValue=0.2 * L))]
    if kind == 'bare-bounded':
        return [('addBoundedCompositionStep', dict(value=0.6 if variant == 0 else 0.3, leftZ=-0.1 * L, rightZ=0.6 * L))]
    if kind == 'full-step':
        return ([('addStepCompositionStep', dict(leftValue=1.0, rightValue=0.0, zValue=0.05 * L))] if variant == 0 else
                [('addLinearCompositionStep', dict(leftValue=0.0, rightValue=0.0))])
    raise KeyError(kind)


def _temperature(model, spec, tau, T0=1200.0):
    """tau = the configuration's initial step size: schedules are expressed in units of it so that every mesh size
    sees the same temperature excursion (about +-50 K over a run) whatever its time scale."""
    z0 = model.z[0]
    if spec == 'iso':
        model.setTemperature(T0)
    elif spec == 'array':          # times in hours
        h = tau / 3600.0
        model.setTemperatureArray([0.0, 2.0 * h, 7.0 * h, 30.0 * h], [T0 - 50.0, T0 + 50.0, T0, T0 + 30.0])
    elif spec == 'field':
        model.setTemperatureFunction(lambda z, t: T0 - 20.0 + 40.0 * (np.asarray(z) - z0) / L_MESH + 3.0 * t / tau)
    else:
        raise KeyError(spec)


def _build(case, J, tau):
    """A fresh model for the case; J is the magnitude of the +-J boundary fluxes, tau the time unit of the
    temperature schedule."""
    env = case.get('env', 'analytic')
    if env == 'analytic':
        els = ELEMENTS[case['els']]
        zlim = [-0.5 * L_MESH, 0.5 * L_MESH]
        if case['model'] == 'single':
            therm = diff_env.AnalyticDiffusivity(len(els))
            m = SinglePhaseModel(zlim, case['N'], els, ['ALPHA'], thermodynamics=therm)
        else:
            therm = diff_env.AnalyticMobilityTherm(els)
            m = HomogenizationModel(zlim, case['N'], els, ['ALPHA', 'BETA'], thermodynamics=therm,
                                    homogenizationParameters=HomogenizationParameters(case.get('rule', 'wiener upper'),
                                                                                      labyrinthFactor=2))
        for i, e in enumerate(m.elements):
            for meth, kw in _profile_steps(case['profile'], i):
                getattr(m.compositionProfile, meth)(e, **kw)
        _temperature(m, case['temp'], tau)
        cvals = dict(CVALS)
        if case.get('cv') == 'zero':       # a boundary value at the very end of the composition range (a sink / a pure reservoir)
            cvals[(0, 'L')] = 0.0
        elif case.get('cv') == 'one':
            cvals[(0, 'L')] = 1.0
    else:
        kind, backend, els, phases, T, half, lin = REAL_SETUPS[env]
        cls = SinglePhaseModel if kind == 'single' else HomogenizationModel
        kw = {}
        if kind == 'homog':
            kw['homogenizationParameters'] = HomogenizationParameters(case.get('rule', 'wiener upper'), eps=0.01)
        m = cls([-half, half], case['N'], els, phases, thermodynamics=_REAL[backend], **kw)
        for e, (a, b) in zip(m.elements, lin):
            m.compositionProfile.addLinearCompositionStep(e, a, b)
        if case['temp'] == 'iso':
            m.setTemperature(T)
        else:
            z0 = m.z[0]
            m.setTemperatureFunction(lambda z, t: T - 5.0 + 10.0 * (np.asarray(z) - z0) / (2 * half))
        cvals = REAL_CVALS[env]
    # boundary conditions; 'f0' on a side is left to the defaults (setupDefaults), everything else is set per side
    api = case.get('bcapi', 'side')
    for i, (e, (lab_l, lab_r)) in enumerate(zip(m.elements, case['bc'])):
        vals = []
        for side, lab in (('L', lab_l), ('R', lab_r)):
            if lab == 'c':
                vals.append((BoundaryConditions.COMPOSITION_BC, cvals[(i, side)], 'composition'))
            else:
                vals.append((BoundaryConditions.FLUX_BC, {'f0': 0.0, '+J': J, '-J': -J}[lab], 'flux'))
        if api == 'side':
            for side, lab, v in (('L', lab_l, vals[0]), ('R', lab_r, vals[1])):
                if lab != 'f0':
                    m.boundaryConditions.setBoundaryCondition(BoundaryConditions.LEFT if side == 'L' else BoundaryConditions.RIGHT,
                                                              v[0], v[1], e)
        elif api == 'side-str':
            m.boundaryConditions.setBoundaryCondition('left', vals[0][2], vals[0][1], e)
            m.boundaryConditions.setBoundaryCondition('right', vals[1][2], vals[1][1], e)
        elif api == 'setBC':
            m.setBC(vals[0][0], vals[0][1], vals[1][0], vals[1][1], element=e)
        elif api == 'setBC-default-element':       # binary only: the element argument is left at its default
            m.setBC(vals[0][0], vals[0][1], vals[1][0], vals[1][1])
        else:
            raise KeyError(api)
    return m, cvals


def _probe_dt0(case):
    """Initial stable step of the configuration, from a throw-away model (setup + public getFluxes)."""
    p, _ = _build(case, 0.0, 1.0)        # at t = 0 the schedules do not depend on their time unit
    try:
        p.setup()
        _, dt0 = p.getFluxes()
    except Exception as e:               # every configuration of the products is in-domain and must set up
        raise ProbeFailed('%s: %s' % (type(e).__name__, e))
    return float(dt0), float(p.dz)


# ------------------------------------------------------------------------------------------------------
# trajectory monitor (E3)

class Monitor:
    def __init__(self, model, it, want_flux):
        self.model, self.want_flux = model, want_flux
        self.base = ExplicitEulerIterator if it == 'euler' else RK4Iterator
        self.steps, self.snaps = [], []
        self.call = 0
        self.in_call = 0

    def iterator(self, f, t, X_old, updateX):
        shape = self.model.x.shape
        pre = np.array(X_old, dtype=float, copy=True).reshape(shape)
        J = None
        if self.want_flux:
            try:
                J = np.array(self.model.getFluxes()[0], copy=True)
            except ValueError:      # HomogenizationModel.getFluxes on a state without any flux difference
                J = None
        out, dt = self.base(f, t, X_old, updateX)
        self.steps.append({'t': t, 'pre': pre, 'out': np.array(out, dtype=float, copy=True).reshape(shape),
                           'dt': dt, 'J': J, 'call': self.call,
                           'mt': self.model.t, 'mx': np.array(self.model.x, copy=True)})
        return out, dt

    def updateCoupledModel(self, model):
        self.snaps.append((model.t, np.array(model.x, copy=True), self.call))
        self.in_call += 1
        if self.in_call > MAX_STEPS:
            raise Horizon()


def _fsum(a):
    return math.fsum(float(v) for v in a)


def _describe(case):
    keys = ['env', 'model', 'els', 'N', 'profile', 'bc', 'it', 'calls', 'temp', 'rule', 'bcapi', 'nsteps', 'cv', 'record', 'between']
    return ' '.join('%s=%s' % (k, case[k]) for k in keys if k in case)


def run_cfg(case):
    """One run = one execution; every accepted step is a state."""
    analytic = case.get('env', 'analytic') == 'analytic'
    if analytic and case['model'] == 'homog':
        with diff_env.patched_single_mobility():
            return _run_cfg(case)
    return _run_cfg(case)


def _run_cfg(case):
    viol, seen = [], set()
    # one signature per violated oracle and model type (+ a marker for real-backend runs and for the one API variant that
    # is a call site of its own); the configuration that shows it is in the message and in the replay file
    mname = case['model'] + ('' if case.get('env', 'analytic') == 'analytic' else '/real-backend')
    tag = _describe(case)

    def bad(kind, msg):
        sig = '%s/%s' % (kind, mname)
        if case.get('bcapi', 'side') == 'setBC-default-element':
            sig += '/setBC-default-element'
        if sig not in seen:                      # first occurrence per run is the counterexample
            seen.add(sig)
            viol.append({'sig': sig, 'msg': '%s: %s' % (tag, msg)})

    try:
        dt0, dz = _probe_dt0(case)
        if not (dt0 > 0 and math.isfinite(dt0)):
            raise ProbeFailed('initial step size %r' % dt0)
    except ProbeFailed as e:
        bad('exception', 'setup() + getFluxes() of the initial state failed: %s' % e)
        return {'viol': viol, 'states': 0, 'transitions': 0, 'outcome': 'exception', 'nontrivial': False}
    J = J_REL * case.get('jmult', 1.0) * dz / dt0
    m, cvals = _build(case, J, dt0)
    N, nel = m.N, len(m.allElements)
    xmin = m.constraints.minComposition
    bcs = case['bc']
    any_comp = any('c' in b for b in bcs)
    if case.get('record') is False:
        m.disableRecording()
    mon = Monitor(m, case['it'], want_flux=(case['it'] == 'euler' and any_comp))
    m.addCouplingModel(mon)
    sim = case['nsteps'] * dt0
    outcome = None
    xmins = []          # minimum composition in force during each solve call (case['between'] changes it between the calls)
    for k in range(case['calls']):
        mon.call, mon.in_call = k, 0
        if k > 0 and case.get('between'):
            m.constraints.minComposition = case['between']['minComposition'][(k - 1) % len(case['between']['minComposition'])]
        xmins.append(m.constraints.minComposition)
        try:
            m.solve(sim, solverType=mon.iterator, minDtFrac=MIN_DT_FRAC)
        except Horizon:
            bad('horizon', 'more than %d accepted steps in solve call %d' % (MAX_STEPS, k))
            outcome = 'horizon'
            break
        except Exception as e:      # an in-domain configuration must run
            bad('exception', 'solve call %d raised %s: %s' % (k, type(e).__name__, e))
            outcome = 'exception'
            break
    steps, snaps = mon.steps, mon.snaps
    if len(steps) != len(snaps) and outcome is None:
        bad('observer', '%d iterator calls but %d observer calls' % (len(steps), len(snaps)))
    n = min(len(steps), len(snaps))
    prescribed = {'f0': 0.0, '+J': J, '-J': -J}
    nclip, clip_amount, nskip = 0, 0.0, 0
    fixed0 = {}                                   # (element, side) -> value in the first state
    unapplied = set()
    for k in range(n):
        s, (pt, px, pc) = steps[k], snaps[k]
        pre, out, dt = s['pre'], s['out'], s['dt']
        where = 'call %d step %d t=%.6g' % (s['call'], k, s['t'])
        xmin = xmins[s['call']]
        # the solver starts from the model's own current state / time
        if s['mt'] != s['t'] or s['mx'].tobytes() != pre.tobytes():
            bad('step/start-state', '%s: solver starts from t=%r but model holds t=%r (state equal: %s)'
                % (where, s['t'], s['mt'], s['mx'].tobytes() == pre.tobytes()))
        # time: t_new = t + dt exactly (DESolver does currTime += dt), strictly larger
        if not (dt > 0) or pt != s['t'] + dt or not (pt > s['t']):
            bad('step/time', '%s: dt=%r, recorded %r, expected %r' % (where, dt, pt, s['t'] + dt))
        # clip: the recorded state is the clipped un-clipped state, bit for bit
        clipped = np.clip(out, xmin, 1 - xmin)
        if clipped.tobytes() != px.tobytes():
            bad('step/clip', '%s: state after the step differs from clip(new state) by %.3g'
                % (where, float(np.max(np.abs(clipped - px)))))
        ev = out != clipped
        if ev.any():
            nclip += 1
            clip_amount = max(clip_amount, float(np.max(np.abs(clipped - out))))
        # bounds
        if not (np.all(px >= xmin) and np.all(px <= 1 - xmin)) or not np.all(np.isfinite(px)):
            bad('step/bounds', '%s: min %r max %r' % (where, float(np.min(px)), float(np.max(px))))
        # the state the run starts from (after setup) obeys the bounds as well
        if k == 0 and (not (np.all(pre >= xmin) and np.all(pre <= 1 - xmin)) or not np.all(np.isfinite(pre))):
            bad('initial/bounds', '%s: min %r max %r' % (where, float(np.min(pre)), float(np.max(pre))))
        # per component
        for e in range(nel - 1):
            lab_l, lab_r = bcs[e]
            if k == 0:
                # a composition boundary node starts at the requested value minus the one-time shift of setup
                # (every composition above min is lowered by nElements*min, documented in setup)
                for side, lab, idx in (('L', lab_l, 0), ('R', lab_r, -1)):
                    if lab == 'c' and not abs(pre[e, idx] - cvals[(e, side)]) <= nel * xmin * (1 + 1e-6):
                        bad('bc/requested-value', '%s: element %d side %s node starts at %.12g, requested composition %.12g'
                            % (where, e, side, pre[e, idx], cvals[(e, side)]))
                        unapplied.add(e)
            if e in unapplied:
                continue          # the boundary condition of this component never took effect; reported once above
            # tolerance: each of the N updates x_i + dx_i rounds by <= eps/2 |x_i| and dx_i itself carries a few eps
            # relative error (difference, division, products, RK4 stage sum): 8 N eps max|x| bounds the lot; the
            # flux term adds a few eps of its own magnitude.  Sums are exact (math.fsum).
            xmax = float(max(np.max(np.abs(pre[e])), np.max(np.abs(out[e]))))
            d_obs = _fsum(out[e]) - _fsum(pre[e])
            jl = prescribed.get(lab_l)
            jr = prescribed.get(lab_r)
            if (jl is None or jr is None) and s['J'] is not None:
                jl = float(s['J'][e, 1]) if jl is None else jl       # copied neighbour face at the step start
                jr = float(s['J'][e, -2]) if jr is None else jr
            if jl is not None and jr is not None:
                d_exp = (jl - jr) * dt / dz
                tol = 8 * N * np.finfo(float).eps * xmax + 8 * np.finfo(float).eps * (abs(jl) + abs(jr)) * dt / dz
                if not abs(d_obs - d_exp) <= tol:
                    kindname = 'closed' if (lab_l, lab_r) == ('f0', 'f0') else ('flux' if 'c' not in (lab_l, lab_r) else 'copied')
                    bad('step/sum-%s' % kindname,
                        '%s: element %d (bc %s|%s) mesh sum changed by %.6e, boundary fluxes give %.6e (diff %.3e, tol %.1e)'
                        % (where, e, lab_l, lab_r, d_obs, d_exp, d_obs - d_exp, tol))
                elif not ev[e].any():             # without a clip event the same holds for the recorded state
                    d_rec = _fsum(px[e]) - _fsum(pre[e])
                    if not abs(d_rec - d_exp) <= tol:
                        bad('step/sum-recorded', '%s: element %d recorded mesh sum changed by %.6e, expected %.6e'
                            % (where, e, d_rec, d_exp))
            else:
                nskip += 1                        # RK4 with a composition boundary: only the fixed node is asserted
            # fixed-composition nodes: identical in every state of the run
            for side, lab, idx in (('L', lab_l, 0), ('R', lab_r, -1)):
                if lab != 'c':
                    continue
                if (e, side) not in fixed0:
                    fixed0[(e, side)] = pre[e, idx]
                v0 = fixed0[(e, side)]
                if pre[e, idx] != v0:
                    kindname = 'across-solve/bc-node' if (k > 0 and steps[k - 1]['call'] != s['call']) else 'step/bc-node'
                    bad(kindname, '%s: element %d side %s node starts the step at %.17g, was %.17g in the first state (drift %.3e)'
                        % (where, e, side, pre[e, idx], v0, pre[e, idx] - v0))
                    fixed0[(e, side)] = pre[e, idx]      # report each drift mechanism once, keep checking the steps
                    v0 = pre[e, idx]
                if px[e, idx] != v0:
                    bad('step/bc-node', '%s: element %d side %s node moved from %.17g to %.17g during the step'
                        % (where, e, side, v0, px[e, idx]))
                    fixed0[(e, side)] = px[e, idx]
        # continuity with the previous state
        if k > 0:
            qt, qx, qc = snaps[k - 1]
            if s['call'] == steps[k - 1]['call']:
                if s['t'] != qt or pre.tobytes() != qx.tobytes():
                    bad('step/continuity', '%s: step starts from a state other than the previous recorded one' % where)
            else:
                # a new solve call continues from where the previous one ended: same time, same mesh sums
                if s['t'] != qt:
                    bad('across-solve/time', '%s: call starts at t=%r, previous call ended at %r' % (where, s['t'], qt))
                for e in range(nel - 1):
                    d = _fsum(pre[e]) - _fsum(qx[e])
                    tol = 8 * N * np.finfo(float).eps * float(np.max(np.abs(qx[e])))   # nothing happens between calls
                    # (a changed minimum composition acts through the clip of the next accepted step, not between the calls)
                    if not abs(d) <= tol:
                        bad('across-solve/sum', '%s: element %d mesh sum changed by %.6e between the end of solve call %d and '
                            'the start of call %d (N*nElements*min = %.3e)' % (where, e, d, qc, s['call'], N * nel * xmin))
    if os.environ.get('VERIF_REPLAY_VERBOSE'):
        print('trace of %s' % tag)
        print('  prescribed J = %.6e, dz = %.6e, dt0 = %.6e' % (J, dz, dt0))
        for k in range(n):
            s = steps[k]
            print('  call %d step %3d t=%.9g dt=%.6g  mesh sums before %s  un-clipped after %s  recorded %s' % (
                s['call'], k, s['t'], s['dt'], ['%.15g' % _fsum(r) for r in s['pre']],
                ['%.15g' % _fsum(r) for r in s['out']], ['%.15g' % _fsum(r) for r in snaps[k][1]]))
    # recorded history (runs with recording switched off keep no history; every other oracle applies to them unchanged)
    rt, rx = m._recordedTime, m._recordedX
    if case.get('record') is False:
        pass
    elif rt is None or len(rt) != len(rx):
        bad('record/shape', 'recorded arrays missing or of different length')
    else:
        for i in range(1, len(rt)):
            if not (rt[i] > rt[i - 1]):
                bad('record/time-not-increasing', 'recorded time stamps %r -> %r at index %d (of %d records for %d accepted '
                    'steps in %d solve calls)' % (float(rt[i - 1]), float(rt[i]), i, len(rt), n, case['calls']))
                break
        # every observed state appears in the record, in order (initial state first)
        want = ([(steps[0]['t'], steps[0]['pre'])] if steps else []) + [(t, x) for t, x, _ in snaps[:n]]
        j = 0
        for (t, x) in want:
            while j < len(rt) and not (rt[j] == t and rx[j].tobytes() == x.tobytes()):
                j += 1
            if j == len(rt):
                bad('record/missing-state', 'observed state at t=%r is not in the recorded history (in order)' % t)
                break
            j += 1
    if outcome is None:
        outcome = 'steps=%s%s%s' % (_bucket(n), ',clip' if nclip else '', ',rk4-comp' if nskip else '')
    return {'viol': viol, 'states': n + (1 if n else 0), 'transitions': n, 'outcome': outcome,
            'nontrivial': n >= case['calls'] and n > 0,
            'info': {'steps': n, 'clip_steps': nclip, 'max_clip': clip_amount, 'sum_not_asserted': nskip,
                     'env_calls': getattr(m.therm, 'calls', None)}}


def run_isolation(case):
    """Two models in one process: model A is built and given non-default boundary conditions, then model B of the product is
    built with everything left at its defaults and run under the full oracle of run_cfg.  B must behave as the closed system it
    was declared to be, whatever was configured on another model object before (seed s04e: a default argument evaluated once
    made every model built without boundaryConditions= share one BoundaryConditions object)."""
    a, b = case['first'], case['then']

    def go():
        try:
            dt0, dz = _probe_dt0(a)
            ma, _ = _build(a, J_REL * dz / dt0, dt0)
            ma.setup()
        except Exception as e:
            return {'viol': [{'sig': 'isolation/exception-building-first-model', 'msg': '%s: %s: %s' % (_describe(a), type(e).__name__, e)}],
                    'states': 0, 'transitions': 0, 'outcome': 'exception', 'nontrivial': False}
        r = _run_cfg(b)
        for v in r.get('viol', ()):
            v['sig'] = 'isolation/after=%s/%s' % (a['model'], v['sig'])
            v['msg'] = 'after building [%s]: %s' % (_describe(a), v['msg'])
        r['outcome'] = 'after=%s/%s' % (a['model'], r.get('outcome'))
        return r
    if 'homog' in (a['model'], b['model']):
        with diff_env.patched_single_mobility():
            return go()
    return go()


def _bucket(n):
    return str(n) if n <= 3 else ('4-9' if n < 10 else ('10-29' if n < 30 else '30+'))


# ------------------------------------------------------------------------------------------------------
# stage `instrument`: the wrapper iterator and the flux probe do not perturb a run made with the SolverType enums

def run_instrument(case):
    analytic_homog = case['model'] == 'homog'
    if analytic_homog:
        with diff_env.patched_single_mobility():
            return _run_instrument(case)
    return _run_instrument(case)


def _run_instrument(case):
    viol = []
    try:
        dt0, dz = _probe_dt0(case)
    except ProbeFailed:
        return {'viol': [], 'states': 0, 'transitions': 0, 'outcome': 'probe-failed', 'nontrivial': False}   # reported by run_cfg
    J = J_REL * dz / dt0
    out = []
    for instrumented in (False, True):
        m, _ = _build(case, J, dt0)
        mon = Monitor(m, case['it'], want_flux=True)
        if instrumented:
            m.addCouplingModel(mon)
        st = mon.iterator if instrumented else (SolverType.EXPLICITEULER if case['it'] == 'euler' else SolverType.RK4)
        for k in range(case['calls']):
            m.solve(case['nsteps'] * dt0, solverType=st, minDtFrac=MIN_DT_FRAC)
        out.append((m.t, m.x.tobytes(), np.asarray(m._recordedTime).tobytes(), np.asarray(m._recordedX).tobytes(),
                    len(m._recordedTime)))
    if out[0] != out[1]:
        viol.append({'sig': 'instrument/perturbs/%s' % case['model'],
                     'msg': '%s: run with SolverType enum and run with the instrumented iterator differ (t %r vs %r, records %d vs %d)'
                     % (_describe(case), out[0][0], out[1][0], out[0][4], out[1][4])})
    return {'viol': viol, 'states': out[0][4], 'transitions': out[0][4], 'outcome': 'records=%s' % _bucket(out[0][4])}


# ------------------------------------------------------------------------------------------------------

def _valid(c):
    # a homogenization run in which every node of every component is held fixed has no flux difference to size a
    # time step from and raises in getDt (well-formedness, C03) - not part of this product
    return not (c['model'] == 'homog' and c['N'] == 2 and all(b == ['c', 'c'] for b in c['bc']))


BC_PAIRS = [(a, b) for a in BC_LABELS for b in BC_LABELS]
BC_SETS = {
    # name: (mixes of the first independent element, mixes of the second one for a ternary)
    'full': (BC_PAIRS, [('f0', 'f0'), ('+J', 'c'), ('c', '-J'), ('c', 'c')]),
    'reduced': ([('f0', 'f0'), ('+J', '-J'), ('-J', 'c'), ('c', '+J'), ('c', 'c'), ('+J', '+J'), ('f0', 'c'), ('-J', 'f0')],
                [('f0', 'f0'), ('c', '-J')]),
    'small': ([('f0', 'f0'), ('+J', '-J'), ('c', '+J'), ('-J', 'c')], [('c', '-J')]),
}


def _bc_mixes(nel, level):
    first, second = BC_SETS[level]
    if nel == 2:
        return [[list(p)] for p in (BC_PAIRS if level != 'small' else first)]
    return [[list(p), list(q)] for p in first for q in second]


def _product(models, elsets, bclevel, Ns, profiles, its, calls, temps, rules, nsteps):
    """Full Cartesian product of the given levels (minus the degenerate all-fixed homogenization runs)."""
    out = []
    for model in models:
        for els in elsets:
            for bc in _bc_mixes(len(ELEMENTS[els]), bclevel):
                for N in Ns:
                    for prof in profiles:
                        for it in its:
                            for nc in calls:
                                for temp in temps:
                                    for rule in (rules if model == 'homog' else [None]):
                                        c = {'model': model, 'els': els, 'N': N, 'profile': prof, 'bc': bc, 'it': it,
                                             'calls': nc, 'temp': temp, 'nsteps': nsteps}
                                        if rule is not None:
                                            c['rule'] = rule
                                        if _valid(c):
                                            out.append(c)
    return out


def run(ctx):
    quick = ctx.quick
    its = ['euler', 'rk4']
    nsteps = 4.5 if quick else 6.5
    if quick:
        main = dict(elsets=['bin', 'tern'], bclevel='reduced', Ns=[2, 5], profiles=['step', 'linear', 'stacked'], its=its,
                    calls=[1, 3], temps=['iso', 'field'], nsteps=nsteps)
        rules_main = ['hashin lower']
        rulep = dict(elsets=['bin', 'tern'], bclevel='small', Ns=[3], profiles=['linear', 'stacked'], its=its, calls=[2],
                     temps=['array'], rules=RULES, nsteps=nsteps)
    else:
        main = dict(elsets=['bin', 'tern'], bclevel='full', Ns=[2, 3, 5, 12], profiles=PROFILES, its=its, calls=[1, 2, 3],
                    temps=['iso', 'array', 'field'], nsteps=nsteps)
        rules_main = ['hashin lower']
        rulep = dict(elsets=['bin', 'tern', 'tern-int'], bclevel='reduced', Ns=[2, 3, 5, 12],
                     profiles=['step', 'linear', 'function', 'stacked'], its=its, calls=[1, 3], temps=['iso', 'field'],
                     rules=RULES, nsteps=nsteps)
    ctx.rule = ('full products model x element set x mesh size x initial profile x boundary-condition mix per element and '
                'side x iterator x number of solve calls x temperature spec (x homogenization rule), each run executed through '
                'the public solve on the real diffusion models with every accepted step checked; non-trivial = run with at '
                'least one accepted step per solve call')
    ctx.bounds = {'conserve-single / conserve-homog (rule %s)' % rules_main[0]: {k: v for k, v in main.items()},
                  'conserve-rules (homogenization, all rules)': {k: v for k, v in rulep.items()},
                  'bc_labels': BC_LABELS, 'bc_sets': {k: [list(map(list, v[0])), list(map(list, v[1]))] for k, v in BC_SETS.items()},
                  'binary_bc': 'all 16 side x side mixes (4 in set small)',
                  'ternary_bc': 'first element mixes x second element mixes of the named set',
                  'max_steps_per_call': MAX_STEPS, 'min_dt_frac': MIN_DT_FRAC}
    ctx.assumptions = [
        'analytic thermodynamics (mc/diff_env.py) stands in for pycalphad in the large products; stage real repeats '
        'every oracle on real Ni-Cr(-Al) / Fe-Cr-Ni backends',
        'for RK4 the mesh-sum identity of a component with a composition boundary is not asserted (copied flux differs per '
        'stage); its fixed node, bounds and time stamps are',
        'initial profiles of the conservation products lie in [0.10, 0.45]; boundary fluxes move a node by 0.0013 per step',
        'edge product, homogenization model: RK4 is not combined with a prescribed outflow from a node that sits at the '
        'minimum composition - the un-clipped RK4 stage composition becomes negative, which no thermodynamic backend '
        '(analytic or real) can evaluate; Euler covers those mixes (the negative new state is clipped)',
        'HomogenizationModel raises when no node can move (flat closed profile, or N = 2 with both nodes of every component '
        'fixed): no flux difference to size the step from; such runs are outside these products (well-formedness is C03)',
    ]

    # --- stage 0: isolation of model objects (operation sequences "configure model A, then run a default model B") ---------
    iso = []
    for ma in ['single', 'homog']:
        for bca, api in (([['c', '-J']], 'side'), ([['+J', 'c']], 'setBC'), ([['-J', '+J']], 'side-str'), ([['c', 'c']], 'setBC-default-element')):
            first = {'model': ma, 'els': 'bin', 'N': 5, 'profile': 'linear', 'bc': bca, 'it': 'euler', 'calls': 1, 'temp': 'iso',
                     'nsteps': nsteps, 'bcapi': api}
            if ma == 'homog':
                first['rule'] = 'wiener upper'
            for mb in ['single', 'homog']:
                for els in ['bin', 'tern']:
                    for it in its:
                        then = {'model': mb, 'els': els, 'N': 5, 'profile': 'step', 'bc': [['f0', 'f0']] * (len(ELEMENTS[els]) - 1),
                                'it': it, 'calls': 2, 'temp': 'iso', 'nsteps': nsteps}
                        if mb == 'homog':
                            then['rule'] = 'hashin lower'
                        iso.append({'first': first, 'then': then})
    ctx.bounds['isolation'] = 'first model: single/homog x 4 boundary-condition mixes (one per API form); then: single/homog x bin/tern x iterator, all defaults'
    ctx.product_run('isolation', 'checks.c04:run_isolation', iso)
    if ctx.violations:
        # the products below build one model per case in long-lived workers and presuppose that model objects do not share state
        ctx.cap('stage isolation (a default model run after another model was configured) found violations; the remaining stages, '
                'which presuppose that model objects do not share state, were not run')
        return

    # --- stage 1: conservation products on the analytic environments ------------------------------------------
    nclip = nskip = 0
    for stage, cases in (('conserve-single', _product(['single'], rules=[None], **main)),
                         ('conserve-homog', _product(['homog'], rules=rules_main, **main)),
                         ('conserve-rules', _product(['homog'], **rulep))):
        res = ctx.product_run(stage, 'checks.c04:run_cfg', cases)
        nclip += sum(r.get('info', {}).get('clip_steps', 0) for r in res)
        nskip += sum(r.get('info', {}).get('sum_not_asserted', 0) for r in res)
    ctx.extra['clip_steps_in_conservation_products'] = int(nclip)
    ctx.extra['rk4_composition_components_without_sum_assertion'] = int(nskip)

    # --- stage 2: edge product - profiles on the bounds, strong fluxes (clip events wanted) ----------------------
    ecases = []
    for model in ['single', 'homog']:
        for els in ['bin', 'tern']:
            nel = len(ELEMENTS[els])
            mixes = [[['f0', 'f0']], [['-J', '+J']], [['+J', '-J']], [['c', '-J']], [['+J', 'c']]]
            if nel == 3:
                mixes = [mx + [q] for mx in mixes for q in (['f0', 'f0'], ['-J', '+J'])]
            for bc in mixes:
                for prof in EDGE_PROFILES:
                    if prof == 'full-step' and not (model == 'single' and els == 'bin'):
                        continue       # x = 1 - 2 min leaves no room for a third component / gives ln(<=0) in the provider
                    for N in ([3, 5] if quick else [2, 3, 5, 12]):
                        for it in its:
                            for nc in ([2] if quick else [1, 3]):
                                # total inflow over a run = J_REL * jmult * nsteps * calls of a node's content.  A state
                                # whose mole fractions sum to more than 1 is outside the models' domain (setup rejects it, the
                                # homogenization provider - like a real backend - is undefined there), so the multiplier is
                                # sized to stay below that: ternary 0.9 + 0.05, binary homogenization 0.6 + 0.2; the binary
                                # single-phase model is driven into the upper clip (x = 1 - min) on purpose
                                for jm in ([1.0] if els == 'tern' else ([1.0, 25.0] if model == 'single' else [1.0, 8.0])):
                                    c = {'model': model, 'els': els, 'N': N, 'profile': prof, 'bc': bc, 'it': it, 'calls': nc,
                                         'temp': 'iso', 'nsteps': nsteps, 'jmult': jm}
                                    if model == 'homog':
                                        c['rule'] = 'wiener upper'
                                        if it == 'rk4' and any(b[0] == '-J' or b[1] == '+J' for b in bc):
                                            continue   # see assumptions: negative RK4 stage compositions are out of domain
                                    ecases.append(c)
    res = ctx.product_run('edge', 'checks.c04:run_cfg', ecases)
    ctx.extra['clip_steps_in_edge_product'] = int(sum(r.get('info', {}).get('clip_steps', 0) for r in res))

    # --- stage 2b: the public constraint minComposition changed between consecutive solve calls (raised, then lowered again): every
    # step is judged against the value in force during its solve call.  Flux-only boundary mixes of the edge product (a fixed node
    # below a raised minimum would contradict the bounds clause by construction); single-phase model, whose provider is defined
    # for any composition in (0, 1)
    rcases = []
    for c in ecases:
        if c['model'] != 'single' or any('c' in b for b in c['bc']) or c.get('jmult', 1.0) != 1.0:
            continue
        rcases.append(dict(c, calls=3, between={'minComposition': [1e-4, 1e-9]}))
    # ... and raised into the profile itself (0.15 with nodes at 0.10: the next accepted step has to lift them), closed and flux
    # boundaries, interior profiles of the conservation product
    for els in ['bin', 'tern']:
        for bc1 in (['f0', 'f0'], ['+J', '-J']):
            for prof in ['step', 'linear']:
                for N in [2, 5]:
                    for it in its:
                        rcases.append({'model': 'single', 'els': els, 'N': N, 'profile': prof, 'bc': [bc1] * (len(ELEMENTS[els]) - 1),
                                       'it': it, 'calls': 3, 'temp': 'iso', 'nsteps': nsteps,
                                       'between': {'minComposition': [0.15, 1e-9]}})
    ctx.bounds['reconfigure'] = ('single-phase model, 3 solve calls, minComposition changed between the calls: edge-product runs without '
                                 'composition boundaries 1e-8 -> 1e-4 -> 1e-9; interior profiles 1e-8 -> 0.15 -> 1e-9')
    ctx.product_run('reconfigure', 'checks.c04:run_cfg', rcases)

    # --- stage 3: boundary-condition API variants (binary + ternary) ---------------------------------------------
    acases = []
    for model in ['single', 'homog']:
        for els in ['bin', 'tern']:
            for api in ['side', 'side-str', 'setBC'] + (['setBC-default-element'] if els == 'bin' else []):
                mixes = _bc_mixes(2, 'full') if els == 'bin' else [[list(p), list(p)[::-1]] for p in
                                                                    [('f0', 'f0'), ('+J', 'c'), ('c', '-J'), ('c', 'c')]]
                for bc in mixes:
                    if api == 'setBC-default-element' and bc == [['f0', 'f0']]:
                        continue
                    for it in its:
                        c = {'model': model, 'els': els, 'N': 5, 'profile': 'linear', 'bc': bc, 'it': it, 'calls': 1,
                             'temp': 'iso', 'nsteps': nsteps, 'bcapi': api}
                        if model == 'homog':
                            c['rule'] = 'wiener upper'
                        acases.append(c)
    # recording switched off (conservation, fixed nodes and bounds do not depend on keeping a history)
    for model in ['single', 'homog']:
        for els in ['bin', 'tern']:
            for first in (['f0', 'f0'], ['c', '+J'], ['-J', '+J']):
                bc = [first] if els == 'bin' else [first, ['f0', 'f0']]
                for it in its:
                    c = {'model': model, 'els': els, 'N': 5, 'profile': 'linear', 'bc': bc, 'it': it, 'calls': 2,
                         'temp': 'iso', 'nsteps': nsteps, 'record': False}
                    if model == 'homog':
                        c['rule'] = 'wiener upper'
                    acases.append(c)
    # boundary values at the ends of the composition range: 0 (all four model/element combinations) and 1 (binary single-phase)
    for model in ['single', 'homog']:
        for els in ['bin', 'tern']:
            for cv in ['zero'] + (['one'] if (model, els) == ('single', 'bin') else []):
                for first in (['c', 'f0'], ['c', 'c'], ['c', '+J']):
                    bc = [first] if els == 'bin' else [first, ['f0', 'f0']]
                    for it in its:
                        for nc in [1, 2]:
                            c = {'model': model, 'els': els, 'N': 5, 'profile': 'linear', 'bc': bc, 'it': it, 'calls': nc,
                                 'temp': 'iso', 'nsteps': nsteps, 'cv': cv}
                            if model == 'homog':
                                c['rule'] = 'wiener upper'
                            acases.append(c)
    ctx.product_run('bc-api', 'checks.c04:run_cfg', acases)

    # --- stage 4: instrumentation is transparent ----------------------------------------------------------------
    icases = []
    for model in ['single', 'homog']:
        for els in ['bin', 'tern']:
            for bc in ([[['f0', 'f0']], [['c', '+J']]] if els == 'bin' else [[['f0', 'f0'], ['f0', 'f0']], [['c', '+J'], ['-J', 'c']]]):
                for it in its:
                    for nc in [1, 2]:
                        c = {'model': model, 'els': els, 'N': 5, 'profile': 'stacked', 'bc': bc, 'it': it, 'calls': nc,
                             'temp': 'field', 'nsteps': nsteps}
                        if model == 'homog':
                            c['rule'] = 'hashin lower'
                        icases.append(c)
    ctx.product_run('instrument', 'checks.c04:run_instrument', icases)

    # --- stage 5: conformance on real pycalphad backends ---------------------------------------------------------
    rcases = []
    for env in ['single-nicral', 'single-nicr', 'homog-fecrni', 'homog-nicr']:
        nel = len(REAL_SETUPS[env][2])
        if nel == 2:
            mixes = [[list(p)] for p in ([('f0', 'f0'), ('+J', '-J'), ('c', '+J'), ('-J', 'c')] if quick else
                                         [(a, b) for a in BC_LABELS for b in BC_LABELS])]
        else:
            first = [('f0', 'f0'), ('+J', 'c')] if quick else [('f0', 'f0'), ('+J', '-J'), ('-J', 'c'), ('c', '+J'), ('c', 'c')]
            second = [('f0', 'f0'), ('c', '-J')]
            mixes = [[list(p), list(q)] for p in first for q in second]
        for bc in mixes:
            for N in ([4] if quick else [3, 6]):
                for it in its:
                    for nc in ([2] if quick else [1, 3]):
                        for temp in (['iso'] if quick else ['iso', 'field']):
                            for rule in (['hashin lower'] if quick or not env.startswith('homog') else ['wiener upper', 'hashin lower']):
                                c = {'env': env, 'model': REAL_SETUPS[env][0], 'N': N, 'bc': bc, 'it': it, 'calls': nc,
                                     'temp': temp, 'nsteps': 3.5 if quick else 4.5}
                                if env.startswith('homog'):
                                    c['rule'] = rule
                                rcases.append(c)
    ctx.product_run('real', 'checks.c04:run_cfg', rcases, chunksize=1)
