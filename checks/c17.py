"""C17 - homogenized mobilities respect the classical bounds and address phases by name.

Bounded exhaustive exploration (full products, no sampling) of
  kawin/diffusion/HomogenizationParameters.py  (wienerUpper/Lower, hashinShtrikmanUpper/Lower, labyrinth,
                                                post-process modes, computeHomogenizationFunction)
  kawin/diffusion/DiffusionParameters.py       (_computeSingleMobility, HashTable) through the public entry point

Stages
  avg     the five public averaging functions on synthetic input: phase count 1-4 x every mobility column
          from a log lattice (incl. undefined = -1) x simplex lattice of fractions x every row order x
          labyrinth factors.  References: exact rational arithmetic (fractions.Fraction) of the textbook
          forms  W+ = sum f M,  W- = 1/sum f/M,  HS = [sum f/(M + 2 M_ext)]^-1 - 2 M_ext.
  post    post-process modes through computeHomogenizationFunction with a hash table that already holds
          the MobilityData of the point (public HashTable API) and a duck-typed database object that only
          carries the phase list: database lists of 3-4 names x every ordered stable subset x defined /
          undefined / partly undefined rows x fraction orders x {none, predefined(each name), majority,
          exclude(each subset)}.  The arrays handed to the averaging rule are observed through the public
          `homogenizationFunction` attribute and compared with a by-name reference built from
          MobilityData.phases; the table content must be bit-identical afterwards.
  real    the same by-name oracle plus the bound clauses on Fe-Cr-Ni (FCC+BCC, all mobilities defined) and
          Ni-Cr-Al (BCC without mobility model) at single- and two-phase points, with and without a table
  hist    every evaluation history of length <= 3 over (point, mode) on one shared HashTable per database:
          each evaluation equals the evaluation of the same (point, mode) on a fresh table
"""
import itertools
import math
from fractions import Fraction

PROPERTY = 'C17'
LEVEL = 'exploration'

np = None
EPS = 2.220446049250313e-16
THERM = {}


def prepare():
    global np, hp, dp, HomogenizationParameters, computeHomogenizationFunction, HashTable, MobilityData, computeMobility
    import numpy as np
    import importlib
    # (kawin.diffusion re-exports the class HomogenizationParameters under the module's name)
    hp = importlib.import_module('kawin.diffusion.HomogenizationParameters')
    dp = importlib.import_module('kawin.diffusion.DiffusionParameters')
    from kawin.diffusion.HomogenizationParameters import HomogenizationParameters, computeHomogenizationFunction
    from kawin.diffusion.DiffusionParameters import HashTable, MobilityData, computeMobility
    np.seterr(all='ignore')


def _therm(db):
    """Real databases are built once per process (parent builds them before the fork, see run())."""
    if db not in THERM:
        from kawin.thermo import GeneralThermodynamics
        import kawin.tests.datasets as ds
        if db == 'FeCrNi':
            THERM[db] = GeneralThermodynamics(ds.FECRNI_DB, ['FE', 'CR', 'NI'], ['FCC_A1', 'BCC_A2'])
        elif db == 'FeNiCr':
            # the same system with the solutes listed in the other order: a cyclic permutation of the alphabetical order, for
            # which the sorting permutation of the elements differs from its inverse (seeded change s17b)
            THERM[db] = GeneralThermodynamics(ds.FECRNI_DB, ['FE', 'NI', 'CR'], ['FCC_A1', 'BCC_A2'])
        elif db == 'NiCrAl':
            THERM[db] = GeneralThermodynamics(ds.NICRAL_TDB, ['NI', 'CR', 'AL'], ['FCC_A1', 'BCC_A2'])
        else:
            raise KeyError(db)
    return THERM[db]


RULES = ['wiener upper', 'wiener lower', 'hashin upper', 'hashin lower', 'lab']


def _rule_fn(name):
    return {'wiener upper': hp.wienerUpper, 'wiener lower': hp.wienerLower, 'hashin upper': hp.hashinShtrikmanUpper,
            'hashin lower': hp.hashinShtrikmanLower, 'lab': hp.labyrinth}[name]


# ------------------------------------------------------------------------------------------------------
# exact references (one column = one element).  Undefined entries follow the documented convention "a phase
# of unknown mobility is ignored": it contributes nothing to the upper rules (a phase with mobility 0) and
# nothing to the resistances of the lower rules (a phase with infinite mobility).

def ref_column(M, f):
    """M: list of floats (-1 = undefined), f: list of floats.  Returns (dict rule -> Fraction or None,
    dict rule -> relative tolerance).

    Tolerances.  Wiener rules are sums of positive terms: 1e-13.  kawin evaluates the Hashin-Shtrikman bounds as
        A = sum f (M - M_ext) 3 M_ext / (2 M_ext + M),      M* = M_ext + A / (1 - A/(3 M_ext)).
    With S = sum f/(M + 2 M_ext) and sum f = 1 one has 1 - A/(3 M_ext) = 3 M_ext S exactly, so
      lower bound (A >= 0): the denominator cancels to 3 M_ext S of its terms  -> rounding amplified by 1/(3 M_ext S)
      upper bound (A <= 0): M_ext + (negative) cancels to M*                   -> rounding amplified by M_ext / M*
    (both <= contrast max/min; measured 4e-7 at contrast 1e10, 3e-2 at 1e15).  tol = 1e-12 + 64 eps * amplification."""
    Mq = [None if m == -1 else Fraction(m) for m in M]
    fq = [Fraction(x) for x in f]
    de = [(m, x) for m, x in zip(Mq, fq) if m is not None]
    un = [x for m, x in zip(Mq, fq) if m is None]
    out = {'wiener upper': None, 'wiener lower': None, 'hashin upper': None, 'hashin lower': None}
    tol = {'wiener upper': 1e-13, 'wiener lower': 1e-13, 'hashin upper': 1e-12, 'hashin lower': 1e-12}
    if not de:
        return out, tol
    out['wiener upper'] = sum(x * m for m, x in de)
    s = sum(x / m for m, x in de)
    out['wiener lower'] = (1 / s) if s != 0 else None
    mmax = max(m for m, x in de)
    mmin = min(m for m, x in de)
    s = sum(x / (m + 2 * mmax) for m, x in de) + sum(x / (2 * mmax) for x in un)
    if s != 0:
        v = 1 / s - 2 * mmax
        out['hashin upper'] = v
        tol['hashin upper'] = 1e-12 + 64 * EPS * (float(mmax / v) if v > 0 else 1e300)
    s = sum(x / (m + 2 * mmin) for m, x in de)
    if s != 0:
        out['hashin lower'] = 1 / s - 2 * mmin
        tol['hashin lower'] = 1e-12 + 64 * EPS * max(1.0, float(1 / (3 * mmin * s)))
    return out, tol


def hs_tol(M):
    """Contrast bound of the amplification (see ref_column); used on the real data where contrasts are < 1e4."""
    d = [m for m in M if m != -1]
    c = max(d) / min(d) if d else 1.0
    return 1e-12 + 64 * EPS * c


ILL = 1e-6       # columns whose Hashin-Shtrikman tolerance exceeds this are counted as ill-conditioned and not asserted


LAT_T = [1e-25, 1e-20, 3e-20, 1e-18, 1e-15, 5e-15, 1e-10, -1.0]
LAT_Q = [1e-25, 1e-20, 3e-20, 1e-10, -1.0]
LABS = [1, 1.5, 2]


def simplex(P, n):
    out = []
    for c in itertools.product(range(n + 1), repeat=P):
        if sum(c) == n:
            out.append([ci / n for ci in c])
    return out


def run_avg(case):
    P, f, lat = case['P'], case['fr'], case['lat']
    viol = []
    seen = set()

    def bad(kind, msg):
        sig = 'avg/%s' % kind
        if sig in seen and len(viol) > 40:
            return
        seen.add(sig)
        viol.append({'sig': sig, 'msg': 'P=%d fractions=%r: %s' % (P, f, msg)})
    cols = list(itertools.product(lat, repeat=P))
    mob = np.array(cols, dtype=float).T.copy()          # (P, ncol): every lattice column at once
    fr = np.array(f, dtype=float)
    keepm, keepf = mob.copy(), fr.copy()
    res = {}
    for r in RULES:
        for n in (LABS if r == 'lab' else [None]):
            try:
                v = _rule_fn(r)(mob, fr, labyrinth_factor=n) if n is not None else _rule_fn(r)(mob, fr)
            except Exception as e:
                bad('%s/exception' % r, '%s: %s' % (type(e).__name__, e))
                continue
            if mob.tobytes() != keepm.tobytes() or fr.tobytes() != keepf.tobytes():
                bad('%s/argument-mutated' % r, 'input arrays changed')
                mob, fr = keepm.copy(), keepf.copy()
            v = np.asarray(v)
            if v.shape != (len(cols),):
                bad('%s/shape' % r, 'shape %r for %d columns' % (v.shape, len(cols)))
                continue
            res[(r, n)] = v
    if len(res) != 7:
        return {'viol': viol, 'outcome': 'incomplete'}
    WU, WL, HU, HL = res[('wiener upper', None)], res[('wiener lower', None)], res[('hashin upper', None)], res[('hashin lower', None)]
    counts = {'defined': 0, 'undefined-ignored': 0, 'no-defined-support': 0, 'illcond': 0}
    unit = [i for i, x in enumerate(f) if x == 1.0]
    nst = 0
    tolH = np.full(len(cols), np.inf)
    supported = np.zeros(len(cols), dtype=bool)
    for j, M in enumerate(cols):
        nst += 1
        defined = [m for m in M if m != -1]
        support = sum(x for m, x in zip(M, f) if m != -1)
        tag = 'M=%r: ' % (M,)
        got = {'wiener upper': float(WU[j]), 'wiener lower': float(WL[j]), 'hashin upper': float(HU[j]), 'hashin lower': float(HL[j])}
        if not defined or support == 0:
            counts['no-defined-support'] += 1        # nothing defined carries a fraction: outside the statement
            continue
        supported[j] = True
        ref, tl = ref_column(M, f)
        tolmax = max(tl['hashin upper'], tl['hashin lower'])
        tolH[j] = tolmax
        alldef = len(defined) == P
        counts['defined' if alldef else 'undefined-ignored'] += 1
        if tolmax > ILL:
            counts['illcond'] += 1
        # agreement with the exact reference
        for r in got:
            if ref[r] is None or tl[r] > ILL:
                continue
            rv = float(ref[r])
            if not (math.isfinite(got[r]) and abs(got[r] - rv) <= tl[r] * abs(rv) + 1e-300):
                bad('%s/reference/%s' % (r, 'defined' if alldef else 'with-undefined'),
                    tag + '%s = %r, exact %r (rel tol %.1e)' % (r, got[r], rv, tl[r]))
        for n in LABS:
            lv = float(res[('lab', n)][j])
            rv = sum((x ** n) * m for m, x in zip(M, f) if m != -1)
            if not abs(lv - rv) <= 1e-13 * rv + 1e-300:
                bad('lab/reference', tag + 'lab(%r) = %r, sum f^n M = %r' % (n, lv, rv))
        if alldef:
            lo, hi = min(defined), max(defined)
            for r in got:
                if tl[r] > ILL:
                    continue
                if not (lo * (1 - tl[r]) <= got[r] <= hi * (1 + tl[r])):
                    bad('%s/outside-min-max' % r, tag + '%s = %r not in [%r, %r]' % (r, got[r], lo, hi))
            # ordering W- <= HS- <= HS+ <= W+
            chain = [('wiener lower', 'hashin lower'), ('hashin lower', 'hashin upper'), ('hashin upper', 'wiener upper')]
            for a, b in chain:
                t = max(tl[a], tl[b])
                if t <= ILL and not got[a] <= got[b] * (1 + t):
                    bad('ordering/%s>%s' % (a.replace(' ', '-'), b.replace(' ', '-')), tag + '%s = %r > %s = %r' % (a, got[a], b, got[b]))
            # single phase present: the phase mobility
            if unit:
                for r in got:
                    if tl[r] <= ILL and not abs(got[r] - M[unit[0]]) <= tl[r] * M[unit[0]]:
                        bad('%s/single-phase' % r, tag + '%s = %r, the only phase present has %r' % (r, got[r], M[unit[0]]))
            # labyrinth: factor 1 is the upper Wiener bound (bitwise: same operations), never above it
            if not float(res[('lab', 1)][j]) == got['wiener upper']:
                bad('lab/factor-1', tag + 'lab(1) = %r, wiener upper = %r' % (float(res[('lab', 1)][j]), got['wiener upper']))
            for n in LABS:
                if not float(res[('lab', n)][j]) <= got['wiener upper'] * (1 + 1e-15):
                    bad('lab/above-wiener-upper', tag + 'lab(%r) = %r > wiener upper %r' % (n, float(res[('lab', n)][j]), got['wiener upper']))
    # every order of listing the phases: same answer
    nperm = 0
    wellc = supported & (tolH <= ILL)
    for perm in itertools.permutations(range(P)):
        if list(perm) == list(range(P)):
            continue
        nperm += 1
        pm = keepm[list(perm), :].copy()
        pf = keepf[list(perm)].copy()
        for (r, n), v0 in res.items():
            v = np.asarray(_rule_fn(r)(pm, pf, labyrinth_factor=n) if n is not None else _rule_fn(r)(pm, pf))
            t = tolH if 'hashin' in r else 1e-13
            okv = np.abs(v0 - v) <= t * np.maximum(np.abs(v0), np.abs(v)) + 1e-300
            j = np.where((wellc if 'hashin' in r else supported) & ~okv)[0]
            if len(j):
                bad('%s/phase-order' % r, 'M=%r order %r: %r vs %r' % (cols[j[0]], perm, float(v0[j[0]]), float(v[j[0]])))
    return {'viol': viol, 'states': nst, 'transitions': nst * (1 + nperm) * 7,
            'outcome': 'defined=%d,undef=%d,nosupport=%d,illcond=%d' % (counts['defined'] > 0, counts['undefined-ignored'] > 0,
                                                                       counts['no-defined-support'] > 0, counts['illcond'] > 0),
            'info': counts}


# ------------------------------------------------------------------------------------------------------
# post-processing by name

class StubDB:
    """Carries what computeHomogenizationFunction reads from the database object when the table has the point."""

    def __init__(self, phases):
        self.phases = list(phases)
        self.elements = ['EA', 'EB', 'EC', 'VA']
        self.numElements = 3

    def getEq(self, *a, **k):
        raise RuntimeError('harness: the point must come from the hash table')


BASE = {'A': 1e-20, 'B': 3e-18, 'C': 5e-16, 'D': 2e-22}
XPOINT = [0.2, 0.3]
TPOINT = 1000.0


def _modes(D, quick=False):
    ms = [['none', None]] + [['predefined', n] for n in D] + [['majority', None]]
    for k in range(len(D) + 1):
        for sub in itertools.combinations(D, k):
            ms.append(['exclude', list(sub)])
    return ms


def ref_post(mode, arg, names, mob, fr):
    """By-name reference of the documented post-process options."""
    mob, fr = mob.copy(), fr.copy()
    names = list(names)
    if mode == 'predefined':
        if arg in names:
            a = mob[names.index(arg)].copy()
            for i in range(mob.shape[1]):
                col = mob[:, i]
                col[col == -1] = a[i]
    elif mode == 'majority':
        a = mob[int(np.argmax(fr))].copy()
        for i in range(mob.shape[1]):
            col = mob[:, i]
            col[col == -1] = a[i]
    elif mode == 'exclude':
        for k, nme in enumerate(names):
            if nme in arg:
                fr[k] = 0
    return mob, fr


def named_relation(mode, arg, D, names):
    """Discriminating attribute of a by-name failure: how the named phase sits in the stable set."""
    if mode == 'predefined':
        args = [arg]
    elif mode == 'exclude':
        args = list(arg)
    else:
        return 'n/a'
    rel = set()
    for a in args:
        if a not in names:
            rel.add('absent')
        elif list(names).index(a) != list(D).index(a):
            rel.add('moved')
        else:
            rel.add('same')
    for r in ('absent', 'moved', 'same'):
        if r in rel:
            return r
    return 'n/a'


def eval_point(therm, x, T, rule, mode, arg, table, lab=1):
    """One public evaluation; returns dict with the result or the exception and the arrays the rule received."""
    params = HomogenizationParameters(rule, labyrinthFactor=lab, postProcessFunction=mode, postProcessArgs=arg)
    inner = params.homogenizationFunction
    seen = {}

    def spy(mob, fracs, *a, **k):
        seen['mob'] = np.array(mob, dtype=float, copy=True)
        seen['fr'] = np.array(fracs, dtype=float, copy=True)
        return inner(mob, fracs, *a, **k)
    params.homogenizationFunction = spy
    try:
        avg, mu = computeHomogenizationFunction(therm, x, T, params, table)
        return {'avg': np.array(avg, dtype=float), 'mu': np.array(mu, dtype=float), 'seen': seen, 'exc': None}
    except Exception as e:
        return {'avg': None, 'mu': None, 'seen': seen, 'exc': '%s: %s' % (type(e).__name__, e), 'exctype': type(e).__name__}


def check_by_name(src, D, names, mob, fr, rule, mode, arg, r, viol, tag):
    """Compare one evaluation r with the by-name reference; append violations."""
    rel = named_relation(mode, arg, D, names)
    if r['exc'] is not None:
        viol.append({'sig': 'post-by-name/mode=%s/exception:%s/%s' % (mode, r['exctype'], src),
                     'msg': tag + ' (named phase %s in the stable set) -> %s' % (rel, r['exc'])})
        return False
    em, ef = ref_post(mode, arg, names, mob, fr)
    sm, sf = r['seen'].get('mob'), r['seen'].get('fr')
    ok = sm is not None and sm.shape == em.shape and sm.tobytes() == em.tobytes() and sf.shape == ef.shape and sf.tobytes() == ef.tobytes()
    if not ok:
        viol.append({'sig': 'post-by-name/mode=%s/wrong-rows/%s' % (mode, src),
                     'msg': tag + ' (named phase %s in the stable set)' % rel + ': stable phases %s; arrays given to the rule: mobility[:,0]=%s fractions=%s; by name: mobility[:,0]=%s fractions=%s'
                            % (list(names), None if sm is None else sm[:, 0].tolist(), None if sf is None else sf.tolist(),
                               em[:, 0].tolist(), ef.tolist())})
        return False
    want = np.asarray(_rule_fn(rule)(em.copy(), ef.copy(), labyrinth_factor=1), dtype=float)
    if r['avg'].shape != want.shape or r['avg'].tobytes() != want.tobytes():
        viol.append({'sig': 'post-by-name/mode=%s/result/%s' % (mode, src), 'msg': tag + ': %r vs rule(by-name arrays) %r' % (r['avg'], want)})
        return False
    return True


# ------------------------------------------------------------------------------------------------------
# stage 'dispatch': the parameter object selects rule and post-processing by documented string (any string containing the
# keywords) or by integer constant, at construction or through the setters; each way must select the same function

RULE_NAMES = {'wiener upper': ['wiener upper', 'upper wiener', 'Wiener upper bound'.lower()],
              'wiener lower': ['wiener lower', 'lower wiener'],
              'hashin upper': ['hashin upper', 'hashin-shtrikman upper', 'upper hashin'],
              'hashin lower': ['hashin lower', 'hashin-shtrikman lower', 'lower hashin'],
              'lab': ['lab', 'labyrinth']}
RULE_IDS = {'wiener upper': 'WIENER_UPPER', 'wiener lower': 'WIENER_LOWER', 'hashin upper': 'HASHIN_UPPER',
            'hashin lower': 'HASHIN_LOWER', 'lab': 'LABYRINTH'}
POST_IDS = {'none': 'NO_POST', 'predefined': 'PREDEFINED', 'majority': 'MAJORITY', 'exclude': 'EXCLUDE'}


def run_dispatch(case):
    rule, how = case['rule'], case['how']
    HP = hp.HomogenizationParameters
    viol = []
    mob = np.array([[1e-18, 3e-17, 2e-16], [5e-15, 1e-18, 2e-16], [2e-20, 7e-19, 2e-16]])
    fr = np.array([0.2, 0.5, 0.3])
    n = 0
    for lab in LABS:
        want = _rule_fn(rule)(mob.copy(), fr.copy(), labyrinth_factor=lab) if rule == 'lab' else _rule_fn(rule)(mob.copy(), fr.copy())
        sels = [('name:' + nm, nm) for nm in RULE_NAMES[rule]] + [('id', getattr(HP, RULE_IDS[rule]))]
        for label, sel in sels:
            try:
                if how == 'ctor':
                    prm = HP(sel, labyrinthFactor=lab)
                else:
                    other = 'wiener lower' if rule != 'wiener lower' else 'hashin upper'
                    prm = HP(other)
                    prm.setHomogenizationFunction(sel)
                    prm.setLabyrinthFactor(lab)
                got = prm.homogenizationFunction(mob.copy(), fr.copy(), labyrinth_factor=prm.labyrinthFactor)
            except Exception as e:
                viol.append({'sig': 'dispatch/rule/exception/%s/%s' % (rule, label.split(':')[0]),
                             'msg': '%s selected by %r (%s): %s: %s' % (rule, sel, how, type(e).__name__, e)})
                continue
            n += 1
            if np.asarray(got).tobytes() != np.asarray(want).tobytes():
                viol.append({'sig': 'dispatch/rule/wrong-function/%s/%s' % (rule, label.split(':')[0]),
                             'msg': '%s selected by %r (%s, labyrinth factor %r) gives %r, the rule itself %r' % (rule, sel, how, lab, got, want)})
    # an admissible labyrinth factor is stored as given (what happens outside [1, 2] is not part of the statement)
    for lab in (1, 1.25, 2):
        prm = HP('lab', labyrinthFactor=1)
        prm.setLabyrinthFactor(lab)
        n += 1
        if prm.labyrinthFactor != lab:
            viol.append({'sig': 'dispatch/labyrinth-factor', 'msg': 'setLabyrinthFactor(%r) stores %r' % (lab, prm.labyrinthFactor)})
    # post-processing by name and by constant
    for mode, idn in POST_IDS.items():
        a, b = HP(rule, postProcessFunction=mode, postProcessArgs=['X']), HP(rule, postProcessFunction=getattr(HP, idn), postProcessArgs=['X'])
        c = HP(rule)
        c.setPostProcessFunction(getattr(HP, idn), ['X'])
        n += 2
        if not (a.postProcessFunction is b.postProcessFunction is c.postProcessFunction) or a.postProcessParameters != c.postProcessParameters:
            viol.append({'sig': 'dispatch/post/%s' % mode, 'msg': 'post-processing %r by name, by constant and through the setter select %r / %r / %r'
                         % (mode, a.postProcessFunction, b.postProcessFunction, c.postProcessFunction)})
    return {'viol': viol, 'states': n, 'transitions': n, 'outcome': '%s/%s' % (rule, how)}


def run_post(case):
    D, names = case['D'], case['S']
    viol = []
    stub = StubDB(D)
    n = len(names)
    nst = 0
    outs = set()
    fr_orders = [[0.5, 0.3, 0.15, 0.05][:n], [0.05, 0.15, 0.3, 0.5][-n:]]
    for fo in fr_orders:
        fr = np.array(fo, dtype=float)
        fr = fr / fr.sum()
        for pat in itertools.product(['def', 'undef', 'part'], repeat=n):
            mob = np.zeros((n, 3))
            for k, nme in enumerate(names):
                mob[k] = [BASE[nme], BASE[nme] * 1.5, BASE[nme] * 0.25]
                mob[k] *= (1 + 0.0625 * k)     # two composition sets of one phase carry different mobilities
                if pat[k] == 'undef':
                    mob[k, :] = -1
                elif pat[k] == 'part':
                    mob[k, 0] = -1
            for mode, arg in _modes(D):
                for rule in case['rules']:
                    table = HashTable()
                    stored = MobilityData(mobility=mob.copy(), phases=np.array(names), phase_fractions=fr.copy(),
                                          chemical_potentials=np.array([-1.0, -2.0, -3.0]))
                    table.addToHashTable(np.array(XPOINT), TPOINT, stored)
                    r = eval_point(stub, XPOINT, TPOINT, rule, mode, arg, table)
                    nst += 1
                    tag = 'db phases %s, stable %s (%s), fractions %s, %s(%s), %s' % (D, names, ','.join(pat), fr.tolist(), mode, arg, rule)
                    ok = check_by_name('synthetic', D, names, mob, fr, rule, mode, arg, r, viol, tag)
                    outs.add(mode + (':ok' if ok else ':bad'))
                    # the table must still hold what was put in
                    if stored.mobility.tobytes() != mob.tobytes() or stored.phase_fractions.tobytes() != fr.tobytes():
                        viol.append({'sig': 'cache-mutation/mode=%s/table-content/synthetic' % mode,
                                     'msg': tag + ': table entry changed to mobility[:,0]=%s fractions=%s'
                                            % (stored.mobility[:, 0].tolist(), stored.phase_fractions.tolist())})
    # keep one example per signature and count (thousands of identical consequences otherwise)
    return {'viol': _dedup(viol), 'states': nst, 'transitions': nst, 'outcome': ','.join(sorted(outs)), 'nontrivial': n > 0}


def _dedup(viol):
    first, cnt = {}, {}
    for v in viol:
        cnt[v['sig']] = cnt.get(v['sig'], 0) + 1
        first.setdefault(v['sig'], v)
    return [{'sig': s, 'msg': v['msg'] + ' [%d in this case]' % cnt[s]} for s, v in first.items()]


# ------------------------------------------------------------------------------------------------------
# real databases

POINTS = {
    'FeCrNi': [
        {'label': 'fcc', 'x': [0.1, 0.3], 'T': 1373.15},
        {'label': 'bcc', 'x': [0.5, 0.05], 'T': 1373.15},
        {'label': 'bcc+fcc', 'x': [0.257, 0.065], 'T': 1373.15},
        {'label': 'fcc+bcc', 'x': [0.423, 0.276], 'T': 1373.15},
        {'label': 'fcc+bcc-minor-fcc', 'x': [0.2, 0.02], 'T': 1373.15},
        {'label': 'bcc+fcc-1073', 'x': [0.3, 0.1], 'T': 1073.15},
        {'label': 'bcc-1573', 'x': [0.257, 0.065], 'T': 1573.15},
        # miscibility gap: BCC_A2 is stable with two composition sets (its name appears twice in the stable set)
        {'label': 'bccgap+fcc-700', 'x': [0.5, 0.05], 'T': 700.0},
        {'label': 'bccgap-700', 'x': [0.5, 0.001], 'T': 700.0},
    ],
    # Fe-Cr-Ni again with the solutes listed as [NI, CR] (x = [x_NI, x_CR]): same physical points
    'FeNiCr': [
        {'label': 'fcc', 'x': [0.3, 0.1], 'T': 1373.15},
        {'label': 'bcc', 'x': [0.05, 0.5], 'T': 1373.15},
        {'label': 'bcc+fcc', 'x': [0.065, 0.257], 'T': 1373.15},
        {'label': 'fcc+bcc', 'x': [0.276, 0.423], 'T': 1373.15},
    ],
    'NiCrAl': [
        {'label': 'fcc', 'x': [0.05, 0.05], 'T': 1073.0},
        {'label': 'bcc+fcc', 'x': [0.7, 0.05], 'T': 1073.0},
        {'label': 'fcc+bcc', 'x': [0.2, 0.2], 'T': 1073.0},
        {'label': 'fcc+bcc-1473', 'x': [0.7, 0.05], 'T': 1473.0},
        {'label': 'bcc-1473', 'x': [0.9, 0.02], 'T': 1473.0},
    ],
}
REAL_MODES = [['none', None], ['predefined', 'FCC_A1'], ['predefined', 'BCC_A2'], ['majority', None],
              ['exclude', []], ['exclude', ['FCC_A1']], ['exclude', ['BCC_A2']], ['exclude', ['FCC_A1', 'BCC_A2']]]


def _point(db, label):
    for p in POINTS[db]:
        if p['label'] == label:
            return p
    raise KeyError(label)


def run_real(case):
    db, pt = case['db'], _point(case['db'], case['point'])
    therm = _therm(db)
    viol = []
    try:
        raw = computeMobility(therm, pt['x'], pt['T'])
    except Exception as e:
        raise RuntimeError('equilibrium failed at a listed point %r: %s' % (pt, e))
    names = list(raw.phases[0])
    mob = np.array(raw.mobility[0], dtype=float)
    fr = np.array(raw.phase_fractions[0], dtype=float)
    if (len(set(names)) != len(names)) != ('gap' in pt['label']):
        raise RuntimeError('listed point %r: stable set %r does not match its label (miscibility gap expected iff labelled gap)' % (pt, names))
    D = list(therm.phases)
    nst = 0
    outs = set()
    res_none = {}
    for rule in RULES:
        for mode, arg in REAL_MODES:
            for tb in ('no-table', 'table'):
                table = HashTable() if tb == 'table' else None
                r = eval_point(therm, pt['x'], pt['T'], rule, mode, arg, table, lab=1)
                nst += 1
                tag = '%s %s x=%r T=%r %s(%s) %s %s' % (db, pt['label'], pt['x'], pt['T'], mode, arg, rule, tb)
                ok = check_by_name_real(db, D, names, mob, fr, rule, mode, arg, r, viol, tag)
                outs.add(mode + (':ok' if ok else ':bad'))
                if ok and mode == 'none' and tb == 'no-table':
                    res_none[rule] = r['avg']
    # bound clauses on the real data (defined rows only)
    if len(res_none) == 5:
        alldef = not np.any(mob == -1)
        tagp = '%s %s x=%r T=%r phases=%s' % (db, pt['label'], pt['x'], pt['T'], names)
        for e in range(mob.shape[1]):
            col = mob[:, e]
            if alldef:
                tol = hs_tol(list(col)) + 1e-9
                lo, hi = col.min(), col.max()
                for rule in RULES:
                    v = res_none[rule][e]
                    if not lo * (1 - tol) <= v <= hi * (1 + tol):
                        viol.append({'sig': 'real/%s/outside-min-max/%s' % (db, rule), 'msg': tagp + ' element %d: %r not in [%r, %r]' % (e, v, lo, hi)})
                ch = [res_none['wiener lower'][e], res_none['hashin lower'][e], res_none['hashin upper'][e], res_none['wiener upper'][e]]
                if not all(a <= b * (1 + tol) for a, b in zip(ch[:-1], ch[1:])):
                    viol.append({'sig': 'real/%s/ordering' % db, 'msg': tagp + ' element %d: W-,HS-,HS+,W+ = %r' % (e, ch)})
                if len(names) == 1:
                    for rule in RULES:
                        if not abs(res_none[rule][e] - col[0]) <= 1e-9 * col[0]:
                            viol.append({'sig': 'real/%s/single-phase/%s' % (db, rule), 'msg': tagp + ' element %d: %r vs phase mobility %r' % (e, res_none[rule][e], col[0])})
                if not abs(res_none['lab'][e] - res_none['wiener upper'][e]) <= 1e-12 * res_none['wiener upper'][e]:
                    viol.append({'sig': 'real/%s/lab-factor-1' % db, 'msg': tagp + ' element %d' % e})
            ref, _tl = ref_column(list(col), list(fr))
            for rule in ('wiener upper', 'wiener lower', 'hashin upper', 'hashin lower'):
                if ref[rule] is None or sum(x for m, x in zip(col, fr) if m != -1) == 0:
                    continue
                rv = float(ref[rule])
                if not abs(res_none[rule][e] - rv) <= (hs_tol(list(col)) + 1e-9) * rv:
                    viol.append({'sig': 'real/%s/reference/%s' % (db, rule), 'msg': tagp + ' element %d: %r, exact from the phase data %r' % (e, res_none[rule][e], rv)})
        for labf in (1.5, 2):
            r = eval_point(therm, pt['x'], pt['T'], 'lab', 'none', None, None, lab=labf)
            nst += 1
            if r['exc'] is None:
                if alldef and not np.all(r['avg'] <= res_none['wiener upper'] * (1 + 1e-9)):
                    viol.append({'sig': 'real/%s/lab-above-wiener' % db, 'msg': tagp + ' lab(%r) = %r > %r' % (labf, r['avg'], res_none['wiener upper'])})
                want = np.array([sum((x ** labf) * m for m, x in zip(mob[:, e], fr) if m != -1) for e in range(mob.shape[1])])
                if not np.allclose(r['avg'], want, rtol=1e-9, atol=1e-300):
                    viol.append({'sig': 'real/%s/lab-reference' % db, 'msg': tagp + ' lab(%r) = %r, sum f^n M = %r' % (labf, r['avg'], want)})
            else:
                viol.append({'sig': 'real/%s/lab-exception' % db, 'msg': tagp + ' lab(%r): %s' % (labf, r['exc'])})
    return {'viol': _dedup(viol), 'states': nst, 'transitions': nst, 'outcome': '%dph:%s' % (len(names), ','.join(sorted(outs))),
            'info': {'phases': names, 'fractions': fr.tolist(), 'undefined_rows': [n for n, m in zip(names, mob) if np.all(m == -1)]}}


def check_by_name_real(db, D, names, mob, fr, rule, mode, arg, r, viol, tag):
    """Same oracle as the synthetic one; the raw arrays come from a separate equilibrium of the same point, so
    values are compared to 1e-9 (solver repeatability) instead of bitwise, the *pattern* (which entries were
    filled / zeroed) exactly."""
    rel = named_relation(mode, arg, D, names)
    if r['exc'] is not None:
        viol.append({'sig': 'post-by-name/mode=%s/exception:%s/%s' % (mode, r['exctype'], db),
                     'msg': tag + ' (named phase %s in the stable set) -> %s' % (rel, r['exc'])})
        return False
    em, ef = ref_post(mode, arg, names, mob, fr)
    sm, sf = r['seen'].get('mob'), r['seen'].get('fr')
    ok = sm is not None and sm.shape == em.shape and sf.shape == ef.shape and \
        np.array_equal(sm == -1, em == -1) and np.array_equal(sf == 0, ef == 0) and \
        np.allclose(sm, em, rtol=1e-9, atol=0) and np.allclose(sf, ef, rtol=1e-9, atol=0)
    if not ok:
        viol.append({'sig': 'post-by-name/mode=%s/wrong-rows/%s' % (mode, db),
                     'msg': tag + ' (named phase %s in the stable set)' % rel + ': stable phases %s; arrays given to the rule: mobility[:,0]=%s fractions=%s; by name: mobility[:,0]=%s fractions=%s'
                            % (names, None if sm is None else sm[:, 0].tolist(), None if sf is None else sf.tolist(), em[:, 0].tolist(), ef.tolist())})
        return False
    want = np.asarray(_rule_fn(rule)(sm.copy(), sf.copy(), labyrinth_factor=1), dtype=float)
    if r['avg'].shape != want.shape or not np.array_equal(np.isfinite(r['avg']), np.isfinite(want)) or \
            not np.allclose(r['avg'][np.isfinite(want)], want[np.isfinite(want)], rtol=1e-12, atol=0):
        viol.append({'sig': 'post-by-name/mode=%s/result/%s' % (mode, db), 'msg': tag + ': %r vs rule(arrays) %r' % (r['avg'], want)})
        return False
    return True


# ------------------------------------------------------------------------------------------------------
# evaluation histories with the cache enabled

HIST_MODES_T = [['none', None], ['predefined', 'FCC_A1'], ['predefined', 'BCC_A2'], ['majority', None],
                ['exclude', ['FCC_A1']], ['exclude', ['BCC_A2']], ['exclude', ['FCC_A1', 'BCC_A2']]]
HIST_MODES_Q = [['none', None], ['predefined', 'FCC_A1'], ['majority', None], ['exclude', ['BCC_A2']]]
# the first two points of each database share the composition and differ in temperature only
HIST_POINTS = {'FeCrNi': ['bcc+fcc', 'bcc-1573', 'fcc', 'fcc+bcc'], 'NiCrAl': ['bcc+fcc', 'fcc+bcc-1473', 'fcc', 'fcc+bcc']}
HIST_RULE = {'FeCrNi': 'wiener upper', 'NiCrAl': 'hashin lower'}


def _same(a, b):
    if a['exc'] is not None or b['exc'] is not None:
        return a['exc'] is not None and b['exc'] is not None and a['exctype'] == b['exctype']
    for k in ('avg', 'mu'):
        x, y = a[k], b[k]
        if x.shape != y.shape or not np.array_equal(np.isfinite(x), np.isfinite(y)):
            return False
        m = np.isfinite(x)
        # 1e-9: a fresh table recomputes the equilibrium (solver repeatability); a warmed one must return the stored data
        if not np.allclose(x[m], y[m], rtol=1e-9, atol=0):
            return False
    return True


def run_hist(case):
    db, prefix, ops = case['db'], case['prefix'], case['ops']
    therm = _therm(db)
    rule = HIST_RULE[db]
    viol = []

    def ev(op, table):
        pt = _point(db, op[0])
        return eval_point(therm, pt['x'], pt['T'], rule, op[1], op[2], table)
    fresh = {}

    def fresh_of(op):
        k = repr(op)
        if k not in fresh:
            fresh[k] = ev(op, HashTable())
        return fresh[k]
    nhist = nev = 0
    outs = set()
    tails = ([[]] + [[o] for o in ops]) if case['extend'] else [[]]
    for tail in tails:
        h = [list(o) for o in prefix] + [list(o) for o in tail]
        table = HashTable()
        nhist += 1
        for k, op in enumerate(h):
            r = ev(op, table)
            nev += 1
            if k < len(h) - 1:
                continue                     # earlier steps are the last steps of the shorter histories (enumerated too)
            if not _same(r, fresh_of(op)):
                prior = [o[1] for o in h[:k] if o[0] == op[0] and o[1] != 'none']
                visited = any(o[0] == op[0] for o in h[:k])
                f = fresh_of(op)
                # discriminating attribute: the most recent modifying mode evaluated before at the same point; if the point was
                # never evaluated before (or only unmodified) the table handed back something it should not have
                after = prior[-1] if prior else ('unmodified-visit' if visited else 'other-point-only')
                viol.append({'sig': ('cache-mutation/mode=%s/differs-from-fresh/%s' % (after, db)) if prior else
                                    ('hist/differs-from-fresh/after=%s/%s' % (after, db)),
                             'msg': '%s history %s: step %d %s(%s) at %s gives %s, on a fresh table %s'
                                    % (db, [[o[0], o[1], o[2]] for o in h], k + 1, op[1], op[2], op[0],
                                       r['exc'] or r['avg'].tolist(), f['exc'] or f['avg'].tolist())})
                outs.add('differs')
            else:
                outs.add('exc-same' if r['exc'] else 'same')
    return {'viol': _dedup(viol), 'states': nhist, 'transitions': nev, 'traces': nhist, 'outcome': '+'.join(sorted(outs))}


# ------------------------------------------------------------------------------------------------------

def run(ctx):
    quick = ctx.quick
    ctx.rule = ('avg: phase count x every lattice column (incl. undefined) x simplex lattice x every row order x 5 rules; '
                'post: database lists x ordered stable subsets x row patterns x fraction orders x all post-process modes through '
                'computeHomogenizationFunction with a pre-filled HashTable; real: listed points x modes x rules x table/no table; '
                'hist: every (point, mode) history of length <= 3 on a shared table.  non-trivial = case with >= 1 defined, '
                'supported column / >= 1 evaluation')
    lat = LAT_Q if quick else LAT_T
    acases = []
    for P in (1, 2, 3, 4):
        n = {1: 1, 2: 4, 3: 3 if quick else 4, 4: 2 if quick else 4}[P]
        frs = simplex(P, n)
        if P >= 2:
            frs.append([1e-9, 1 - 1e-9] + [0.0] * (P - 2))
            frs.append([1 / 3, 2 / 3] + [0.0] * (P - 2))
        if P >= 3 and not quick:
            frs.append([0.7, 0.2, 0.1] + [0.0] * (P - 3))
        for f in frs:
            acases.append({'P': P, 'fr': f, 'lat': lat})
    ctx.product_run('avg', 'checks.c17:run_avg', acases, chunksize=1)
    ctx.product_run('dispatch', 'checks.c17:run_dispatch', [{'rule': r, 'how': h} for r in RULES for h in ('ctor', 'setter')])

    pcases = []
    for D in ([['A', 'B', 'C']] if quick else [['A', 'B', 'C'], ['A', 'B', 'C', 'D']]):
        for k in range(1, len(D) + 1):
            # stable sets WITH repetition: a phase can be stable with two composition sets (miscibility gap), so its
            # name then appears twice in MobilityData.phases
            for S in itertools.product(D, repeat=k):
                if k == len(D) and len(D) == 4 and len(set(S)) < 3:
                    continue
                pcases.append({'D': D, 'S': list(S), 'rules': ['wiener upper'] if quick else ['wiener upper', 'hashin lower']})
    ctx.product_run('post', 'checks.c17:run_post', pcases, chunksize=1)

    # real databases: build and warm up in the parent so that the workers inherit them
    pts = {}
    for db in POINTS:
        th = _therm(db)
        for p in POINTS[db]:
            md = computeMobility(th, p['x'], p['T'])
            pts['%s/%s' % (db, p['label'])] = {'x': p['x'], 'T': p['T'], 'phases': list(md.phases[0]),
                                               'fractions': [round(float(v), 6) for v in md.phase_fractions[0]]}
    ctx.extra['real_points'] = pts
    rcases = [{'db': db, 'point': p['label']} for db in POINTS for p in POINTS[db]]
    ctx.product_run('real', 'checks.c17:run_real', rcases, chunksize=1)

    hm = HIST_MODES_Q if quick else HIST_MODES_T
    hcases = []
    for db in HIST_POINTS:
        hp_ = HIST_POINTS[db][:2] if quick else HIST_POINTS[db]
        ops = [[p, m[0], m[1]] for p in hp_ for m in hm]
        # one case = a prefix of length 2 extended by every third operation (plus the prefix itself); length-1
        # histories ride along with the first prefix of each first operation
        for o1 in ops:
            hcases.append({'db': db, 'prefix': [o1], 'ops': ops, 'extend': False})
            for o2 in ops:
                hcases.append({'db': db, 'prefix': [o1, o2], 'ops': ops, 'extend': True})
    ctx.product_run('hist', 'checks.c17:run_hist', hcases, chunksize=1)

    ctx.bounds = {'phase_counts': [1, 2, 3, 4], 'mobility_lattice': lat, 'labyrinth': LABS,
                  'fraction_lattice': 'simplex k/n (n=4; quick: n=3 for 3 phases, n=2 for 4) + (1e-9,1-1e-9) + (1/3,2/3) + (0.7,0.2,0.1)',
                  'post_db_lists': [c for c in ([['A', 'B', 'C']] if quick else [['A', 'B', 'C'], ['A', 'B', 'C', 'D']])],
                  'post_row_patterns': ['def', 'undef', 'part'], 'real_modes': REAL_MODES, 'history_depth': 3,
                  'history_ops_per_db': len(hm) * (2 if quick else 4), 'history_modes': hm}
    ctx.assumptions = [
        'bound / ordering / single-phase clauses are asserted for columns whose entries are all defined and positive; with '
        'undefined entries only the documented "ignored" convention, phase-order invariance and finiteness are asserted',
        'columns in which no defined phase carries a fraction are outside the statement (recorded as no-defined-support)',
        'Hashin-Shtrikman tolerance 1e-12 + 64 eps * contrast: the algebraic form used loses ~eps*contrast (3e-2 at 1e15)',
        'post stage reaches the post-process functions through computeHomogenizationFunction with a table that already '
        'holds the point; the database object then only supplies phases / elements',
        'real points are listed with their stable phases in coverage.real_points; none has a miscibility gap',
        'fresh-vs-warmed comparisons use rtol 1e-9 (a fresh table recomputes the equilibrium)',
    ]
