"""Analytic thermodynamic environments (engine E4) handed to PrecipitateModel through the public
`thermodynamics=` / setThermodynamics slot.  They implement exactly the methods the precipitation
model calls and are internally consistent by construction:

binary   : dilute ideal matrix, stoichiometric precipitate(s) with solute fraction xb
           dG(x,T)      = R T xb ln(x / x_e(T))                (J per mole of precipitate)
           x_alpha(T,g) = x_e(T) exp(g / (xb R T))             (matrix composition in equilibrium with a particle
                                                                carrying Gibbs-Thomson energy g)  => dG(x_alpha(T,g),T) = g
           x_e(T)       = A exp(-Q/(R T)), invertible: T = -Q / (R ln(x_e/A))
           sentinel -1 above a stability limit x_alpha >= xlim
ternary  : dilute ideal matrix with solutes 1,2; precipitate (xb1, xb2), solubility product K(T);
           growth through kawin's own `_growthRateOutputFromCurvature` fed with a synthetic CurvatureOutput.

A call counter per method and a fault schedule make the same objects the fault injector of C03.
"""
import math

import numpy as np

R = 8.314
XMIN = 1e-14


class Faults:
    """Deviation schedule: {method name: set of call indices (0-based) at which the documented
    'no result' answer is returned}.  Counts every interceptable call."""

    def __init__(self, schedule=None):
        self.schedule = {k: set(v) for k, v in (schedule or {}).items()}
        self.calls = {}
        self.fired = []

    def hit(self, name):
        i = self.calls.get(name, 0)
        self.calls[name] = i + 1
        if i in self.schedule.get(name, ()):
            self.fired.append((name, i))
            return True
        return False


class BinaryPhase:
    def __init__(self, name, xb=0.25, A=8.0, Q=60000.0, xlim=None):
        # stability limit of the interfacial matrix composition: well below the pole of the binary growth law at
        # x_alpha = x_beta * Vm_alpha / Vm_beta (0.77 x_beta for the largest molar-volume ratio used), which no real
        # interfacial composition approaches
        self.name, self.xb, self.A, self.Q, self.xlim = name, xb, A, Q, (0.5 * xb if xlim is None else xlim)

    def xe(self, T):
        return self.A * np.exp(-self.Q / (R * np.asarray(T, dtype=float)))

    def T_of_xe(self, xe):
        return -self.Q / (R * math.log(xe / self.A))


class SynthBinary:
    numElements = 2

    def __init__(self, phases, D0=1e-5, Qd=150000.0, faults=None, matrix='ALPHA'):
        self.prec = {p.name: p for p in phases}
        self.phases = [matrix] + [p.name for p in phases]
        self.elements = ['A', 'B']
        self.D0, self.Qd = D0, Qd
        self.faults = faults or Faults()
        self.log = []

    def _p(self, precPhase):
        return self.prec[self.phases[1] if precPhase is None else precPhase]

    def clearCache(self):
        pass

    # --- queries --------------------------------------------------------------------------------
    def getDrivingForce(self, x, T, precPhase=None, removeCache=False, local_phase_sampling_conditions=None):
        p = self._p(precPhase)
        x = np.atleast_1d(np.squeeze(np.asarray(x, dtype=float)))
        T = np.atleast_1d(np.asarray(T, dtype=float))
        if self.faults.hit('getDrivingForce'):
            return None, None
        # like a CALPHAD backend (minimum site fraction), the stub keeps the composition away from exactly 0
        x = np.clip(x, XMIN, 1.0)
        dg = R * T * p.xb * np.log(x / p.xe(T))
        comp = np.where(dg > 0, p.xb, np.nan)
        return np.squeeze(dg), np.squeeze(comp)

    def getInterfacialComposition(self, T, gExtra=0, precPhase=None):
        p = self._p(precPhase)
        T = np.atleast_1d(np.asarray(T, dtype=float))
        g = np.atleast_1d(np.asarray(gExtra, dtype=float))
        if len(T) != len(g):
            if len(T) == 1:
                T = np.repeat(T, len(g))
            else:
                g = np.repeat(g, len(T))
        with np.errstate(over='ignore'):
            xa = p.xe(T) * np.exp(g / (p.xb * R * T))
        xbv = np.full(xa.shape, p.xb)
        unstable = ~(xa < p.xlim)
        xa = np.where(unstable, -1.0, xa)
        xbv = np.where(unstable, -1.0, xbv)
        if self.faults.hit('getInterfacialComposition'):
            xa = -1.0 * np.ones(xa.shape)
            xbv = -1.0 * np.ones(xa.shape)
        return np.squeeze(xa), np.squeeze(xbv)

    def _D(self, T):
        return self.D0 * np.exp(-self.Qd / (R * np.asarray(T, dtype=float)))

    def getInterdiffusivity(self, x, T, removeCache=True, phase=None):
        T = np.atleast_1d(np.asarray(T, dtype=float))
        return np.squeeze(self._D(T))

    def getTracerDiffusivity(self, x, T, removeCache=True, phase=None):
        T = np.atleast_1d(np.asarray(T, dtype=float))
        d = self._D(T)
        return np.squeeze(np.stack([d, d], axis=1))


class TernaryPhase:
    def __init__(self, name, xb=(0.2, 0.05), K0=3.0, Q=40000.0, gba=0.0):
        self.name = name
        self.xb = np.array(xb, dtype=float)
        self.K0, self.Q, self.gba = K0, Q, gba

    def lnK(self, T):
        return math.log(self.K0) - self.Q / (R * T)


class SynthTernary:
    """Two solutes in a dilute ideal matrix; precipitate with fixed solute fractions xb (optionally a small
    linear response of the precipitate composition through gba)."""
    numElements = 3

    def __init__(self, phases, D0=(2e-5, 5e-6), Qd=(150000.0, 150000.0), faults=None, matrix='ALPHA'):
        from kawin.thermo.MultiTherm import CurvatureOutput, _growthRateOutputFromCurvature
        self._CO, self._gro = CurvatureOutput, _growthRateOutputFromCurvature
        self.prec = {p.name: p for p in phases}
        self.phases = [matrix] + [p.name for p in phases]
        self.elements = ['A', 'B', 'C']
        self.D0, self.Qd = np.array(D0, dtype=float), np.array(Qd, dtype=float)
        self.faults = faults or Faults()
        self._last = {}

    def _p(self, precPhase):
        return self.prec[self.phases[1] if precPhase is None else precPhase]

    def clearCache(self):
        self._last = {}

    def _D(self, T):
        return self.D0 * np.exp(-self.Qd / (R * T))

    def getDrivingForce(self, x, T, precPhase=None, removeCache=False, local_phase_sampling_conditions=None):
        p = self._p(precPhase)
        x = np.atleast_2d(np.asarray(x, dtype=float))
        T = np.atleast_1d(np.asarray(T, dtype=float))
        if self.faults.hit('getDrivingForce'):
            return None, None
        dgs, comps = [], []
        for xi, Ti in zip(x, np.broadcast_to(T, (len(x),))):
            xi = np.clip(xi, XMIN, 1.0)
            dg = R * Ti * (float(np.sum(p.xb * np.log(xi))) - p.lnK(Ti))
            dgs.append(dg)
            comps.append(p.xb.copy() if dg > 0 else np.full(2, np.nan))
        return np.squeeze(np.array(dgs)), np.squeeze(np.array(comps))

    def _tie(self, x, T, p):
        """Equilibrium matrix composition on the mass-balance line through x:  c = (x - f xb)/(1 - f)."""
        lnK = p.lnK(T)
        x = np.clip(x, XMIN, 1.0)
        b0, b1 = float(p.xb[0]), float(p.xb[1])
        x1, x2 = float(x[0]), float(x[1])
        log = math.log

        def res(f):
            c1, c2 = (x1 - f * b0) / (1 - f), (x2 - f * b1) / (1 - f)
            if c1 <= 0 or c2 <= 0:
                return -1e300
            return b0 * log(c1) + b1 * log(c2) - lnK
        fmax = min(x1 / b0, x2 / b1) * (1 - 1e-12)
        lo, hi = -0.5, fmax
        if res(lo) < 0:
            return None
        # res is decreasing in f; bisect to double precision
        for _ in range(64):
            mid = 0.5 * (lo + hi)
            if res(mid) > 0:
                lo = mid
            else:
                hi = mid
        f = 0.5 * (lo + hi)
        return (np.array([x1, x2]) - f * p.xb) / (1 - f)

    def curvature(self, x, T, precPhase):
        p = self._p(precPhase)
        x = np.asarray(x, dtype=float).ravel()
        T = float(np.squeeze(T))
        c = self._tie(x, T, p)
        if c is None:
            return None
        D = self._D(T)
        x0 = 1 - float(np.sum(c))
        G2 = R * T * (np.diag(1.0 / c) + 1.0 / x0)
        invMob = G2 @ np.diag(1.0 / D)
        xbar = p.xb - c
        den = float(xbar @ invMob @ xbar)
        num = xbar / D
        xbar_full = np.concatenate([[-(np.sum(xbar))], xbar])
        xm_full = np.concatenate([[x0], c])
        dtr = np.concatenate([[float(np.mean(D))], D])
        beta = 1.0 / float(np.sum(xbar_full ** 2 / (dtr * xm_full)))
        return self._CO(dc=num / den, mc=1.0 / den, gba=p.gba * np.eye(2), beta=beta, c_eq_alpha=c, c_eq_beta=p.xb.copy())

    def getGrowthAndInterfacialComposition(self, x, T, dG, R_, gExtra, precPhase=None, removeCache=False, searchDir=None):
        name = self.phases[1] if precPhase is None else precPhase
        if self.faults.hit('getGrowthAndInterfacialComposition'):
            return None
        cur = self.curvature(x, T, name)
        if cur is None:
            return None
        self._last[name] = cur
        x = np.asarray(x, dtype=float).ravel()
        return self._gro(x, dG, R_, gExtra, cur)

    def impingementFactor(self, x, T, precPhase=None, removeCache=False, searchDir=None):
        name = self.phases[1] if precPhase is None else precPhase
        failed = self.faults.hit('impingementFactor')
        cur = None if failed else self.curvature(x, T, name)
        if cur is None:
            # documented behaviour of the real backend: fall back to the last valid value
            return self._last[name].beta if name in self._last else None
        self._last[name] = cur
        return cur.beta

    def getInterdiffusivity(self, x, T, removeCache=True, phase=None):
        return np.diag(self._D(float(np.squeeze(T))))

    def getTracerDiffusivity(self, x, T, removeCache=True, phase=None):
        D = self._D(float(np.squeeze(T)))
        return np.concatenate([[float(np.mean(D))], D])
