"""Precipitation harness: build a PrecipitateModel from a JSON configuration, run it under a trajectory
monitor (engine E3) and return the per-step trace.  Shared by C01, C02, C03, C11, C12, C13, C18, C19, C20.

The monitor observes through
  * the public coupling slot (addCouplingModel -> updateCoupledModel(model), once per accepted step), and
  * wrappers put on the *instance* the harness created (model._calcMassBalance, model._appendArrays) to capture
    the distribution the recorded row was computed from (it exists only before kawin's end-of-step clean-up).
    If those private names disappear the harness fails loudly (HarnessError), never silently.
"""
import math

import numpy as np

from . import synth_thermo as st

R = 8.314
VMA = 1.0e-5

SITES = ['bulk', 'dislocations', 'grain boundaries', 'grain edges', 'grain corners']

# ----------------------------------------------------------------------------------------------------------
# independent Clemm-Fisher geometric factors (P. J. Clemm, J. C. Fisher, Acta Metall. 3 (1955) 70), written from
# the paper; k = gamma_gb / (2 gamma_alpha-beta) = cos(theta)


def cf_factors(site, k):
    """returns (area factor a of alpha-beta interface, boundary area removed b, volume factor c) in units R^2,R^2,R^3"""
    if site in ('bulk', 'dislocations') or k == 0 and site in ('bulk', 'dislocations'):
        return 4 * math.pi, 0.0, 4 * math.pi / 3
    if site == 'grain boundaries':
        a = 4 * math.pi * (1 - k)
        b = math.pi * (1 - k * k)
        c = 2 * math.pi / 3 * (2 - 3 * k + k ** 3)
        return a, b, c
    if site == 'grain edges':
        al = math.asin(1 / (2 * math.sqrt(1 - k * k)))
        be = math.acos(k / math.sqrt(3 * (1 - k * k)))
        a = 12 * (math.pi / 2 - al - k * be)
        b = 3 * be * (1 - k * k) - k * math.sqrt(3 - 4 * k * k)
        c = 2 * (math.pi - 2 * al + k * k / 3 * math.sqrt(3 - 4 * k * k) - be * k * (3 - k * k))
        return a, b, c
    if site == 'grain corners':
        K = 4.0 / 3 * math.sqrt(1.5 - 2 * k * k) - 2 * k / 3
        phi = math.asin(K / (2 * math.sqrt(1 - k * k)))
        de = math.acos((math.sqrt(2) - k * math.sqrt(3 - K * K)) / (K * math.sqrt(1 - k * k)))
        a = 24 * (math.pi / 3 - k * phi - de)
        b = 3 * (2 * phi * (1 - k * k) - K * (math.sqrt(1 - k * k - K * K / 4) - K / math.sqrt(8)))
        c = 2 * (4 * (math.pi / 3 - de) + k * K * (math.sqrt(1 - k * k - K * K / 4) - K / math.sqrt(8)) - 2 * k * phi * (3 - k * k))
        return a, b, c
    raise KeyError(site)


# ----------------------------------------------------------------------------------------------------------
TEMPS = {
    'iso': lambda tf: 700.0,
    'iso_hot': lambda tf: 1150.0,
    'iso_mid': lambda tf: 900.0,
    'heat': lambda tf: (lambda t: 700.0 + 450.0 * min(max(t / tf, 0.0), 1.0)),
    'cool': lambda tf: (lambda t: 1150.0 - 450.0 * min(max(t / tf, 0.0), 1.0)),
    'slowheat': lambda tf: (lambda t: 700.0 + 30.0 * min(max(t / tf, 0.0), 1.0)),
    'hrh': lambda tf: ([0.0, 0.3 * tf / 3600, 0.6 * tf / 3600, tf / 3600], [700.0, 700.0, 900.0, 900.0]),
    'updown': lambda tf: ([0.0, 0.5 * tf / 3600, tf / 3600], [750.0, 1000.0, 750.0]),
    'jump': lambda tf: (lambda t: 700.0 if t < 0.3 * tf else 1150.0),        # step above the solvus
    'jumpdown': lambda tf: (lambda t: 1150.0 if t < 0.3 * tf else 700.0),    # quench
    # Al-Zr (real backend): 450 C hold, and a slow heating ramp 430 -> 480 C
    'alzr_iso': lambda tf: 723.15,
    'alzr_ramp': lambda tf: (lambda t: 703.15 + 50.0 * min(max(t / tf, 0.0), 1.0)),
}


def temp_fn(spec, tf):
    """The same schedule as a plain python callable T(t) (seconds), written independently of kawin."""
    v = TEMPS[spec](tf)
    if callable(v):
        return v
    if isinstance(v, tuple):
        hrs, Ts = v

        def f(t):
            h = t / 3600.0
            if h <= hrs[0]:
                return Ts[0]
            if h >= hrs[-1]:
                return Ts[-1]
            for i in range(len(hrs) - 1):
                if hrs[i] <= h <= hrs[i + 1]:
                    return Ts[i] + (Ts[i + 1] - Ts[i]) * (h - hrs[i]) / (hrs[i + 1] - hrs[i])
        return f
    return lambda t: v


DEFAULT = {
    'system': 'bin', 'nphases': 1, 'site': 'bulk', 'shape': 'sphere', 'ratio': 1.0, 'vm': 1.0, 'gamma': 0.1,
    'pbm': [1e-10, 1e-8, 75, 50, 100], 'adaptive': True, 'it': 'euler', 'temp': 'iso', 'precdiff': 'inf',
    'split': 1, 'preload': False, 'tf': 200.0, 'x0': None, 'record': True, 'constraints': {}, 'solve': {},
    'faults': None, 'gbe': 0.1, 'max_steps': 4000, 'phase_order': None, 'parents': False,
    'apc': [4, 4],          # atoms per unit cell of matrix / precipitates
    'voltype': 'VM',        # how the volumes are handed to kawin: molar volume, atomic (cell) volume or lattice parameter
    'minRadius': None,      # constraints.minRadius (None = kawin's default 3e-10)
    'Rmin': None,           # precipitateParameters[p].Rmin (None = default 3e-10)
    'beta': 1,              # setBetaBinary(functionType): 1 = Perez et al. (default), 2 = as for multicomponent systems
    'effdist': None,        # enableEffectiveDiffusionDistance(<bool>); None = leave kawin's default (enabled)
    'theta': None,          # setTheta(<float>): scaling of the incubation time; None = kawin's default (2)
    'between': None,        # {'minRadius': r}: setConstraints(minRadius=r) between consecutive solve calls of a split run (a population
                            # below the new threshold is discarded at once; its solute has to be back in the matrix)
    'strain': None,         # {phase name: {'eig': [e11, e22, e33], 'calc': bool}}: elastic strain energy per phase (travels with
                            # the phase name); calc=True makes the aspect ratio follow from the strain energy (needle shape)
}


def cfg_full(cfg):
    c = dict(DEFAULT)
    c.update(cfg)
    return c


class StepLimit(Exception):
    pass


def make_thermo(c, faults=None):
    f = st.Faults(faults)
    n = c['nphases']
    if c['system'] == 'bin':
        specs = [st.BinaryPhase('P1', 0.25, 8.0, 60000.0), st.BinaryPhase('P2', 0.5, 30.0, 62000.0),
                 st.BinaryPhase('P3', 0.2, 3.0, 55000.0)][:n]
        if c.get('phase_order'):
            specs = [specs[i] for i in c['phase_order']]
        return st.SynthBinary(specs, faults=f), [s.name for s in specs], ['B']
    if c['system'] == 'tern':
        # solubility products chosen so that x0 = (0.02, 0.01) has 3-4.5 kJ/mol driving force at 700 K and crosses the
        # solvus of the three phases at 1000 / 950 / 1050 K
        specs = [st.TernaryPhase('P1', (0.2, 0.05), 1.805, 13330.0, 0.0), st.TernaryPhase('P2', (0.1, 0.15), 1.435, 11400.0, 0.02),
                 st.TernaryPhase('P3', (0.05, 0.2), 1.537, 13499.0, 0.0)][:n]
        if c.get('phase_order'):
            specs = [specs[i] for i in c['phase_order']]
        return st.SynthTernary(specs, faults=f), [s.name for s in specs], ['B', 'C']
    if c['system'] == 'alzr':
        # real pycalphad backend (conformance for the analytic environments): Al-Zr, FCC_A1 + AL3ZR, database string shipped
        # with the repository's tests; the object is built once per process and shared (its caches are part of what is tested)
        return real_thermo('alzr'), ['AL3ZR'], ['ZR']
    raise KeyError(c['system'])


_REAL = {}


def real_thermo(name):
    if name not in _REAL:
        if name == 'alzr':
            from kawin.tests.datasets import ALZR_TDB
            from kawin.thermo import BinaryThermodynamics
            th = BinaryThermodynamics(ALZR_TDB, ['AL', 'ZR'], ['FCC_A1', 'AL3ZR'], drivingForceMethod='tangent')
            th.setDFSamplingDensity(2000)
            th.setEQSamplingDensity(500)
            th.setDiffusivity(lambda T: 0.0768 * np.exp(-242000 / (8.314 * T)), 'FCC_A1')
            th.faults = st.Faults()
            _REAL[name] = th
        else:
            raise KeyError(name)
    return _REAL[name]


PHASE_PARAMS = {   # per analytic phase: gamma multiplier, Vm multiplier, default site override
    'P1': (1.0, 1.0), 'P2': (1.3, 1.1), 'P3': (0.8, 0.95),
}


def build_model(cfg, therm=None, names=None, elements=None):
    from kawin.precipitation import PrecipitateModel
    from kawin.precipitation.parameters.Volume import VolumeParameter
    c = cfg_full(cfg)
    if therm is None:
        therm, names, elements = make_thermo(c, c.get('faults'))
    m = PrecipitateModel(phases=names, elements=elements)
    pb = c['pbm']
    m.setPBMParameters(cMin=pb[0], cMax=pb[1], bins=pb[2], minBins=pb[3], maxBins=pb[4], adaptive=c['adaptive'])
    x0 = c['x0']
    if x0 is None:
        x0 = (4e-3 if c['system'] == 'alzr' else 0.01) if len(elements) == 1 else [0.02, 0.01]
    m.setInitialComposition(x0)
    tf = c['tf']
    tv = TEMPS[c['temp']](tf)
    if isinstance(tv, tuple):
        m.setTemperature(tv[0], tv[1])
    else:
        m.setTemperature(tv)
    NA = 6.02214076e23

    def volume_args(vm, apc):
        # the same molar volume expressed the way the configuration asks for (kawin converts back)
        if c['voltype'] == 'VM':
            return vm, VolumeParameter.MOLAR_VOLUME, apc
        va = vm * apc / NA
        if c['voltype'] == 'VA':
            return va, VolumeParameter.ATOMIC_VOLUME, apc
        return va ** (1.0 / 3.0), VolumeParameter.LATTICE_PARAMETER, apc
    m.setVolumeAlpha(*volume_args(VMA, c['apc'][0]))
    m.setNucleationDensity(grainSize=1, dislocationDensity=1e15)
    m.setGrainBoundaryEnergy(c['gbe'])
    sites = c['site'] if isinstance(c['site'], list) else [c['site']] * len(names)
    for i, nme in enumerate(names):
        gm, vmm = PHASE_PARAMS.get(nme, (1.0, 1.0))
        m.setInterfacialEnergy(c['gamma'] * gm, phase=nme)
        vb, vt, va_ = volume_args(VMA * c['vm'] * vmm, c['apc'][1])
        m.setVolumeBeta(vb, vt, va_, phase=nme)
        if c['Rmin'] is not None:
            m.precipitateParameters[i].Rmin = c['Rmin']
        if c['shape'] != 'sphere' and sites[i] in ('bulk', 'dislocations'):
            m.setPrecipitateShape(c['shape'], phase=nme, ratio=c['ratio'])
        m.setNucleationSite(sites[i], phase=nme)
        m.setInfinitePrecipitateDiffusivity(c['precdiff'] == 'inf', phase=nme)
        if c['strain'] and nme in c['strain']:
            sp = c['strain'][nme]
            pp_ = m.precipitateParameters[i]
            pp_.strainEnergy.setElasticConstants(168.4e9, 121.4e9, 75.4e9)
            pp_.strainEnergy.setEigenstrain(sp['eig'])
            if sites[i] in ('bulk', 'dislocations'):
                pp_.shapeFactor.setPrecipitateShape('needle')
                pp_.calculateAspectRatio = bool(sp.get('calc', False))
    if c['parents'] and len(names) > 1:
        m.setParentPhases(names[1], [names[0]])
    if c['constraints']:
        m.setConstraints(**c['constraints'])
    if c['minRadius'] is not None:
        m.setConstraints(minRadius=c['minRadius'])
    m.setThermodynamics(therm)
    if c['effdist'] is not None:
        m.enableEffectiveDiffusionDistance(c['effdist'])
    if c['theta'] is not None:
        m.setTheta(c['theta'])
    if c['beta'] != 1:
        m.setBetaBinary(c['beta'])
    if c['record']:
        m.setPSDrecording(True, 'all')
    if c['preload']:
        m.setup()      # setup() resets the PBMs, so a distribution can only be loaded after it (setup is idempotent)
        for p in range(len(names)):
            r = m.PBM[p].PSDsize
            # preload = True: a dilute population; a number = peak density (a dense one makes the volume-fraction cap act)
            m.PBM[p].PSD = (1e20 if c['preload'] is True else float(c['preload'])) * np.exp(-0.5 * (np.log(r / 2e-9) / 0.25) ** 2)
    return m, therm, c


class Monitor:
    """Per-step capture.  rows[n] (n >= 1) describes recorded step n."""

    def __init__(self, model, max_steps, hooks=True):
        self.m = model
        self.max_steps = max_steps
        self.rows = [{'post': self._snap(model)}]
        self._last_mb = None
        self._jst = []
        self.events = []
        model.addCouplingModel(self)
        if hooks:
            for nm in ('_calcMassBalance', '_appendArrays', '_calcNucleationRate'):
                if not callable(getattr(model, nm, None)):
                    raise RuntimeError('private method %s vanished: the monitor must be adapted' % nm)
            orig_mb, orig_ap, orig_nr = model._calcMassBalance, model._appendArrays, model._calcNucleationRate

            def nr(t, x, Y):
                Y = orig_nr(t, x, Y)
                self._jst.append(np.array(Y.nucRate[0], dtype=float, copy=True))
                return Y

            def mb(t, x, Y):
                self._last_mb = {
                    't': float(t),
                    'x': [np.array(xi, dtype=float, copy=True) for xi in x],
                    'size': [np.array(p.PSDsize, copy=True) for p in model.PBM],
                    'bounds': [np.array(p.PSDbounds, copy=True) for p in model.PBM],
                    'xbeta': [None if b is None else np.array(b, dtype=float, copy=True) for b in model.PSDXbeta],
                    'prev': [np.array(p.PSD, dtype=float, copy=True) for p in model.PBM],
                    'rdf': np.array(model.RdrivingForceIndex, copy=True),
                }
                return orig_mb(t, x, Y)

            def ap(newVals):
                self.rows.append({'mb': self._last_mb, 'jstages': self._jst})
                self._last_mb = None
                self._jst = []
                return orig_ap(newVals)
            model._calcMassBalance = mb
            model._appendArrays = ap
            model._calcNucleationRate = nr
        self.hooks = hooks

    @staticmethod
    def _snap(model):
        growth = getattr(model, 'growth', None) or [None] * len(model.PBM)
        return {
            'psd': [np.array(p.PSD, dtype=float, copy=True) for p in model.PBM],
            'bounds': [np.array(p.PSDbounds, copy=True) for p in model.PBM],
            'bins': [p.bins for p in model.PBM],
            'growth': [None if g is None else np.array(g, dtype=float, copy=True) for g in growth],
            'rdf': np.array(getattr(model, 'RdrivingForceIndex', np.zeros(len(model.PBM), dtype=int)), copy=True),
        }

    def updateCoupledModel(self, model):
        n = model.pData.n
        if self.hooks:
            row = self.rows[n]
        else:
            row = {}
            self.rows.append(row)
        row['post'] = self._snap(model)
        if n > self.max_steps:
            raise StepLimit()


def run_model(cfg, monitor=True, hooks=True, therm_pack=None):
    """Build and run.  Returns dict(model, therm, cfg, monitor, error, segments)."""
    from kawin.solver.Solver import SolverType
    tp = therm_pack or (None, None, None)
    try:
        m, therm, c = build_model(cfg, *tp)
    except Exception as e:   # the model raised while being configured / set up (setup() runs for preloaded runs)
        import traceback
        tb = traceback.extract_tb(e.__traceback__)
        where = '%s:%s' % (tb[-1].filename.split('/')[-1], tb[-1].name) if tb else '?'
        return {'model': None, 'therm': None, 'cfg': cfg_full(cfg), 'monitor': None,
                'error': (type(e).__name__, '%s at %s (while building)' % (e, where)), 'segments': []}
    mon = Monitor(m, c['max_steps'], hooks) if monitor else None
    it = SolverType.EXPLICITEULER if c['it'] == 'euler' else SolverType.RK4
    err = None
    segs = []
    tf = c['tf']
    parts = c['split']
    try:
        for k in range(parts):
            m.solve(tf / parts, solverType=it, **c['solve'])
            segs.append(m.pData.n)
            if c.get('between') and k < parts - 1:
                m.setConstraints(**c['between'])
    except StepLimit:
        err = ('StepLimit', 'more than %d accepted steps' % c['max_steps'])
    except Exception as e:   # exceptions of the code under test are data for the checks
        import traceback
        tb = traceback.extract_tb(e.__traceback__)
        where = '%s:%s' % (tb[-1].filename.split('/')[-1], tb[-1].name) if tb else '?'
        err = (type(e).__name__, '%s at %s' % (e, where))
    return {'model': m, 'therm': therm, 'cfg': c, 'monitor': mon, 'error': err, 'segments': segs}
