"""A small harness-owned database with an interstitial sublattice: fcc (FE,CR)1(C,N,VA)1 with mobility parameters.

None of the databases shipped with kawin contains an interstitial element, so the u-fraction branch of the diffusion code
(interstitials do not count in the denominator of u_k = x_k / sum_substitutional x_j) is unreachable with them.  The numbers are
invented but physically ordinary (regular-solution interactions, Arrhenius mobilities); nothing in the checks depends on them
beyond the single-phase fcc region being stable at the lattice points used.
"""

TDB = """
ELEMENT /-   ELECTRON_GAS              0.0000E+00  0.0000E+00  0.0000E+00!
ELEMENT VA   VACUUM                    0.0000E+00  0.0000E+00  0.0000E+00!
ELEMENT C    GRAPHITE                  1.2011E+01  1.0540E+03  5.7400E+00!
ELEMENT CR   BCC_A2                    5.1996E+01  4.0500E+03  2.3560E+01!
ELEMENT FE   BCC_A2                    5.5847E+01  4.4890E+03  2.7280E+01!
ELEMENT N    1/2_MOLE_N2(G)            1.4007E+01  4.3350E+03  9.5751E+01!

TYPE_DEFINITION % SEQ *!
DEFINE_SYSTEM_DEFAULT ELEMENT 2 !
DEFAULT_COMMAND DEF_SYS_ELEMENT VA /- !

PHASE FCC_A1 % 2 1 1 !
CONSTITUENT FCC_A1 : CR,FE : C,N,VA : !

PARAMETER G(FCC_A1,FE:VA;0) 298.15 -1200-11*T; 6000 N !
PARAMETER G(FCC_A1,CR:VA;0) 298.15 +3100-9*T; 6000 N !
PARAMETER G(FCC_A1,FE:C;0)  298.15 +42000-24*T; 6000 N !
PARAMETER G(FCC_A1,CR:C;0)  298.15 -9000-21*T; 6000 N !
PARAMETER G(FCC_A1,FE:N;0)  298.15 +18000-29*T; 6000 N !
PARAMETER G(FCC_A1,CR:N;0)  298.15 -52000-23*T; 6000 N !
PARAMETER G(FCC_A1,CR,FE:VA;0) 298.15 +7400-3*T; 6000 N !
PARAMETER G(FCC_A1,FE:C,VA;0)  298.15 -28000; 6000 N !
PARAMETER G(FCC_A1,FE:N,VA;0)  298.15 -23000; 6000 N !
PARAMETER G(FCC_A1,CR,FE:C;0)  298.15 -12000; 6000 N !

PARAMETER MQ(FCC_A1&C,*:*)  298.15 -151000+R*T*LN(2.3E-5); 6000 N !
PARAMETER MQ(FCC_A1&N,*:*)  298.15 -166000+R*T*LN(8.1E-5); 6000 N !
PARAMETER MQ(FCC_A1&FE,*:*) 298.15 -289000+R*T*LN(6.6E-5); 6000 N !
PARAMETER MQ(FCC_A1&CR,*:*) 298.15 -262000+R*T*LN(3.4E-5); 6000 N !
"""

INTERSTITIALS = ('C', 'N')
# MQ = Q + R T ln(M0)  ->  M_k = exp(MQ / RT) / RT = M0 exp(Q / RT) / RT
MQ = {'C': (-151000.0, 2.3e-5), 'N': (-166000.0, 8.1e-5), 'FE': (-289000.0, 6.6e-5), 'CR': (-262000.0, 3.4e-5)}
