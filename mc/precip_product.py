"""Configuration products shared by the trajectory checks (C01, C02, C03, C12)."""
from . import core

NEEDS_BULK = ('needle', 'plate', 'cubic')


def valid(c):
    site = c.get('site', 'bulk')
    if c.get('shape', 'sphere') != 'sphere' and site not in ('bulk', 'dislocations'):
        return False          # kawin raises for non-spherical shapes on grain-boundary sites (documented)
    return True


PBM_A = [1e-10, 1e-8, 75, 50, 100]
PBM_B = [2e-10, 5e-9, 20, 10, 40]
PBM_C = [1e-10, 2e-9, 40, 20, 80]


def _mk(levels, base):
    out = []
    for c in core.product(levels, valid):
        d = dict(base)
        d.update(c)
        out.append(d)
    return out


def main_product(tier):
    """system x phases x site x iterator x temperature programme x precipitate diffusion (x Vm x split in thorough)"""
    quick = tier == 'quick'
    levels = {
        'system': ['bin', 'tern'],
        'nphases': [1, 2] if quick else [1, 2, 3],
        'site': ['bulk', 'grain boundaries'] if quick else ['bulk', 'dislocations', 'grain boundaries', 'grain edges', 'grain corners'],
        'it': ['euler', 'rk4'],
        'temp': ['iso', 'heat', 'cool'] if quick else ['iso', 'heat', 'cool', 'hrh', 'updown'],
        'precdiff': ['inf', 'none'],
    }
    if not quick:
        levels['vm'] = [0.8, 1.3]
    return _mk(levels, {'tf': 20.0, 'constraints': {'dtScale': 0.05}, 'max_steps': 8000})


def second_product(tier):
    """molar-volume ratio x solve split (1 or 3 consecutive solve calls) x site types"""
    quick = tier == 'quick'
    levels = {
        'system': ['bin', 'tern'],
        'vm': [0.8, 1.3],
        'split': [1, 3],
        'it': ['euler', 'rk4'],
        'temp': ['iso', 'hrh'] if quick else ['iso', 'hrh', 'heat', 'slowheat'],
        'site': ['dislocations', 'grain corners'] if quick else ['bulk', 'dislocations', 'grain boundaries', 'grain edges', 'grain corners'],
    }
    return _mk(levels, {'tf': 20.0, 'constraints': {'dtScale': 0.05}, 'max_steps': 8000})


def units_product(tier):
    """how the cell volumes are specified (molar / cell volume / lattice parameter, different atoms per cell for matrix and
    precipitate) x the two small-radius thresholds (constraints.minRadius, precipitate Rmin) made different from each other"""
    quick = tier == 'quick'
    levels = {
        'system': ['bin', 'tern'],
        'apc': [[4, 4], [4, 16]] if quick else [[4, 4], [4, 16], [2, 4]],
        'voltype': ['VM', 'a'] if quick else ['VM', 'VA', 'a'],
        'radii': [[None, None], [6e-10, None], [None, 6e-10]],     # (minRadius, Rmin)
        'it': ['euler'] if quick else ['euler', 'rk4'],
        'temp': ['iso', 'hrh'] if quick else ['iso', 'hrh', 'heat'],
    }
    out = []
    for c in _mk(levels, {'tf': 20.0, 'constraints': {'dtScale': 0.05}, 'max_steps': 8000, 'vm': 1.3}):
        c['minRadius'], c['Rmin'] = c.pop('radii')
        out.append(c)
    return out


def options_product(tier):
    """public model options that the other products leave at their defaults, one at a time: effective diffusion distance off,
    another incubation scaling (Wakeshima 4 pi), status printing during the run, the floor and the options together"""
    quick = tier == 'quick'
    opts = [{'effdist': False}, {'theta': 4 * 3.141592653589793}, {'solve': {'verbose': True, 'vIt': 7}},
            {'effdist': False, 'theta': 0.5, 'solve': {'verbose': True, 'vIt': 1}}]
    levels = {
        'system': ['bin', 'tern'],
        'nphases': [1, 2],
        'it': ['euler', 'rk4'],
        'opt': list(range(len(opts))),
        'temp': ['iso'] if quick else ['iso', 'hrh', 'heat'],
        'precdiff': ['inf'] if quick else ['inf', 'none'],
    }
    out = []
    for c in _mk(levels, {'tf': 20.0, 'max_steps': 8000, 'constraints': {'dtScale': 0.05}}):
        c.update(opts[c.pop('opt')])
        out.append(c)
    return out


def reconfigure_product(tier):
    """runs split over several solve calls with a public reconfiguration between the calls: constraints.minRadius raised above
    every populated size class (the whole population is discarded at once) or into the population (part of it)"""
    quick = tier == 'quick'
    levels = {
        'system': ['bin', 'tern'],
        'nphases': [1, 2],
        'it': ['euler', 'rk4'],
        'minR': [2e-8, 2e-9] if quick else [2e-8, 2e-9, 1e-9, 5e-9],
        'preload': [True, 5e21] if quick else [True, 5e21, 1e23],
        'split': [2] if quick else [2, 3],
        'temp': ['iso'] if quick else ['iso', 'hrh'],
    }
    out = []
    for c in _mk(levels, {'tf': 20.0, 'max_steps': 8000, 'constraints': {'dtScale': 0.05}}):
        c['between'] = {'minRadius': c.pop('minR')}
        out.append(c)
    return out


def floor_product(tier):
    """a positive constraints.minComposition that the matrix content of one solute crosses during the run (the matrix of the
    default alloys falls from 0.01 / 0.02 to 4e-4 / 1e-3): the documented clamp applies to NEGATIVE mass-balance values only"""
    quick = tier == 'quick'
    levels = {
        'system': ['bin', 'tern'],
        'nphases': [1, 2],
        'it': ['euler', 'rk4'],
        'floor': [0.005] if quick else [0.005, 0.002, 1e-5],
        'precdiff': ['inf'] if quick else ['inf', 'none'],
        'temp': ['iso'] if quick else ['iso', 'hrh'],
    }
    out = []
    for c in _mk(levels, {'tf': 20.0, 'max_steps': 8000}):
        c['constraints'] = {'dtScale': 0.05, 'minComposition': c.pop('floor')}
        out.append(c)
    return out


def shape_product(tier):
    quick = tier == 'quick'
    levels = {
        'system': ['bin', 'tern'],
        'shape': ['needle', 'plate', 'cubic'],
        'ratio': [3.0],
        'pbm': [PBM_A, PBM_B] if quick else [PBM_A, PBM_B, PBM_C],
        'adaptive': [True, False],
        'preload': [False, True],
        'it': ['euler'] if quick else ['euler', 'rk4'],
        'gamma': [0.1],
        'temp': ['iso'] if quick else ['iso', 'hrh', 'heat'],
    }
    return _mk(levels, {'tf': 20.0, 'constraints': {'dtScale': 0.05}, 'max_steps': 8000, 'site': 'bulk'})


def default_product(tier):
    """Small product with kawin's default step-growth (dtScale 1e-3): long runs, few configurations."""
    quick = tier == 'quick'
    levels = {
        'system': ['bin', 'tern'],
        'it': ['euler', 'rk4'],
        'temp': ['iso'] if quick else ['iso', 'cool', 'hrh'],
        'precdiff': ['inf', 'none'] if not quick else ['inf'],
        'site': ['dislocations'] if quick else ['dislocations', 'grain corners'],
    }
    base = {'tf': 20.0, 'max_steps': 12000}
    out = []
    for c in core.product(levels, valid):
        d = dict(base)
        d.update(c)
        out.append(d)
    return out


def real_product(tier):
    """Conformance of the analytic environments: the same oracles on a real pycalphad backend (Al-Zr, FCC_A1 + AL3ZR)."""
    quick = tier == 'quick'
    base = {'system': 'alzr', 'site': 'dislocations', 'tf': 3.6e5, 'constraints': {'dtScale': 0.05}, 'max_steps': 4000}
    cases = [{'temp': 'alzr_iso', 'it': 'euler'}, {'temp': 'alzr_iso', 'it': 'rk4', 'split': 3}]
    if not quick:
        cases += [{'temp': 'alzr_ramp', 'it': 'euler'}, {'temp': 'alzr_iso', 'it': 'euler', 'precdiff': 'none'},
                  {'temp': 'alzr_iso', 'it': 'euler', 'site': 'grain boundaries', 'gbe': 0.1},
                  {'temp': 'alzr_iso', 'it': 'rk4', 'vm': 1.3, 'adaptive': False}]
    out = []
    for c in cases:
        d = dict(base)
        d.update(c)
        out.append(d)
    return out
