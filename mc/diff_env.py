"""Analytic environments for the diffusion models (DESIGN.md E4), used by checks/c04.py.

SinglePhaseModel reaches thermodynamics only through
    therm.clearCache()                                     (Diffusion.setup / reset)
    therm.getInterdiffusivity(x[:, i], T[i], phase=...)    (SinglePhase._getFluxes, once per node and evaluation)
and expects a scalar for a binary system, an (e-1, e-1) matrix for a multicomponent one.

HomogenizationModel calls the module-level name `computeHomogenizationFunction`, which loops over the nodes and asks
`kawin.diffusion.HomogenizationParameters._computeSingleMobility(therm, x, T, unsortIndices, hashTable)` for a
`MobilityData(mobility (p, e), phases (p,), phase_fractions (p,), chemical_potentials (e,))` record per node; from
`therm` it reads `numElements`, `elements` (with 'VA' last) and `phases`.  Replacing *that* name (the only place
pycalphad is reached) keeps kawin's own averaging rules, hash table use, u-fraction and volume-fixed-frame code
in the loop.  `patched_single_mobility` swaps the name for the duration of one run and restores it.

Everything here is closed-form and deterministic; nothing is imported from the code under test except the
`MobilityData` record type the real function returns.
"""
import contextlib
import math

import numpy as np

R_GAS = 8.314
T_REF = 1200.0
D_REF = 1.0e-12          # m2/s at T_REF; order of magnitude of every analytic diffusivity
Q_ACT = 1.0e5            # J/mol


def arrhenius(T):
    return math.exp(-Q_ACT / R_GAS * (1.0 / float(T) - 1.0 / T_REF))


class AnalyticDiffusivity:
    """Composition and temperature dependent interdiffusivity.

    binary:   D(x, T)  = D_REF a(T) (0.5 + x)                                    scalar
    ternary:  D(x, T)  = D_REF a(T) [[0.5 + x1, 0.3 x1], [-0.2 x2, 0.4 + 0.5 x2]]  full matrix, both off-diagonals
    (eigenvalues stay positive and below 1.2 max|D_ij| on 0 <= x <= 1, so kawin's 0.4 dz^2 / max|D| step is stable)
    """

    def __init__(self, n_elements):
        self.numElements = n_elements
        self.calls = 0
        self.cleared = 0

    def clearCache(self):
        self.cleared += 1

    def getInterdiffusivity(self, x, T, removeCache=True, phase=None):
        self.calls += 1
        x = np.atleast_1d(np.asarray(x, dtype=float))
        a = D_REF * arrhenius(T)
        if self.numElements == 2:
            return a * (0.5 + x[0])
        return a * np.array([[0.5 + x[0], 0.3 * x[0]], [-0.2 * x[1], 0.4 + 0.5 * x[1]]])


class AnalyticMobilityTherm:
    """What computeHomogenizationFunction reads from the thermodynamics object."""

    def __init__(self, elements, phases=('ALPHA', 'BETA')):
        self.elements = list(elements) + ['VA']
        self.numElements = len(elements)
        self.phases = list(phases)
        self.cleared = 0
        self.calls = 0

    def clearCache(self):
        self.cleared += 1


M_SCALE = (1.0, 0.6, 1.7, 0.8)


def ideal_two_phase_point(therm, x, T):
    """Ideal-solution two-phase provider for one node.

    x_full = (1 - sum x, x...).  Phase fraction of BETA rises linearly with the first independent component between
    0.15 and 0.40 (so a profile crosses one- and two-phase nodes); mobilities M_ALPHA,e = M0_e(T) x_e, M_BETA,e = 8 M_ALPHA,e
    (already multiplied by the composition, as the real provider does); mu_e = R T ln x_e + 4000 (1 - x_e)^2.
    With these J_e = -M dmu/dz ~ -D_REF dx/dz, i.e. the same scale as AnalyticDiffusivity.
    """
    x = np.atleast_1d(np.asarray(x, dtype=float))
    xf = np.concatenate(([1.0 - np.sum(x)], x))
    fb = min(1.0, max(0.0, (x[0] - 0.15) / 0.25))
    m0 = D_REF * arrhenius(T) / (R_GAS * T_REF)
    malpha = np.array([m0 * M_SCALE[e] * xf[e] for e in range(len(xf))])
    mu = R_GAS * float(T) * np.log(xf) + 4000.0 * (1.0 - xf) ** 2
    if fb <= 0.0:
        return np.array([malpha]), np.array([therm.phases[0]]), np.array([1.0]), mu
    if fb >= 1.0:
        return np.array([8.0 * malpha]), np.array([therm.phases[1]]), np.array([1.0]), mu
    return np.array([malpha, 8.0 * malpha]), np.array(therm.phases[:2]), np.array([1.0 - fb, fb]), mu


def make_single_mobility(MobilityData):
    """Stand-in with the signature and the hash-table protocol of the real `_computeSingleMobility`."""

    def _computeSingleMobility(therm, x, T, unsortIndices, hashTable=None):
        data = None
        if hashTable is not None:
            data = hashTable.retrieveFromHashTable(x, T)
        if data is None:
            therm.calls += 1
            mob, phases, fracs, mu = ideal_two_phase_point(therm, x, T)
            data = MobilityData(mobility=mob, phases=phases, phase_fractions=fracs, chemical_potentials=mu)
            if hashTable is not None:
                hashTable.addToHashTable(x, T, data)
        return data

    return _computeSingleMobility


@contextlib.contextmanager
def patched_single_mobility():
    """Swap kawin.diffusion.HomogenizationParameters._computeSingleMobility for the analytic provider."""
    import importlib
    # (the package attribute of the same name is the class, so go through the module table)
    HP = importlib.import_module('kawin.diffusion.HomogenizationParameters')
    from kawin.diffusion.DiffusionParameters import MobilityData
    if not hasattr(HP, '_computeSingleMobility'):
        raise RuntimeError('seam kawin.diffusion.HomogenizationParameters._computeSingleMobility is gone')
    orig = HP._computeSingleMobility
    HP._computeSingleMobility = make_single_mobility(MobilityData)
    try:
        yield
    finally:
        HP._computeSingleMobility = orig
