"""Oracles evaluated on the trace of one precipitation run (see mc/precip.py).  Independent of kawin's own
bookkeeping wherever the analytic backend allows it (precipitate compositions, volume factors, molar volumes
come from the configuration, not from the model)."""
import numpy as np

from . import precip

EPS = np.finfo(float).eps


def _vf(c, names, i):
    sites = c['site'] if isinstance(c['site'], list) else [c['site']] * len(names)
    gm = precip.PHASE_PARAMS.get(names[i], (1.0, 1.0))[0]
    k = c['gbe'] / (2 * c['gamma'] * gm)
    return precip.cf_factors(sites[i], k)[2]


def _volratio(c, names, i):
    vmm = precip.PHASE_PARAMS.get(names[i], (1.0, 1.0))[1]
    return precip.VMA / (precip.VMA * c['vm'] * vmm)


def _xb_true(run, p):
    """Independent precipitate composition per phase for stoichiometric analytic phases, else None."""
    th = run['therm']
    if not hasattr(th, 'prec'):
        return None            # real backend: the precipitate composition comes from the model's own table
    nm = th.phases[1 + p]
    ph = th.prec[nm]
    if hasattr(ph, 'gba'):
        return np.array(ph.xb) if ph.gba == 0.0 else None
    return np.array([ph.xb])


def check_c01(run, tol_inf=1e-9, tol_none=1e-5, tol_nonstoich=1e-9):
    """Solute conservation at every recorded step."""
    if run['model'] is None:
        return [], {'steps': 0, 'clamped': 0, 'full': 0, 'populated_steps': 0, 'max_rel_err': 0.0}
    m, c, mon = run['model'], run['cfg'], run['monitor']
    d = m.pData
    names = list(m.phases)
    P, E = len(names), d.composition.shape[1]
    x0 = np.atleast_1d(np.array(d.composition[0], dtype=float))
    viol = []
    stats = {'steps': 0, 'clamped': 0, 'full': 0, 'populated_steps': 0, 'max_rel_err': 0.0}
    minc = m.constraints.minComposition
    seen = set()

    def bad(kind, n, msg):
        if kind not in seen:
            seen.add(kind)
            viol.append({'sig': kind, 'msg': 'step %d (t=%g): %s' % (n, d.time[n], msg)})
    N = min(d.n, len(mon.rows) - 1)
    # no-diffusion mode: solute of particles that the end-of-step clean-up removed stays booked in the history integral
    # (cumrem, in composition units), tracked here from the distributions before / after the clean-up of every step
    nodiff = c['precdiff'] != 'inf'
    cumrem = np.zeros((P, E))
    for n in range(1, N + 1):
        mb = mon.rows[n].get('mb')
        if mb is None:
            bad('no-capture', n, 'monitor has no mass-balance capture for this row')
            continue
        stats['steps'] += 1
        fv = np.zeros(P)
        F = np.zeros((P, E))
        Fown = np.zeros((P, E))
        m3x = np.zeros(P)
        for p in range(P):
            x, r = mb['x'][p], mb['size'][p]
            vr, vf = _volratio(c, names, p), _vf(c, names, p)
            m3 = float(np.sum(x * r ** 3))
            m3x[p] = m3
            fv[p] = min(vr * vf * m3, 1.0)
            if float(np.sum(x)) < m.constraints.minNucleateDensity:
                fv[p] = 0.0
                cumrem[p] = 0.0          # the model restarts the history integral of an empty phase
                continue
            xb = _xb_true(run, p)
            xbeta = mb['xbeta'][p]
            mid = None if xbeta is None else 0.5 * (xbeta[:-1] + xbeta[1:])
            for e in range(E):
                if mid is not None and mid.shape[0] == len(x):
                    Fown[p, e] = vr * vf * float(np.sum(x * r ** 3 * mid[:, e]))
                if xb is not None:
                    F[p, e] = vr * vf * m3 * xb[e]
                else:
                    F[p, e] = Fown[p, e]
            # the model's lookup of the precipitate composition must agree with the backend on populated classes
            if xb is not None and mid is not None and mid.shape[0] == len(x) and c['precdiff'] == 'inf':
                pop = x > 0
                if np.any(pop) and not np.allclose(mid[pop], xb[np.newaxis, :], rtol=1e-9, atol=0):
                    bad('C01/precipitate-composition-lookup/%s' % c['system'], n,
                        'populated classes carry precipitate composition %r, backend says %r' % (mid[pop][:3].tolist(), xb.tolist()))
        if np.any(fv > 0):
            stats['populated_steps'] += 1
        comp = np.atleast_1d(d.composition[n])
        if np.sum(fv) >= 1:
            stats['full'] += 1
            continue
        stoich = all(_xb_true(run, p) is not None for p in range(P))
        # with a stoichiometric precipitate the no-diffusion identity is exact once the booked-but-removed solute is accounted for;
        # otherwise (precipitate composition varying along the history) the tolerance of the plan applies
        tol = tol_inf if (c['precdiff'] == 'inf' or stoich) else tol_none
        booked = F + (cumrem if (nodiff and stoich) else 0.0)
        if nodiff and stoich:
            for e in range(E):
                lost = float(np.sum(cumrem[:, e])) / x0[e]
                stats['cleanup_loss'] = max(stats.get('cleanup_loss', 0.0), lost)
                if lost > 1e-9:
                    bad('C01/no-diffusion-cleanup-loss/%s' % c['system'], n,
                        'element %d: solute worth %.3g of the alloy content is booked in precipitates that the end-of-step clean-up has removed '
                        '(classes below the stability limit / minimum radius / holding < 1 particle, e.g. the first class after a re-mesh): '
                        'the matrix never gets it back in the no-diffusion mode' % (e, lost))
        for e in range(E):
            if comp[e] == minc and (x0[e] - np.sum(booked[:, e])) / (1 - np.sum(fv)) < 0:
                stats['clamped'] += 1      # documented clamp of a negative matrix composition
                continue
            total = (1 - np.sum(fv)) * comp[e] + np.sum(booked[:, e])
            err = abs(total - x0[e]) / x0[e]
            stats['max_rel_err'] = max(stats['max_rel_err'], float(err))
            if not (err <= tol):
                bad('C01/solute-not-conserved/%s/precdiff=%s' % (c['system'], c['precdiff']), n,
                    'element %d: (1-fv)*c + F = %.12g but x0 = %.12g (rel err %.3g); fv=%r c=%r F=%r' % (e, total, x0[e], err, fv.tolist(), comp.tolist(), F[:, e].tolist()))
        # recorded fconc / volFrac rows are the ones the identity is built from
        for p in range(P):
            if c['precdiff'] == 'inf' and float(np.sum(mb['x'][p])) >= m.constraints.minNucleateDensity:
                for e in range(E):
                    ref = Fown[p, e]
                    if abs(d.fconc[n, p, e] - ref) > 1e-9 * max(abs(ref), 1e-300) + 1e-300:
                        bad('C01/fconc-row/%s' % c['system'], n, 'recorded fconc %r vs sum over distribution %r' % (d.fconc[n, p, e], ref))
        # what the clean-up of this step removed (re-meshing conserves the third moment)
        post = mon.rows[n].get('post')
        if nodiff and post is not None:
            for p in range(P):
                xb = _xb_true(run, p)
                if xb is None or fv[p] == 0.0:
                    continue
                pb = post['bounds'][p]
                pm3 = float(np.sum(post['psd'][p] * (0.5 * (pb[:-1] + pb[1:])) ** 3))
                cumrem[p] += _volratio(c, names, p) * _vf(c, names, p) * max(m3x[p] - pm3, 0.0) * xb
    return viol, stats


def check_c02(run):
    """Reported statistics are moments of the PSD; number density changes only by nucleation/dissolution."""
    if run['model'] is None:
        return [], {'steps': 0, 'remesh_steps': 0, 'extend_steps': 0, 'subunit_removed': 0, 'nuc_steps': 0, 'recorded_rows': 0}
    m, c, mon = run['model'], run['cfg'], run['monitor']
    d = m.pData
    names = list(m.phases)
    P = len(names)
    viol = []
    seen = set()
    stats = {'steps': 0, 'remesh_steps': 0, 'extend_steps': 0, 'subunit_removed': 0, 'nuc_steps': 0, 'recorded_rows': 0}

    def bad(kind, n, msg):
        if kind not in seen:
            seen.add(kind)
            viol.append({'sig': kind, 'msg': 'step %d (t=%g): %s' % (n, d.time[n], msg)})
    N = min(d.n, len(mon.rows) - 1)
    euler = c['it'] == 'euler'
    # the PSD recorded for a step is looked up by its time stamp (rows carry their own time)
    rec_index = []
    for p in range(P):
        pbm = m.PBM[p]
        if c['record'] and pbm._recordedTime is not None:
            rec_index.append({float(t): i for i, t in enumerate(pbm._recordedTime)})
        else:
            rec_index.append(None)
    for n in range(1, N + 1):
        row = mon.rows[n]
        mb = row.get('mb')
        if mb is None:
            continue
        stats['steps'] += 1
        for p in range(P):
            x, r = mb['x'][p], mb['size'][p]
            vr, vf = _volratio(c, names, p), _vf(c, names, p)
            M0, M1, M3 = float(np.sum(x)), float(np.sum(x * r)), float(np.sum(x * r ** 3))
            tag = '%s' % c['system']
            if abs(d.precipitateDensity[n, p] - M0) > 1e-12 * abs(M0):
                bad('C02/density-vs-M0/' + tag, n, 'reported %r, zeroth moment %r' % (d.precipitateDensity[n, p], M0))
            if M0 >= m.constraints.minNucleateDensity:
                if abs(d.Ravg[n, p] - M1 / M0) > 1e-12 * abs(M1 / M0):
                    bad('C02/Ravg-vs-M1/M0/' + tag, n, 'reported %r, M1/M0 %r' % (d.Ravg[n, p], M1 / M0))
                fvx = min(vr * vf * M3, 1.0)
                if abs(d.volFrac[n, p] - fvx) > 1e-12 * fvx and not (n > 1 and d.volFrac[n - 1, p] == 1):
                    bad('C02/volFrac-vs-M3/' + tag, n, 'reported %r, scaled third moment %r' % (d.volFrac[n, p], fvx))
            # against the PSD recorded for that step (what a user can look at): only the documented removal of classes
            # holding < 1 particle may separate them
            pbm = m.PBM[p]
            ri = rec_index[p].get(float(d.time[n])) if rec_index[p] is not None else None
            if ri is None and rec_index[p] is not None:
                stats['rows_without_recorded_psd'] = stats.get('rows_without_recorded_psd', 0) + 1
            if ri is not None:
                stats['recorded_rows'] += 1
                rec = pbm._recordedPSD[ri][:len(x)]
                sub = x[(x > 0) & (x < 1)]
                stats['subunit_removed'] += len(sub)
                M0r = float(np.sum(rec))
                lo = -float(np.sum(sub)) * (1 + 1e-9) - 1e-12 * abs(M0)
                if not (lo <= M0r - M0 <= 1e-12 * abs(M0)):
                    neg = x[x < 0]
                    bad('C02/recorded-PSD-vs-density/' + tag + ('/negative-class' if len(neg) else ''), n,
                        'reported density %r but the PSD recorded for the step sums to %r; %d classes with 0<n<1 hold %r, %d negative classes hold %r'
                        % (M0, M0r, len(sub), float(np.sum(sub)), len(neg), float(np.sum(neg))))
            # against the live distribution an observer sees right after the step (coupling-model slot).  Only on steps on which
            # neither the grid nor the driving-force stability limit changed: then the end-of-step clean-up applies exactly the
            # thresholds the row was computed with (classes < 1 particle, below the stability limit, below minRadius), so the
            # two distributions may differ by the documented "< 1 particle" removal only.  (Re-meshing legitimately changes the
            # zeroth/first moment, and a rebuilt lookup table moves the stability limit.)
            post = row.get('post')
            if post is not None and len(post['psd'][p]) == len(x) and int(post['rdf'][p]) == int(mb['rdf'][p]) \
                    and np.array_equal(post['bounds'][p], mb['bounds'][p]) and M0 >= m.constraints.minNucleateDensity:
                px = post['psd'][p]
                sub = x[(x > 0) & (x < 1)]
                P0 = float(np.sum(px))
                lo0 = -float(np.sum(sub)) * (1 + 1e-9) - 1e-12 * abs(M0)
                stats['live_rows'] = stats.get('live_rows', 0) + 1
                if not (lo0 <= P0 - M0 <= 1e-12 * abs(M0)):
                    gone = np.nonzero((x >= 1) & (px == 0))[0]
                    bad('C02/live-PSD-vs-density/' + tag, n, 'reported density %r but the distribution after the step sums to %r (%d classes with '
                        '0<n<1 hold %r); classes holding >= 1 particle that vanished: %s (radii %s), minRadius %r'
                        % (M0, P0, len(sub), float(np.sum(sub)), gone[:5].tolist(), r[gone[:5]].tolist(), m.constraints.minRadius))
            # step to step
            prev = mon.rows[n - 1]['post']
            Nplus = float(np.sum(prev['psd'][p]))
            dt = d.time[n] - d.time[n - 1]
            J = d.nucRate[n - 1, p]
            if not euler:
                js = row.get('jstages', [])
                for jj in js[:-1]:
                    J = max(J, float(jj[p]))
            if J > 0:
                stats['nuc_steps'] += 1
            if M0 - Nplus > J * dt * (1 + 1e-9) + 1e-12 * max(M0, Nplus):
                bad('C02/density-increase-beyond-nucleation/%s/it=%s' % (tag, c['it']), n,
                    'density %r -> %r (+%r) with nucleation rate %r * dt %r = %r' % (Nplus, M0, M0 - Nplus, J, dt, J * dt))
        post = row['post']
        for p in range(P):
            if post['bins'][p] != len(mb['x'][p]):
                if post['bins'][p] > len(mb['x'][p]) and np.allclose(post['bounds'][p][:len(mb['bounds'][p])], mb['bounds'][p], rtol=1e-9):
                    stats['extend_steps'] += 1
                else:
                    stats['remesh_steps'] += 1
    return viol, stats


def check_c03(run, t0=0.0):
    """Well-formedness of a completed run."""
    from kawin.precipitation.PrecipitationParameters import PrecipitationData
    m, c, mon = run['model'], run['cfg'], run['monitor']
    viol = []

    def bad(kind, msg):
        viol.append({'sig': kind, 'msg': msg})
    tag = '%s/%s' % (c['system'], c['temp'])
    if m is None:
        et, em = run['error']
        bad('C03/exception/%s/%s/%s' % (c['system'], et, em.split(' at ')[-1]), '%s: %s' % (et, em))
        return viol
    d = m.pData
    if run['error'] is not None:
        et, em = run['error']
        if et == 'StepLimit':
            bad('C03/nontermination/%s/%s' % (tag, c['it']), em)
        else:
            bad('C03/exception/%s/%s/%s' % (c['system'], et, em.split(' at ')[-1]), '%s: %s' % (et, em))
        return viol
    tf = t0 + c['tf']
    t = d.time
    if not np.all(np.diff(t) > 0):
        i = int(np.argmax(np.diff(t) <= 0))
        bad('C03/time-not-increasing/' + tag, 'time[%d]=%r time[%d]=%r' % (i, t[i], i + 1, t[i + 1]))
    parts = c['split']
    seg_end = t0
    for k in range(parts):
        seg_end = seg_end + c['tf'] / parts
    if t[-1] != seg_end:
        bad('C03/end-time/' + tag, 'last time %r, requested %r' % (t[-1], seg_end))
    L = len(t)
    for a in PrecipitationData.ATTRIBUTES:
        arr = getattr(d, a)
        if arr.shape[0] != L:
            bad('C03/history-length/%s' % a, '%s has %d rows, time has %d' % (a, arr.shape[0], L))
        elif not np.all(np.isfinite(arr)):
            i = int(np.argwhere(~np.isfinite(arr.reshape(L, -1)).all(axis=1))[0][0])
            bad('C03/non-finite/%s/%s' % (a, tag), 'first non-finite %s at step %d (t=%r): %r' % (a, i, t[i], arr[i]))
    if d.n != L - 1:
        bad('C03/n-vs-length', 'n=%d len=%d' % (d.n, L))
    for p, pbm in enumerate(m.PBM):
        if np.any(pbm.PSD < 0) or not np.all(np.isfinite(pbm.PSD)):
            bad('C03/final-PSD-negative/' + tag, 'phase %d min %r' % (p, float(np.nanmin(pbm.PSD))))
        if c['record'] and pbm._recordedPSD is not None and np.any(pbm._recordedPSD < 0):
            i = int(np.argwhere((pbm._recordedPSD < 0).any(axis=1))[0][0])
            bad('C03/recorded-PSD-negative/' + tag, 'phase %d row %d min %r' % (p, i, float(pbm._recordedPSD[i].min())))
    if mon is not None:
        for n in range(1, min(len(mon.rows), L)):
            post = mon.rows[n].get('post')
            if post is None:
                continue
            for p in range(len(m.PBM)):
                if np.any(post['psd'][p] < 0) or not np.all(np.isfinite(post['psd'][p])):
                    bad('C03/step-PSD-negative/' + tag, 'phase %d after step %d: min %r' % (p, n, float(np.nanmin(post['psd'][p]))))
                    break
            else:
                continue
            break
    with np.errstate(invalid='ignore'):
        if np.any(d.volFrac < 0) or np.any(d.volFrac > 1):
            bad('C03/volFrac-range/' + tag, 'min %r max %r' % (float(np.nanmin(d.volFrac)), float(np.nanmax(d.volFrac))))
        if np.any(np.sum(d.volFrac, axis=1) > 1 + 1e-12):
            bad('C03/total-volFrac/' + tag, 'max total %r' % float(np.nanmax(np.sum(d.volFrac, axis=1))))
        if np.any(d.composition < 0) or np.any(d.composition > 1):
            i = int(np.argwhere(((d.composition < 0) | (d.composition > 1)).any(axis=1))[0][0])
            bad('C03/composition-range/' + tag, 'step %d composition %r' % (i, d.composition[i]))
        for a in ('Ravg', 'Rcrit', 'Rnuc', 'precipitateDensity', 'nucRate'):
            if np.any(getattr(d, a) < 0):
                i = int(np.argwhere((getattr(d, a) < 0).any(axis=1))[0][0])
                bad('C03/negative-%s/%s' % (a, tag), 'step %d: %r' % (i, getattr(d, a)[i]))
    return viol
