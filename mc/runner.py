"""Entry point.  ./run <Cxx> [quick|thorough]   |   ./run <Cxx> --replay <path>

exit 0  property held on everything explored (KNOWN-FINDING lines may be printed)
exit 1  VIOLATION property=<id> replay=<path>
exit 2  harness error (non-reproducible verdict, exception inside the machinery)
"""
import importlib
import json
import os
import sys
import time
import traceback

from . import core


def _setup_path():
    repo = os.environ.get('VERIF_REPO')
    if repo:
        # a scratch copy of the repository (mutant runs); must shadow the editable install of /repo
        sys.path.insert(0, repo)
        import kawin
        assert os.path.abspath(kawin.__file__).startswith(os.path.abspath(repo)), kawin.__file__


def main(argv):
    if len(argv) < 1:
        print(__doc__)
        return 2
    prop = argv[0].upper()
    _setup_path()
    mod = importlib.import_module('checks.' + prop.lower())
    if len(argv) >= 3 and argv[1] == '--replay':
        return replay(prop, mod, argv[2])
    tier = argv[1] if len(argv) > 1 else os.environ.get('VERIF_TIER', 'quick')
    if tier not in ('quick', 'thorough'):
        print('unknown tier', tier)
        return 2
    seed = int(os.environ.get('VERIF_SEED', '0') or 0)
    ctx = core.Ctx(prop, tier, seed, mod.LEVEL)
    known = core.load_known()
    t0 = time.time()
    try:
        if hasattr(mod, 'prepare'):
            mod.prepare()
        mod.run(ctx)
    except core.HarnessError as e:
        ctx.close()
        print('HARNESS-ERROR property=%s\n%s' % (prop, e))
        return 2
    except Exception:
        ctx.close()
        print('HARNESS-ERROR property=%s' % prop)
        traceback.print_exc()
        return 2
    ctx.close()

    # classify
    new, kn = {}, {}
    for v in ctx.violations:
        k = core.match_known(prop, v['sig'], known)
        if k is not None:
            kn.setdefault(k['sig'], []).append(v)
        else:
            new.setdefault(v['sig'], []).append(v)
    for ksig, vs in kn.items():
        k = core.match_known(prop, vs[0]['sig'], known)
        print('KNOWN-FINDING: property=%s %s [%s; %d occurrence(s) this run]' % (prop, k['what'], ksig, len(vs)))
    path = core.write_evidence(ctx, sum(len(v) for v in new.values()), sum(len(v) for v in kn.values()))
    print('%s %s: evaluations=%d states=%d transitions=%d nontrivial=%d outcomes=%d exhaustive=%s wall=%.1fs evidence=%s'
          % (prop, tier, ctx.evaluations, ctx.states, ctx.transitions, ctx.nontrivial, len(ctx.outcomes),
             len(ctx.caps) == 0, time.time() - t0, path))
    for name, st in ctx.stage_stats.items():
        print('   stage %-28s %s' % (name, ' '.join('%s=%s' % kv for kv in st.items())))
    if new:
        shown = 0
        for sig, vs in sorted(new.items()):
            rp = core.write_replay(prop, vs[0])
            print('VIOLATION property=%s replay=%s' % (prop, rp))
            print('   sig=%s (%d occurrence(s))\n   %s' % (sig, len(vs), vs[0]['msg'][:600]))
            shown += 1
            if shown >= 25:
                print('   ... %d further distinct signatures not printed' % (len(new) - shown))
                break
        return 1
    return 0


def replay(prop, mod, path):
    with open(path) as f:
        body = json.load(f)
    if hasattr(mod, 'prepare'):
        mod.prepare()
    os.environ['VERIF_REPLAY_VERBOSE'] = '1'
    res = core._call(body['fn'], body['case'])
    print(json.dumps(res, indent=1, default=core._json_default)[:20000])
    viol = list(res.get('viol', ()))
    for s in res.get('succ', ()):
        if 'then' in body['case'] and s['op'] != body['case']['then']:
            continue
        viol += s.get('viol', ())
    known = core.load_known()
    new = [v for v in viol if core.match_known(prop, v['sig'], known) is None]
    for v in viol:
        if v not in new:
            print('KNOWN-FINDING: property=%s %s' % (prop, v['sig']))
    if new:
        print('VIOLATION property=%s replay=%s' % (prop, path))
        return 1
    print('replay: no violation')
    return 0


if __name__ == '__main__':
    sys.exit(main(sys.argv[1:]))
