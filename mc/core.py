"""Shared machinery: context, worker pool, product enumerator, history explorer (BFS), evidence,
known findings.  See DESIGN.md section 1.

Every check module in /verif/checks exposes

    PROPERTY = 'Cxx'; LEVEL = 'model_checking' | 'exploration' | 'fault_enumeration'
    def prepare():            # heavy imports, done once in the parent before workers are forked
    def run(ctx):             # enumerate + check; report through ctx

A *case* is a plain JSON-able object.  Functions executed on cases are module-level functions
`fn(case) -> result dict` so that a replay is "import fn, call it on the stored case".

result dict keys (all optional):
    viol        list of {'sig': str, 'msg': str}     violations found on this case
    states      int   number of states on which invariants were evaluated
    transitions int   number of transitions (steps / operations) checked
    outcome     hashable/str  a coarse label of what happened (to show the exploration is not vacuous)
    nontrivial  bool  the case exercised the behaviour the property is about
    info        anything JSON-able, shown in samples
"""
import collections
import contextlib
import io
import fnmatch
import hashlib
import importlib
import itertools
import json
import multiprocessing as mp
import os
import sys
import time
import traceback

VERIF = os.path.dirname(os.path.dirname(os.path.abspath(__file__)))
NPROC = int(os.environ.get('VERIF_NPROC', '0')) or min(16, os.cpu_count() or 1)


def canon_json(obj):
    return json.dumps(obj, sort_keys=True, separators=(',', ':'), default=_json_default)


def _json_default(o):
    try:
        import numpy as np
        if isinstance(o, np.ndarray):
            return o.tolist()
        if isinstance(o, (np.floating,)):
            return float(o)
        if isinstance(o, (np.integer,)):
            return int(o)
        if isinstance(o, (np.bool_,)):
            return bool(o)
    except Exception:
        pass
    if isinstance(o, (set, frozenset)):
        return sorted(o)
    if isinstance(o, bytes):
        return o.hex()
    return repr(o)


def case_id(case):
    return hashlib.sha1(canon_json(case).encode()).hexdigest()[:16]


def product(levels, valid=None):
    """Full Cartesian product of {factor: [values]} as a list of dicts, in a stable order."""
    keys = list(levels.keys())
    out = []
    for combo in itertools.product(*[levels[k] for k in keys]):
        c = dict(zip(keys, combo))
        if valid is None or valid(c):
            out.append(c)
    return out


def rotate(seq, seed):
    """Seed only rotates the enumeration order; the set explored is the same for every seed."""
    seq = list(seq)
    if not seq:
        return seq
    k = seed % len(seq)
    return seq[k:] + seq[:k]


def _call(fn_ref, arg):
    mod, name = fn_ref.split(':')
    fn = getattr(importlib.import_module(mod), name)
    return fn(arg)


def _guarded(args):
    """Executed in a worker: run fn(case) and convert unexpected exceptions of the *harness* into an
    error record (exceptions of the code under test are caught inside the check functions and turned
    into violations there)."""
    fn_ref, arg = args
    t0 = time.time()
    try:
        # the code under test prints diagnostics (e.g. TemperatureParameters echoes its arguments); keep the
        # check's stdout for the verdict lines only
        with contextlib.redirect_stdout(io.StringIO()):
            res = _call(fn_ref, arg)
        if res is None:
            res = {}
    except Exception:
        res = {'harness_error': traceback.format_exc()}
    res['_wall'] = time.time() - t0
    return res


class HarnessError(Exception):
    pass


class Ctx:
    def __init__(self, prop, tier, seed, level):
        self.prop, self.tier, self.seed, self.level = prop, tier, seed, level
        self.violations = []          # dicts: sig, msg, fn, case
        self.evaluations = 0
        self.states = 0
        self.transitions = 0
        self.traces = 0
        self.nontrivial = 0
        self.outcomes = collections.Counter()
        self.samples = []
        self.caps = []
        self.bounds = {}
        self.stage_stats = collections.OrderedDict()
        self.assumptions = []
        self.rule = ''
        self.extra = {}
        self._pool = None
        self.t0 = time.time()
        self.quick = tier == 'quick'

    # ---- pool -----------------------------------------------------------------------------------
    def pool(self):
        if self._pool is None:
            ctx = mp.get_context('fork')
            self._pool = ctx.Pool(NPROC)
        return self._pool

    def close(self):
        if self._pool is not None:
            self._pool.terminate()
            self._pool.join()
            self._pool = None

    def pmap(self, fn_ref, cases, chunksize=None):
        cases = list(cases)
        if not cases:
            return []
        if NPROC == 1 or len(cases) == 1:
            return [_guarded((fn_ref, c)) for c in cases]
        if chunksize is None:
            chunksize = max(1, min(64, len(cases) // (NPROC * 8)))
        return self.pool().map(_guarded, [(fn_ref, c) for c in cases], chunksize)

    # ---- bookkeeping -----------------------------------------------------------------------------
    def stage(self, name):
        return self.stage_stats.setdefault(name, {'evaluations': 0, 'states': 0, 'transitions': 0,
                                                  'nontrivial': 0, 'violations': 0, 'outcomes': 0})

    def absorb(self, stage, fn_ref, case, res):
        """Merge one case result."""
        if 'harness_error' in res:
            raise HarnessError('stage %s case %s:\n%s' % (stage, canon_json(case)[:400], res['harness_error']))
        st = self.stage(stage)
        ne = int(res.get('evaluations', 1))      # a grouped case reports how many inner evaluations it ran
        self.evaluations += ne
        st['evaluations'] += ne
        st['cases'] = st.get('cases', 0) + 1
        w = float(res.get('_wall', 0.0))
        st['cpu_s'] = round(st.get('cpu_s', 0.0) + w, 2)
        if w > st.get('max_case_s', 0.0):
            st['max_case_s'] = round(w, 2)
        s, t = int(res.get('states', 1)), int(res.get('transitions', 0))
        self.states += s
        self.transitions += t
        st['states'] += s
        st['transitions'] += t
        self.traces += int(res.get('traces', 1))
        nn = int(res['nontrivial_count']) if 'nontrivial_count' in res else (1 if res.get('nontrivial', True) else 0)
        self.nontrivial += nn
        st['nontrivial'] += nn
        oc = res.get('outcome')
        if oc is not None:
            key = stage + ':' + (oc if isinstance(oc, str) else canon_json(oc))
            if key not in self.outcomes:
                st['outcomes'] += 1
            self.outcomes[key] += 1
        for v in res.get('viol', ()):
            st['violations'] += 1
            self.violations.append({'sig': v['sig'], 'msg': v.get('msg', ''), 'fn': fn_ref, 'case': case,
                                    'stage': stage})

    def sample(self, obj):
        if len(self.samples) < 8:
            self.samples.append(obj)

    def cap(self, text):
        self.caps.append(text)

    # ---- E1: product run ---------------------------------------------------------------------------
    def product_run(self, stage, fn_ref, cases, chunksize=None, confirm=True, sample_n=2):
        cases = rotate(cases, self.seed)
        results = self.pmap(fn_ref, cases, chunksize)
        bad = []
        for c, r in zip(cases, results):
            if r.get('viol'):
                bad.append((c, r))
        if confirm and bad:
            # every violating case is executed a second time; a verdict that does not repeat is a
            # harness problem (uncontrolled nondeterminism), never a reported violation
            again = self.pmap(fn_ref, [c for c, _ in bad[:200]], 1)
            for (c, r), r2 in zip(bad[:200], again):
                s1 = sorted(v['sig'] for v in r.get('viol', ()))
                s2 = sorted(v['sig'] for v in r2.get('viol', ()))
                if s1 != s2:
                    raise HarnessError('non-reproducible verdict on case %s: %s vs %s' % (canon_json(c)[:300], s1, s2))
        for i, (c, r) in enumerate(zip(cases, results)):
            self.absorb(stage, fn_ref, c, r)
            if i < sample_n:
                self.sample({'stage': stage, 'case': c, 'outcome': r.get('outcome'), 'info': r.get('info')})
        return results

    # ---- E2: history explorer (BFS over operation histories on fresh real objects) ----------------
    def bfs(self, stage, expand_ref, init_hist, depth, base=None, max_states=None, sample_n=2):
        """expand_ref(case={'base':base,'hist':[...]}) must build the object by replaying hist on a fresh
        real object and return {'succ': [ {'op': op, 'canon': str, 'viol': [...], 'enabled': bool} ... ],
        'canon': str(own canon), 'viol': [...] (state invariant violations of hist itself)}.
        Duplicate canonical states are not expanded again."""
        seen = {}
        root = {'base': base, 'hist': list(init_hist)}
        frontier = [root]
        r0 = self.pmap(expand_ref, [root])[0]
        if 'harness_error' in r0:
            raise HarnessError(r0['harness_error'])
        seen[r0['canon']] = list(init_hist)
        st = self.stage(stage)
        nstates, ntrans, maxd = 1, 0, 0
        pending = [(root, r0)]
        d = 0
        capped = False
        while pending and d < depth:
            nxt = []
            for node, r in pending:
                for v in (r.get('viol', ()) if d == 0 else ()):   # invariants of the root state only;
                    # every other state's invariants are reported by its parent's expand (succ[i]['viol'])
                    self.violations.append({'sig': v['sig'], 'msg': v.get('msg', ''), 'fn': expand_ref,
                                            'case': node, 'stage': stage})
                    st['violations'] += 1
                for s in r['succ']:
                    ntrans += 1
                    h = node['hist'] + [s['op']]
                    for v in s.get('viol', ()):
                        self.violations.append({'sig': v['sig'], 'msg': v.get('msg', ''), 'fn': expand_ref,
                                                'case': {'base': base, 'hist': node['hist'], 'then': s['op']},
                                                'stage': stage})
                        st['violations'] += 1
                    oc = s.get('outcome')
                    if oc is not None:
                        key = stage + ':' + str(oc)
                        if key not in self.outcomes:
                            st['outcomes'] += 1
                        self.outcomes[key] += 1
                    if s.get('dead'):
                        continue
                    if s['canon'] not in seen:
                        seen[s['canon']] = h
                        nstates += 1
                        nxt.append({'base': base, 'hist': h})
            d += 1
            maxd = d
            if d >= depth:
                # states at the last depth were reached and checked as successors (their invariants are
                # evaluated by the parent's expand); they are not expanded further
                break
            if max_states is not None and nstates > max_states:
                capped = True
                self.cap('%s: state cap %d hit at depth %d' % (stage, max_states, d))
                break
            nxt = rotate(nxt, self.seed)
            res = self.pmap(expand_ref, nxt)
            for n_, r_ in zip(nxt, res):
                if 'harness_error' in r_:
                    raise HarnessError('stage %s hist %s:\n%s' % (stage, canon_json(n_)[:400], r_['harness_error']))
            pending = list(zip(nxt, res))
            if nxt and len(self.samples) < 8 and sample_n:
                self.sample({'stage': stage, 'history': nxt[0]['hist']})
        self.states += nstates
        self.transitions += ntrans
        self.evaluations += ntrans
        self.traces += ntrans
        self.nontrivial += nstates
        st['states'] += nstates
        st['transitions'] += ntrans
        st['evaluations'] += ntrans
        st['nontrivial'] += nstates
        st['max_depth'] = maxd
        st['capped'] = capped
        return seen


# ---- known findings -----------------------------------------------------------------------------------

def load_known():
    p = os.path.join(VERIF, 'known_findings.json')
    if not os.path.exists(p):
        return {'known': [], 'fixed': []}
    with open(p) as f:
        return json.load(f)


def match_known(prop, sig, known):
    for k in known.get('known', ()):
        if k['property'] == prop and fnmatch.fnmatchcase(sig, k['sig']):
            return k
    return None


# ---- evidence -----------------------------------------------------------------------------------------

def write_evidence(ctx, n_viol, n_known):
    cov = {
        'evaluations': int(ctx.evaluations),
        'distinct_nontrivial': int(ctx.nontrivial),
        'rule': ctx.rule,
        'samples': ctx.samples[:8],
        'states': int(ctx.states),
        'transitions': int(ctx.transitions),
        'traces_validated_against_impl': int(ctx.traces),
        'exhaustive': len(ctx.caps) == 0,
        'caps_hit': ctx.caps,
        'bounds': ctx.bounds,
        'distinct_outcomes': len(ctx.outcomes),
        'outcome_histogram': dict(sorted(ctx.outcomes.items(), key=lambda kv: -kv[1])[:40]),
        'stages': ctx.stage_stats,
        'known_findings_matched': n_known,
    }
    cov.update(ctx.extra)
    ev = {
        'property_id': ctx.prop,
        'tier': ctx.tier,
        'seed': int(ctx.seed),
        'level': ctx.level,
        'coverage': cov,
        'assumptions': ctx.assumptions,
        'wall_s': round(time.time() - ctx.t0, 2),
        'violations': int(n_viol),
    }
    evdir = os.environ.get('VERIF_EVIDENCE_DIR') or os.path.join(VERIF, 'evidence')   # mutant runs write elsewhere
    os.makedirs(evdir, exist_ok=True)
    path = os.path.join(evdir, ctx.prop + '.json')
    tmp = path + '.tmp'
    with open(tmp, 'w') as f:
        f.write(json.dumps(ev, indent=1, default=_json_default, sort_keys=False))
        f.write('\n')
    os.replace(tmp, path)
    return path


def write_replay(prop, v):
    d = os.path.join(os.environ.get('VERIF_REPLAY_DIR') or os.path.join(VERIF, 'replays'), prop)
    os.makedirs(d, exist_ok=True)
    body = {'property': prop, 'sig': v['sig'], 'msg': v['msg'], 'fn': v['fn'], 'case': v['case'],
            'stage': v.get('stage')}
    path = os.path.join(d, case_id({'fn': v['fn'], 'case': v['case']}) + '.json')
    with open(path, 'w') as f:
        f.write(json.dumps(body, indent=1, default=_json_default))
    return path
