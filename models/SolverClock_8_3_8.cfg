CONSTANTS TF = 8 DMIN = 3 DMAX = 8 MAXSTOP = 3
SPECIFICATION Spec
INVARIANTS TypeOK NeverOvershoots EndsExactly StopHonoured
PROPERTIES Progress StepBounds
