CONSTANTS TF = 4 DMIN = 1 DMAX = 4 MAXSTOP = 3
SPECIFICATION Spec
INVARIANTS TypeOK NeverOvershoots EndsExactly StopHonoured
PROPERTIES Progress StepBounds
