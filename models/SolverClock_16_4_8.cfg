CONSTANTS TF = 16 DMIN = 4 DMAX = 8 MAXSTOP = 3
SPECIFICATION Spec
INVARIANTS TypeOK NeverOvershoots EndsExactly StopHonoured
PROPERTIES Progress StepBounds
