CONSTANTS TF = 8 DMIN = 5 DMAX = 3 MAXSTOP = 3
SPECIFICATION Spec
INVARIANTS TypeOK NeverOvershoots EndsExactly StopHonoured
PROPERTIES Progress
