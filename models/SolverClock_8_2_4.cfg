CONSTANTS TF = 8 DMIN = 2 DMAX = 4 MAXSTOP = 3
SPECIFICATION Spec
INVARIANTS TypeOK NeverOvershoots EndsExactly StopHonoured
PROPERTIES Progress StepBounds
