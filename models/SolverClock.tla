---------------------------- MODULE SolverClock ----------------------------
(* Clock protocol of kawin's DESolver.solve, in integer ticks.
   A run starts at tick 0 and must end at exactly tick TF.  At every step the model under simulation proposes
   a step size (class "nonpos" stands for zero / negative / NaN proposals, an integer k for k ticks, "inf" for
   an unbounded proposal); the solver clamps it into [DMIN, min(DMAX, remaining)], the upper clamp winning, and
   the model may request a stop after a chosen step.  Every behaviour of this model is replayed against the real
   DESolver by checks/c05.py (stage 'tla'); TLC checks the invariants below on all reachable states. *)
EXTENDS Naturals

CONSTANTS TF, DMIN, DMAX, MAXSTOP

VARIABLES t, dmax, n, stopAt, done, lastP

vars == <<t, dmax, n, stopAt, done, lastP>>

(* proposals are encoded as integers: 0 = "nonpos" (zero, negative or NaN proposal), k = k ticks, INF = unbounded *)
INF == TF + DMAX + 1

Props == (0..(DMAX + 1)) \cup {INF}

Val(p) == p

Min(a, b) == IF a < b THEN a ELSE b

Init == /\ t = 0
        /\ dmax = DMAX
        /\ n = 0
        /\ stopAt \in 0..MAXSTOP
        /\ done = FALSE
        /\ lastP = INF + 1

Step(p) ==
    LET hi  == Min(dmax, TF - t)
        d0  == IF Val(p) > DMIN THEN Val(p) ELSE DMIN
        dt  == IF d0 < hi THEN d0 ELSE hi
    IN  /\ ~done
        /\ t < TF
        /\ t' = t + dt
        /\ dmax' = hi
        /\ n' = n + 1
        /\ done' = ((stopAt = n + 1) \/ (t + dt >= TF))
        /\ lastP' = p
        /\ UNCHANGED stopAt

Next == \E p \in Props : Step(p)

Spec == Init /\ [][Next]_vars

TypeOK == /\ t \in 0..TF
          /\ dmax \in 1..DMAX
          /\ n \in 0..TF
          /\ done \in BOOLEAN

NeverOvershoots == t <= TF

(* a finished run either was stopped by the model at the requested step or stands exactly at the end *)
EndsExactly == done => (t = TF \/ (stopAt > 0 /\ n = stopAt))

(* an unfinished run can always take a step, and every step advances the clock (checked as an action property) *)
Progress == [][t' > t]_vars

StepBounds == [][(t' - t <= DMAX) /\ ((t' - t >= DMIN) \/ (t' = TF))]_vars

StopHonoured == (stopAt > 0 /\ n >= stopAt) => done
=============================================================================
