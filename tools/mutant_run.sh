#!/bin/sh
# tools/mutant_run.sh <patch.diff> <Cxx> [tier]  -- apply a patch to a scratch copy of /repo (outside /repo and /verif),
# run one check against the copy (VERIF_REPO), delete the copy.  Evidence written by such a run is restored afterwards.
set -u
PATCH="$(realpath "$1")"; PROP="$2"; TIER="${3:-quick}"
D="$(mktemp -d /tmp/kawin_mut.XXXXXX)"
mkdir -p "$D/repo"
rsync -a --exclude .git --exclude '__pycache__' /repo/kawin "$D/repo/" 
( cd "$D/repo" && patch -p1 -s < "$PATCH" ) || { echo "PATCH-FAILED"; rm -rf "$D"; exit 3; }
EV="/verif/evidence/$PROP.json"; [ -f "$EV" ] && cp "$EV" "$D/ev.json"
VERIF_REPO="$D/repo" /verif/run "$PROP" "$TIER"; RC=$?
[ -f "$D/ev.json" ] && cp "$D/ev.json" "$EV"
rm -rf "$D"
echo "MUTANT-RESULT patch=$(basename "$(dirname "$PATCH")")/$(basename "$PATCH") check=$PROP tier=$TIER exit=$RC"
exit $RC
