#!/bin/sh
# tools/mutant_run.sh <patch.diff> <Cxx> [tier]  -- apply a patch to a scratch copy of /repo/kawin (outside /repo and /verif),
# run one check against the copy (VERIF_REPO); evidence and replays of such a run go to the scratch directory, which is
# deleted afterwards (replays are kept under /tmp/kawin_mut_replays/<patch>/ for inspection).
set -u
PATCH="$(realpath "$1")"; PROP="$2"; TIER="${3:-quick}"
D="$(mktemp -d /tmp/kawin_mut.XXXXXX)"
mkdir -p "$D/repo" "$D/ev"
rsync -a --exclude .git --exclude '__pycache__' /repo/kawin "$D/repo/"
( cd "$D/repo" && patch -p1 -s --no-backup-if-mismatch < "$PATCH" ) || { echo "PATCH-FAILED"; rm -rf "$D"; exit 3; }
VERIF_REPO="$D/repo" VERIF_EVIDENCE_DIR="$D/ev" VERIF_REPLAY_DIR="$D/replays" /verif/run "$PROP" "$TIER"; RC=$?
rm -rf "$D"
echo "MUTANT-RESULT patch=$(basename "$(dirname "$PATCH")")/$(basename "$PATCH") check=$PROP tier=$TIER exit=$RC"
exit $RC
