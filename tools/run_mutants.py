#!/usr/bin/env python3
"""tools/run_mutants.py [CXX ...] [--tier quick] [--jobs N] [--nproc M]
Runs every /verif/mutants/CXX/*.diff (and /verif/seeded/<id>/patch.diff whose meta.json names CXX) against check CXX on
scratch copies of /repo (never touches /repo) and records exit codes in /verif/mutants/RESULTS.json.
exit=1 means detected, 0 missed, 2 harness error, 3 patch failed."""
import concurrent.futures as cf
import glob
import json
import os
import subprocess
import sys
import time

HERE = os.path.dirname(os.path.dirname(os.path.abspath(__file__)))


def run_one(args):
    patch, prop, tier, nproc = args
    env = dict(os.environ)
    env['VERIF_NPROC'] = str(nproc)
    t0 = time.time()
    p = subprocess.run([os.path.join(HERE, 'tools', 'mutant_run.sh'), patch, prop, tier], capture_output=True, text=True, env=env)
    sigs = [l.strip()[4:].split(' (')[0] for l in p.stdout.splitlines() if l.strip().startswith('sig=')]
    return {'patch': os.path.relpath(patch, HERE), 'check': prop, 'tier': tier, 'exit': p.returncode,
            'sigs': sigs[:6], 'wall_s': round(time.time() - t0, 1)}


def main():
    args = sys.argv[1:]
    tier, jobs, nproc = 'quick', 2, 8
    props = []
    i = 0
    while i < len(args):
        if args[i] == '--tier':
            tier = args[i + 1]; i += 2
        elif args[i] == '--jobs':
            jobs = int(args[i + 1]); i += 2
        elif args[i] == '--nproc':
            nproc = int(args[i + 1]); i += 2
        else:
            props.append(args[i].upper()); i += 1
    if not props:
        props = sorted(os.path.basename(d) for d in glob.glob(os.path.join(HERE, 'mutants', 'C*')) if os.path.isdir(d))
    work = []
    for prop in props:
        for patch in sorted(glob.glob(os.path.join(HERE, 'mutants', prop, '*.diff'))):
            if os.path.basename(patch).startswith(('FIX_', 'NOTAPPLIED_')):
                continue
            work.append((patch, prop, tier, nproc))
        for meta in sorted(glob.glob(os.path.join(HERE, 'seeded', '*', 'meta.json'))):
            m = json.load(open(meta))
            if prop in m.get('checks', [m.get('property')]):
                work.append((os.path.join(os.path.dirname(meta), 'patch.diff'), prop, tier, nproc))
    res_path = os.path.join(HERE, 'mutants', 'RESULTS.json')
    results = json.load(open(res_path)) if os.path.exists(res_path) else {}
    with cf.ThreadPoolExecutor(jobs) as ex:
        for r in ex.map(run_one, work):
            results['%s@%s' % (r['patch'], r['check'])] = r
            print('%-60s %s exit=%d %5.1fs %s' % (r['patch'], r['check'], r['exit'], r['wall_s'], ';'.join(r['sigs'][:2])[:120]), flush=True)
            # written after every result (a batch may be stopped early); entries of other batches are kept
            cur = json.load(open(res_path)) if os.path.exists(res_path) else {}
            cur.update(results)
            with open(res_path + '.tmp', 'w') as f:
                json.dump(cur, f, indent=1, sort_keys=True)
            os.replace(res_path + '.tmp', res_path)


if __name__ == '__main__':
    main()
