#!/usr/bin/env python3-vt
import json, sys, glob, jsonschema
man = json.load(open('/verif/MANIFEST.json'))
jsonschema.validate(man, json.load(open('/root/.vp/MANIFEST.schema.json')))
es = json.load(open('/root/.vp/EVIDENCE.schema.json'))
ok = True
for c in man['checks']:
    try:
        ev = json.load(open(c['evidence_file']))
        jsonschema.validate(ev, es)
        assert ev['level'] == c['level_claimed']['category'], 'level mismatch'
        print('ok', c['property_id'], ev['tier'], ev['coverage'].get('evaluations'), ev['coverage'].get('states'), ev['wall_s'])
    except Exception as e:
        ok = False
        print('BAD', c['property_id'], str(e)[:300])
ids = {c['property_id'] for c in man['checks']} | {n['property_id'] for n in man.get('not_applicable', [])}
print('covered ids', len(ids))
sys.exit(0 if ok else 1)
