#!/usr/bin/env python3
"""Regenerates /verif/MANIFEST.json from the table below (kept next to the checks so that the two cannot drift)."""
import json
import os

HERE = os.path.dirname(os.path.dirname(os.path.abspath(__file__)))

# id: (level category, technique, text, note, design_ref)
CHECKS = {
    'C05': ('model_checking',
            'bounded exhaustive enumeration of dt-proposal scripts x clock product on the real solver; reference clock + reference integrator',
            'Every proposal script up to depth 3 (quick) / 4 (thorough) over a 14-symbol alphabet (0, negative, NaN, +-inf, '
            'tiny, around dtmin/dtmax, remaining +-1ulp) x start time x duration x step fractions x iterator x stop schedule is '
            'executed on the real GenericModel.solve; all clauses of the statement are evaluated on the observed callback log and the '
            'accepted times must equal an independent reference clock bit for bit. State layouts and Coupler orders are enumerated '
            'likewise against a reference integrator.',
            'Clock product restricted to float-resolvable clocks (minFrac*duration >= 8 ulp). Derivative functions are linear '
            'per-component; user models with side effects outside the callbacks are out of scope.',
            '2/C05'),
    'C07': ('exploration',
            'full-product enumeration of grids x populations x growth fields x nucleation x dt against an independent loop reference',
            'Full Cartesian product over 1-4 (thorough: 6) size classes of per-class populations (0, sub-unit, unit, huge dynamic range), '
            'all 3^(n+1) per-face growth sign patterns plus physical 1/R laws with the critical radius below/inside/above the grid, '
            'nucleation radii below/on/inside/above the grid, step sizes 0.5-1000x the model\'s own limit, dissolution indices and bin '
            'ratios; getdXdtEuler, correctdXdtEuler and getDTEuler of the real PopulationBalanceModel (and GrainGrowthModel) are compared '
            'with an independent scalar upwind implementation; conservation, placement of nuclei, the face limiter, non-negativity '
            'under the own step limit and argument immutability are evaluated on every point.',
            'Per-face growth magnitudes are equal within a sign pattern (unequal magnitudes appear through the physical laws only); '
            'grids are uniform as the PBM constructs them.',
            '2/C07'),
    'C08': ('model_checking',
            'explicit-state BFS over operation histories on the real PopulationBalanceModel with canonical-state dedup',
            'All histories up to depth 4 (quick) / 5 (thorough) over ~20 grid operations (extend by 1/3, re-mesh to half/double/fifth/cut/'
            'widened range, automatic adjustment with and without dissolution check, update with 7 distribution shapes, backup/revert, '
            'reset, load) from 3-4 base grids with adaptive binning and recording on/off; every reached state is rebuilt by replay on a '
            'fresh object, deduplicated by a canonical form containing every field the operations read, and checked for the grid '
            'invariants; every transition for its postcondition (extend leaves old classes untouched, re-mesh conserves M3 when the '
            'populated range is covered, adjust <= maxBins, reset/revert exact, recorded rows consistent, ...FromN purity).',
            'revert only after a backup since the last reset/re-mesh; manual re-meshing keeps >= minBins/2+1 classes; recording in '
            'adaptive mode only while bins <= maxBins (as the models guarantee).',
            '2/C08'),
}

NOT_YET = {}


def main():
    props = [json.loads(l) for l in open(os.path.join(HERE, 'properties.jsonl'))]
    checks = []
    na = []
    for p in props:
        pid = p['id']
        if pid in CHECKS:
            cat, tech, text, note, ref = CHECKS[pid]
            checks.append({
                'property_id': pid,
                'quick_cmd': './run %s quick' % pid,
                'thorough_cmd': './run %s thorough' % pid,
                'evidence_file': '/verif/evidence/%s.json' % pid,
                'replay_cmd_template': './run %s --replay {path}' % pid,
                'engine': 'mc',
                'level_claimed': {'category': cat, 'text': text, 'design_ref': 'DESIGN.md section ' + ref},
                'level_note': note,
                'technique': tech,
            })
        else:
            na.append({'property_id': pid, 'reason': NOT_YET.get(pid, 'check not built yet (work in progress; see DESIGN.md section 2/%s for the planned bounded exhaustive check)' % pid)})
    man = {
        'version': 1,
        'setup_cmd': 'cd /verif && /venv/bin/python -c "import kawin, numpy, scipy; print(kawin.__file__)"',
        'hooks': {
            'guard': 'KAWIN_VERIF',
            'enable': 'no source hooks are needed; checks import /repo\'s working tree through the editable install (KAWIN_VERIF=1 is exported by ./run but nothing in /repo reads it)',
            'baseline_off_cmd': 'cd /repo && /venv/bin/python -m pytest -ra -q -p no:cacheprovider --timeout=900 --continue-on-collection-errors',
            'source_commits': [],
            'add_only': True,
        },
        'engines': [
            {'name': 'mc', 'path': '/verif/mc', 'serves_properties': sorted(CHECKS),
             'kind_free_text': 'hand-written bounded exhaustive explorer for Python: product enumerator (E1), BFS over operation '
                               'histories on fresh real objects with canonical-state dedup (E2), per-step trajectory monitor (E3), '
                               'owned thermodynamic environment with deviation-bounded fault enumeration (E4), TLC model with full '
                               'state-graph replay against the implementation (E5)'},
        ],
        'checks': checks,
        'not_applicable': na,
        'notes': 'All checks: ./run <id> quick|thorough, evidence in /verif/evidence/<id>.json, known findings in /verif/known_findings.json. '
                 'See DESIGN.md.',
    }
    with open(os.path.join(HERE, 'MANIFEST.json'), 'w') as f:
        json.dump(man, f, indent=1)
        f.write('\n')


if __name__ == '__main__':
    main()
