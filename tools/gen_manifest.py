#!/usr/bin/env python3
"""Regenerates /verif/MANIFEST.json from the table below (kept next to the checks so that the two cannot drift)."""
import json
import os

HERE = os.path.dirname(os.path.dirname(os.path.abspath(__file__)))

# id: (level category, technique, text, note, design_ref)
CHECKS = {
    'C05': ('model_checking',
            'bounded exhaustive enumeration of dt-proposal scripts x clock product on the real solver; reference clock + reference integrator',
            'Every proposal script up to depth 3 (quick) / 4 (thorough) over a 14-symbol alphabet (0, negative, NaN, +-inf, '
            'tiny, around dtmin/dtmax, remaining +-1ulp) x start time x duration x step fractions x iterator x stop schedule is '
            'executed on the real GenericModel.solve; all clauses of the statement are evaluated on the observed callback log and the '
            'accepted times must equal an independent reference clock bit for bit. State layouts and Coupler orders are enumerated '
            'likewise against a reference integrator.',
            'Clock product restricted to float-resolvable clocks (minFrac*duration >= 8 ulp). Derivative functions are linear '
            'per-component; user models with side effects outside the callbacks are out of scope.',
            '2/C05'),
    'C07': ('exploration',
            'full-product enumeration of grids x populations x growth fields x nucleation x dt against an independent loop reference',
            'Full Cartesian product over 1-4 (thorough: 6) size classes of per-class populations (0, sub-unit, unit, huge dynamic range), '
            'all 3^(n+1) per-face growth sign patterns plus physical 1/R laws with the critical radius below/inside/above the grid, '
            'nucleation radii below/on/inside/above the grid, step sizes 0.5-1000x the model\'s own limit, dissolution indices and bin '
            'ratios; getdXdtEuler, correctdXdtEuler and getDTEuler of the real PopulationBalanceModel (and GrainGrowthModel) are compared '
            'with an independent scalar upwind implementation; conservation, placement of nuclei, the face limiter, non-negativity '
            'under the own step limit and argument immutability are evaluated on every point.',
            'Per-face growth magnitudes are equal within a sign pattern (unequal magnitudes appear through the physical laws only); '
            'grids are uniform as the PBM constructs them.',
            '2/C07'),
    'C08': ('model_checking',
            'explicit-state BFS over operation histories on the real PopulationBalanceModel with canonical-state dedup',
            'All histories up to depth 4 (quick) / 5 (thorough) over ~20 grid operations (extend by 1/3, re-mesh to half/double/fifth/cut/'
            'widened range, automatic adjustment with and without dissolution check, update with 7 distribution shapes, backup/revert, '
            'reset, load) from 3-4 base grids with adaptive binning and recording on/off; every reached state is rebuilt by replay on a '
            'fresh object, deduplicated by a canonical form containing every field the operations read, and checked for the grid '
            'invariants; every transition for its postcondition (extend leaves old classes untouched, re-mesh conserves M3 when the '
            'populated range is covered, adjust <= maxBins, reset/revert exact, recorded rows consistent, ...FromN purity).',
            'revert only after a backup since the last reset/re-mesh; manual re-meshing keeps >= minBins/2+1 classes; recording in '
            'adaptive mode only while bins <= maxBins (as the models guarantee).',
            '2/C08'),
    'C01': ('model_checking',
            'per-step trajectory monitoring of full configuration products on the real PrecipitateModel with owned (analytic) thermodynamics',
            'Every accepted step of every run of full Cartesian products of configurations (binary/ternary, 1-2 (thorough 3) phases, site '
            'types, Vm ratios, Euler/RK4, isothermal/heating/cooling/multi-segment schedules, infinite/no precipitate diffusion, 1 or 3 solve '
            'calls, shapes, PBM grids, adaptive on/off, preloaded PSD, default step growth) is a state on which the solute balance is '
            'evaluated from the distribution captured for that step, with molar volumes, Clemm-Fisher volume factors and precipitate '
            'compositions taken from the configuration/backend, not from the model; tolerance 1e-9 relative, also in the no-diffusion mode, where '
            'the solute of particles removed by the end-of-step clean-up is accounted for explicitly (that loss itself is a recorded known finding). '
            'A real-backend stage (Al-Zr on pycalphad, 2 quick / 6 thorough runs) binds the analytic environments to the real call protocol.',
            'Analytic dilute-ideal backends stand in for pycalphad (mc/synth_thermo.py); the monitor wraps three private methods on the '
            'instance it created (_calcMassBalance, _appendArrays, _calcNucleationRate) and fails loudly if they vanish; horizon 8000 steps.',
            '2/C01'),
    'C04': ('model_checking',
            'per-step trajectory monitoring of full configuration products on the real diffusion models with an owned environment',
            'Every accepted step of every run of the full product model x elements x mesh size x initial profile x boundary-condition mix per '
            'element and side x iterator x 1-3 solve calls x temperature specification is checked for: mesh-sum change == (J_left - '
            'J_right)*dt/dz per component, fixed-composition nodes bit-identical in every state and across solve calls, bounds, strictly '
            'increasing time stamps; analytic D(x)/mobility providers for the large product, real pycalphad backends for a smaller one.',
            'For RK4 with a composition BC the flux identity is not asserted (copied flux differs per stage); configurations where '
            'HomogenizationModel raises for lack of any flux difference are excluded; clip steps are absent from the conservation product.',
            '2/C04'),
    'C06': ('exploration',
            'exhaustive lattice of closed-form ODE systems x step ladders x call paths; bit-exact stage-time and state-immutability checks',
            'Observed order of accuracy of both iterators on 9 closed-form systems (4 autonomous, 5 time-dependent incl. a temperature-ramp '
            'Arrhenius decay) from dyadic step ladders validated by an independent reference integrator; RK4 stage times compared bit for '
            'bit with (t, t+dt/2, t+dt/2, t+dt) over a (t,h) lattice through three call paths; state vector bytes compared before/after every '
            'iterator call, also when the derivative object aliases the state.',
            'Order is only measured where the reference integrator shows the asymptotic regime (errors above 1e-13).',
            '2/C06'),
    'C15': ('exploration',
            'exhaustive aspect-ratio lattice against numerical quadrature; argument-form product; BFS over ShapeFactor setter histories',
            'Semi-axes, equivalent-radius, thermodynamic (spheroid area) and kinetic (capacitance) factors of all four shapes compared with '
            'independent scipy quadrature over an aspect-ratio lattice on [1,100] dense near 1; continuity at 1 from the next float above; '
            '13 argument forms (scalars, lists, int/float/strided/0-d arrays) compared bitwise with scalar calls and for argument '
            'immutability; findRcrit residuals for bracketed roots; all ShapeFactor setter/query histories to closure against fresh objects.',
            'Quadrature tolerance 1e-8; continuity tolerance 1e-6 as the statement requires.',
            '2/C15'),
    'C02': ('model_checking',
            'per-step trajectory monitoring of full configuration products on the real PrecipitateModel (shared with C01)',
            'On every accepted step of every run of the C01 products: reported density / mean radius / volume fraction equal M0, M1/M0 '
            'and the scaled M3 of the distribution the row was computed from (1e-12); the PSD recorded for that step (looked up by its '
            'time stamp) sums to the reported density up to the documented removal of classes holding < 1 particle and nothing else '
            '(a class that went negative and was reset is reported); the density never rises by more than nucleation rate x step '
            '(for RK4 the largest stage rate), including steps on which the grid is extended or re-meshed.',
            'Same harness and assumptions as C01; volume factors are an independent transcription of Clemm-Fisher.',
            '2/C02'),
    'C09': ('model_checking',
            'explicit-state exploration of query histories on one long-lived thermodynamics object against fresh-object answers; BFS over HashTable operations',
            'All histories of length <= 3 (quick) / <= 4 (thorough) over 14-16 query symbols per database (four driving-force methods, '
            'interfacial composition, curvature/growth/impingement, inter- and tracer diffusivity with scalar/1-point/3-point arguments, '
            'removeCache on/off, clearCache) on Al-Zr, Cu-Ti, Ni-Cr-Al and Al-Mg-Si: the last answer must equal the answer of a fresh '
            'object (1e-8 rel; 1e-6 sampling), repeats are bit-identical, array == point-wise, argument arrays untouched. HashTable: BFS '
            'over add/get/enable/clear/setSensitivity on lattice points straddling rounding boundaries against an exact-integer-key model; '
            'SinglePhaseModel fluxes with cache on/off.',
            'Points are chosen where equilibria converge (listed in the evidence); the documented history dependence of curvatureFactor '
            'in the failing-equilibrium path is not asserted; tolerances derive from pycalphad\'s convergence criterion.',
            '2/C09'),
    'C10': ('exploration',
            'full composition-temperature lattice over the stable matrix region of every shipped system against finite differences of equilibrium chemical potentials',
            'At every lattice point of 11 system configurations (Ni-Cr, Ni-Al, Ni-Cr-Al in three element orders, Fe-Cr-Ni FCC/BCC, Al-Zr, '
            'Al-Mg-Si, Cu-Ti): dMudX vs 2nd-order central differences of getLocalEq potentials (1e-4), symmetry, positive definiteness, '
            'real positive eigenvalues of D, D vs an independent sum over mobility callables, tracer = R T M > 0, Darken relation for '
            'binaries, zero column sums of the mobility matrix, element-order equivariance; spinodal points excluded and counted.',
            'pycalphad\'s equilibria and mobility callables are trusted; lattice resolution 6-12 points per axis x 4 temperatures.',
            '2/C10'),
    'C14': ('exploration',
            'exhaustive lattices against an independent geometric reference; BFS over parameter-setter histories; per-step trajectory clause',
            'Clemm-Fisher factors of the three grain-boundary site types compared over a k lattice with bodies integrated by Gauss-Legendre '
            'quadrature (not with the closed forms), identity a - 2k b = 3c, k=0 limits, monotone volume factor, behaviour at/above the '
            'limit ratio; full product of driving forces x times x sites x k x gamma x Vm x T x Rmin x D x beta function through the real '
            'nucleation functions (finite, non-negative, zero for dG <= 0, incubation in [0,1] and rising, steady-state rate monotone in dG); '
            'available sites vs occupation on a real model; all setter histories to depth 3/4 against fresh objects; recorded nucleation '
            'rate zero whenever the recorded driving force is non-positive on every step of jump/ramp runs.',
            'k lattice stops at kmax(1-1e-6); quadrature reference used up to 0.999 kmax.',
            '2/C14'),
    'C16': ('exploration',
            'full product against an independent Mura-integral reference and closed forms; all setter permutations; every monomial of each quadrature rule',
            'Energy >= 0, cubic size and quadratic eigenstrain scaling, 6x6 vs fourth-rank, both 3x3 inverses, homogeneous-inclusion limit, '
            'closed forms and all 81 textbook Eshelby components for isotropic matrix + sphere, and an independent reference (Mura integral, '
            'equivalent inclusion in Mandel notation) for every other configuration of the product stiffness x rotation x semi-axes x precipitate '
            'stiffness x quadrature order x eigenstrain x scale; every order (4!,5!,6!) of the setters against a canonical order; every monomial '
            'up to the stated order of the three sphere rules (522k monomials); rank and modulus conversion round trips.',
            'KNOWN FINDING: the shipped Lebedev expansion is inexact (recorded, cannot be repaired without changing pinned test values); so that it '
            'does not mask the other clauses, those stages bind ElasticFactors.loadPoints to the shipped tables under a corrected orbit expansion. '
            'Orders in which the shape is chosen before the matrix stiffness are outside the documented use.',
            '2/C16'),
    'C17': ('exploration',
            'exhaustive synthetic lattices with exact rational references; by-name post-processing product; evaluation histories against fresh tables',
            'The five averaging rules on every column of a log lattice of mobilities (incl. undefined entries) x simplex lattice of fractions x '
            'all phase orders x labyrinth factors against exact Fraction arithmetic (bounds, ordering W- <= HS- <= HS+ <= W+, single-phase '
            'identity, lab(1)=W+); post-processing modes on every ordered stable subset against a by-name reference, table unchanged afterwards; '
            'every (point, mode) history of length <= 3 on one shared table on Fe-Cr-Ni and Ni-Cr-Al equals the fresh-table value.',
            'Bound/ordering clauses only for fully defined columns (as the code documents for undefined entries); ill-conditioned HS columns '
            '(contrast >= 1e15) counted, not asserted.',
            '2/C17'),
    'C03': ('model_checking',
            'configuration products with per-run well-formedness oracle; deviation-bounded enumeration of backend fault placements (fault_enumeration within model checking)',
            'config: full products of configurations (the C01 products, every single step-size constraint switched off and all off, two '
            'solver step-fraction settings, temperatures inside/on/outside the two-phase region, jumps up and down, the second impingement function, '
            'aspect ratio from elastic strain energy, distributions loaded above the solvus, two/six real Al-Zr runs, all site types, fixed '
            'and adaptive grids with PSD recording) - every run must terminate at exactly the requested time with strictly increasing '
            'time stamps, equal-length finite histories, non-negative PSDs at every step, fractions/compositions in range. faults: for '
            'each backend method every placement of 0 and 1 (thorough: also 2) documented "no result" answers among the first K=12 '
            '(thorough 40; pairs among 12) interceptable calls, on binary and ternary, both iterators, empty and preloaded PSD.',
            'Analytic backends; a fault is None for getGrowthAndInterfacialComposition, the previous/None impingement factor, (None, None) '
            'for getDrivingForce and the -1 marker for getInterfacialComposition; horizon 40000 steps (temperature jumps 20000, fault runs 12000) = non-termination; terminating runs of the products need at most 9533. '
            'KNOWN FINDING: ternary/RK4/temperature jump stays at the minimum step (recorded).',
            '2/C03'),
    'C18': ('model_checking',
            'exhaustive formula lattices against separately written edge/screw references; per-step monitoring of grain-growth and coupled runs',
            'formulas: theta x all subsets of the five cutting contributions x phase addressing x line-tension model over an 11x9 radius x '
            'spacing lattice (incl. 0, sub-core radii, spacing below the core) - every contribution finite and >= 0, min rule, total >= '
            'parts and monotone, mixed-dislocation formulas reduce to independent edge (90 deg) and screw (0 deg) references. grain: size '
            'distributions x drag levels x grids x iterators, every accepted grain step is a state (third moment 1, |cG| <= |g|, sign, '
            'frozen beyond the freezing drag, mean size non-decreasing at z=0). coupled: analytic precipitation host with a StrengthModel '
            'and a GrainGrowthModel attached, 1-3 solve calls: after every host step history lengths equal host steps+1 and the grain '
            'clock equals the host clock.',
            'Edge/screw references for J=1; tolerance 4e-5 / 8e-3 where kawin\'s own formula carries a rounded literal.',
            '2/C18'),
    'C20': ('model_checking',
            'full product of model x recording x save point x file name round trips compared bit for bit; surrogate product over a recording stub',
            'Precipitation (1-3 phases, binary/ternary), SinglePhase and Homogenization models: save after solve call 1/2/3 with/without '
            'extension, load into a fresh model of the same configuration, every saved array / PBM field / aspect ratio / profile compared '
            'bit for bit. Surrogates (General/Binary/Multicomponent) over a recording stub and Al-Zr: every subset of trainable quantities '
            'x grid (linear/log/single, broadcast) - untrained getters must call the same-named method with the same arguments and hand '
            'back the identical object, trained ones reproduce training targets (1e-6), reloaded ones predict identically.',
            'The continuation of a reloaded model is observed but not asserted (not part of the statement; hidden state is not saved).',
            '2/C20'),
    'C11': ('exploration',
            'every permutation of solutes (real ternary databases) and of precipitate phases (analytic backends) compared with the identity order',
            'elements: Ni-Cr-Al and Al-Mg-Si in both solute orders over a (T, x1, x2) lattice - four driving-force methods, interfacial '
            'composition, curvature outputs, growth, impingement, inter- and tracer diffusivity (scalar and array API), mobility equal after '
            'permutation (1e-8 rel); SinglePhase/Homogenization runs on N=5 nodes with permuted element order. phases: every order (2 + 6) of '
            '2 and 3 precipitate phases with per-phase parameters travelling with the phase, both iterators, binary and ternary, each '
            'step-size constraint made the binding one in turn: same time grid (1e-9) and per-phase histories merely permuted (1e-7).',
            'Phase order changes summation order by ~1 ulp; the comparison horizon is measured per case with ulp-perturbed twins and steps '
            'beyond it are counted as not compared; only the solutes are permuted (the reference element stays first).',
            '2/C11'),
    'C12': ('exploration',
            'T x Gibbs-Thomson energy x supersaturation lattices on real and analytic binaries; per-step growth-sign oracle on monitored precipitation states',
            'binary: Al-Zr, Cu-Ti and the analytic binary - DF(x_alpha(T,g)) = g (+1 J/mol offset) wherever x_alpha is not the sentinel, sign '
            'change at the planar solvus, DF strictly increasing in x, x_alpha monotone in g, the sentinel sticky, four methods agree in sign '
            'outside a stated band and in value for the stoichiometric phase. states: in every monitored state of analytic binary and '
            'ternary runs with positive driving force and Rcrit > Rmin the growth rate is > 0 at least one class above Rcrit and < 0 at '
            'least one class below.',
            'The curvature method is a documented first-order expansion (value compared near the solvus only); binary non-isothermal states '
            'use the interval Rcrit(T +- maxTempChange) as the lookup contract allows.',
            '2/C12'),
    'C13': ('model_checking',
            'per-step trajectory monitoring of full schedule x specification-route products; exact inversion of the lookup-table temperature on the analytic backend',
            'schedule: constant / (hours, K) break points / functions x system x phases x iterator x solve calls, each through six ways of '
            'specifying it (setter, constructor object, mutated object and combinations): recorded temperature equals the schedule bit for bit, '
            'the isothermal flag agrees, histories identical to the setter route. lookup: binary ramps +-{0.1, 5, 100, 3000} K/h, holds, saw-tooth '
            'x maxTempChange {1,5} x maxNonIsothermalDT x iterator: at every step the temperature at which the planar and every per-class '
            'interfacial composition in use was computed (recovered exactly, T = x_e^-1) lies within maxTempChange of the current temperature; '
            'Al-Zr conformance against an independently tabulated solvus; SinglePhase/Homogenization models: every temperature reaching the '
            'environment equals the schedule (constant, array, field T(z,t)).',
            'Analytic binary backend for the exact inversion; two-phase RK4 excluded from the lookup product (horizon), present in the schedule stage.',
            '2/C13'),
    'C19': ('model_checking',
            'per-step trajectory monitoring of condition x inequality x threshold-class x selection x combination-mode products against an independent scan of the history',
            'For every monitored quantity (volume fraction, radius, driving force, nucleation rate, density, composition) x both inequalities x '
            'thresholds met at start / early / late / never x phase or element selection x or/and, and for pairs/triples in mixed modes: the run '
            'has exactly the number of steps an independent scan of the free run\'s history predicts (or reaches the end time), the stopped run '
            'is a bit-identical prefix of the free run, conditions latch (checked at every accepted step), the reported time equals the linear '
            'interpolation and lies inside the crossing step, reset clears latches; the TTP calculator over 3 temperatures equals 3 independent runs.',
            'Analytic backends; thresholds are derived from a free run of each configuration.',
            '2/C19'),
}

NOT_YET = {}

# alphabet / oracle extensions made after the first version of each check (blind-seed rounds 3-4 and the coverage audit, DESIGN.md 6.2)
ADDED = {
    'C01': 'Added products: floor (positive minComposition crossed by the matrix content) and options (effective diffusion distance off, incubation scaling, status printing); reconfigure (minRadius raised between the solve calls of a split run: a preloaded population is discarded in one step).',
    'C02': 'Added product: options (as C01).',
    'C03': 'Added: options and floor products, two-phase fault bases, concentrated-alloy group in which the cap of the volume fraction at 1 acts.',
    'C04': 'Added: fixed-composition boundary values 0 and 1, boundary types by name, runs with recording off, bounds of the initial state; stage isolation (two model objects in one case: configure model A, then run a default model B under the full oracle) and stage reconfigure (minComposition changed between consecutive solve calls).',
    'C05': 'Added: stop request from every member position of a Coupler, status printing (verbose) clock cases.',
    'C06': 'Added: proposed step that depends on the derivative in the stage-time lattice; the clock advances by the step of the final update.',
    'C08': 'Added operations: re-meshes that move the lower end of the grid, setPSDtoRecordedTime (first / last / between rows), recording off/on.',
    'C09': 'Added: an undersaturated query point, Ni-Al binary with reversed composition index, curvature interfacial method, search-direction branch of curvatureFactor; stage near-T-hist (histories over one composition at temperatures 0.25 K and 0.01 K apart).',
    'C10': 'Added systems: Cu4Ti (five atoms per formula unit, curvature only), user-supplied mobility functions, interstitial sublattice (harness-owned database); every point also in a second argument form (composition including the reference element, bare scalar for binaries).',
    'C11': 'Added stage interstitial (harness-owned (FE,CR)(C,N,VA) database, independent M_k u_k value).',
    'C12': 'Added: Ni-Al binary (reversed composition index), stage tarrays (temperature arrays incl. thermal cycles vs scalar calls), states with elastic strain energy.',
    'C14': 'Added: zero rate for non-positive driving force at every time of the lattice, integer-typed driving forces, range clauses with the default impingement function; stage shaped (barrier of needle / plate / cuboidal precipitates at a given aspect ratio, whatever aspect-ratio rule the precipitate carries).',
    'C16': 'Added stage intervals (mid-point quadrature on the full sphere and on a single quadrant); stage quadrature-switch (histories over the quadrature setters of one description object vs a fresh object); unequal numbers of phi / theta intervals.',
    'C17': 'Added stage dispatch (rule / post-processing selected by name, by constant, through the setters).',
    'C18': "Added: fitting factor alpha != 1 in the grain product, reduction of the mixed formulas to the library's own edge/screw methods.",
    'C19': 'Added: runs after an earlier condition set was registered and cleared, TTP through the pool protocol.',
    'C20': 'Added: the same surrogate object trained a second time on other targets, queried first at the last condition.',
}


def main():
    props = [json.loads(l) for l in open(os.path.join(HERE, 'properties.jsonl'))]
    checks = []
    na = []
    for p in props:
        pid = p['id']
        if pid in CHECKS:
            cat, tech, text, note, ref = CHECKS[pid]
            checks.append({
                'property_id': pid,
                'quick_cmd': './run %s quick' % pid,
                'thorough_cmd': './run %s thorough' % pid,
                'evidence_file': '/verif/evidence/%s.json' % pid,
                'replay_cmd_template': './run %s --replay {path}' % pid,
                'engine': 'mc',
                'level_claimed': {'category': cat, 'text': text + ((' ' + ADDED[pid]) if pid in ADDED else ''), 'design_ref': 'DESIGN.md section ' + ref},
                'level_note': note,
                'technique': tech,
            })
        else:
            na.append({'property_id': pid, 'reason': NOT_YET.get(pid, 'check not built yet (work in progress; see DESIGN.md section 2/%s for the planned bounded exhaustive check)' % pid)})
    man = {
        'version': 1,
        'setup_cmd': 'cd /verif && /venv/bin/python -c "import kawin, numpy, scipy; print(kawin.__file__)"',
        'hooks': {
            'guard': 'KAWIN_VERIF',
            'enable': 'no source hooks are needed; checks import /repo\'s working tree through the editable install (KAWIN_VERIF=1 is exported by ./run but nothing in /repo reads it)',
            'baseline_off_cmd': 'cd /repo && /venv/bin/python -m pytest -ra -q -p no:cacheprovider --timeout=900 --continue-on-collection-errors',
            'source_commits': [],
            'add_only': True,
        },
        'engines': [
            {'name': 'mc', 'path': '/verif/mc', 'serves_properties': sorted(CHECKS),
             'kind_free_text': 'hand-written bounded exhaustive explorer for Python: product enumerator (E1), BFS over operation '
                               'histories on fresh real objects with canonical-state dedup (E2), per-step trajectory monitor (E3), '
                               'owned thermodynamic environment with deviation-bounded fault enumeration (E4), TLC model with full '
                               'state-graph replay against the implementation (E5)'},
        ],
        'checks': checks,
        'not_applicable': na,
        'notes': 'All checks: ./run <id> quick|thorough, evidence in /verif/evidence/<id>.json, known findings in /verif/known_findings.json. '
                 'See DESIGN.md.',
    }
    with open(os.path.join(HERE, 'MANIFEST.json'), 'w') as f:
        json.dump(man, f, indent=1)
        f.write('\n')


if __name__ == '__main__':
    main()
