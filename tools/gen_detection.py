#!/usr/bin/env python3
"""Regenerates section 6.5 of DESIGN.md (between the DETECTION markers) from seeded/*/meta.json and mutants/RESULTS.json."""
import glob, json, os, re
HERE = os.path.dirname(os.path.dirname(os.path.abspath(__file__)))
out = []
out.append('### 6.5 Which checks catch which deliberate changes\n')
out.append('**Blind seeds** (`/verif/seeded/<id>/`: patch.diff, demo.py, NOTES.md, meta.json, confirm.log). Each was produced by a sub-agent that saw only the\n'
           'property text and its own worktree (rounds 2-4 additionally the list of the earlier changes to that property, to stay away from them;\n'
           'round 4 a steer towards rarely used options, alternative code paths and argument forms; round 5 = ids ending in e, one per\n'
           'property, produced in the continuation session with the same brief and steer; round 6 = ids ending in f, six properties, steered towards state\n'
           'carried between objects or calls and reconfiguration between solve calls), and was kept only after\n'
           '`tools/confirm_seed.sh` showed in a fresh worktree of /repo HEAD: the 97 repository tests pass with it, its demonstration fails with it\n'
           'and passes without it. "first" = verdict of the check as it stood when the seed arrived; every miss led to a strengthening of the check\n'
           '(never of the tolerance), after which the seed is caught by the **quick** tier.\n')
out.append('| seed | property | change (needs ... to manifest) | first | now | what catches it |')
out.append('|---|---|---|---|---|---|')
nmiss = 0
metas = sorted(glob.glob(os.path.join(HERE, 'seeded', '*', 'meta.json')))
for mp in metas:
    m = json.load(open(mp))
    sid = os.path.basename(os.path.dirname(mp))
    det = m.get('detected_by', '')
    missed = det.startswith('MISSED') or ('MISSED' in det and not det.startswith('C05 quick detected'))
    if det.startswith('C05 quick detected'):
        first = 'caught by C05, missed by C06'
        nmiss += 1
    elif missed:
        first = 'MISSED'
        nmiss += 1
    else:
        first = 'caught'
    what = det
    what = re.sub(r'^MISSED by the first version of C\d\d \((.*?)\); ', r'was missed because \1; ', what)
    change = m['change'] + ' *(needs: ' + m['needs'] + ')*'
    out.append('| %s | %s | %s | %s | caught | %s |' % (sid, m['property'], change.replace('|', '/'), first, what.replace('|', '/')))
out.append('\n%d seeds over %d properties; %d were missed (by the targeted check) when they arrived.\n' % (len(metas), len({json.load(open(x))['property'] for x in metas}), nmiss))
rp = os.path.join(HERE, 'mutants', 'RESULTS.json')
if os.path.exists(rp):
    res = json.load(open(rp))
    rows = {}
    for k, r in res.items():
        rows.setdefault(r['check'], []).append(r)
    out.append('**Hand-made mutants** (`/verif/mutants/Cxx/`; `m0_revert_*` reverses one fix commit, the others follow the "M" lists of section 2; last batch run of '
               '`tools/run_mutants.py`, quick tier, on scratch copies). exit 1 = detected, 0 = not detected, 3 = patch no longer applies.\n')
    out.append('| check | mutants run | detected | not detected / not applicable |')
    out.append('|---|---|---|---|')
    for c in sorted(rows):
        rs = [r for r in rows[c] if not r['patch'].startswith('seeded/')]
        det = [r for r in rs if r['exit'] == 1]
        oth = [r for r in rs if r['exit'] != 1]
        out.append('| %s | %d | %d | %s |' % (c, len(rs), len(det), '; '.join('%s (exit %d)' % (os.path.basename(r['patch']), r['exit']) for r in oth) or '-'))
text = '\n'.join(out) + '\n'
p = os.path.join(HERE, 'DESIGN.md')
s = open(p).read()
b, e = '<!-- DETECTION:BEGIN -->', '<!-- DETECTION:END -->'
if b in s:
    s = s[:s.index(b) + len(b)] + '\n' + text + s[s.index(e):]
else:
    s = s.rstrip('\n') + '\n\n' + b + '\n' + text + e + '\n'
open(p, 'w').write(s)
print('seeds', len(metas), 'missed-at-first', nmiss)
