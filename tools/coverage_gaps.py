import json, os, sys
props={json.loads(l)['id']:json.loads(l) for l in open('/verif/properties.jsonl')}
def ranges(ls):
    out=[];s=p=None
    for x in sorted(ls):
        if s is None: s=p=x
        elif x==p+1: p=x
        else: out.append((s,p)); s=p=x
    if s is not None: out.append((s,p))
    return ','.join('%d-%d'%r if r[0]!=r[1] else str(r[0]) for r in out)
for pid in sys.argv[1:]:
    try: d=json.load(open(os.path.join(os.environ.get('COV_OUT','/tmp/cov'),'%s.json'%pid)))
    except Exception as e: print(pid,'no data'); continue
    files=props[pid]['anchors']['files']
    print('==',pid)
    for f in files:
        k=[x for x in d['files'] if x.endswith(f)]
        if not k: print('  ',f,'NOT IN DATA'); continue
        fd=d['files'][k[0]]
        print('  %s: %d%% missing %s'%(f, fd['summary']['percent_covered'], ranges(fd['missing_lines'])))
