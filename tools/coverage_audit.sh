#!/bin/sh
# tools/coverage_audit.sh <outdir> <Cxx>   -- development aid, not a check: line coverage of /repo/kawin reached by the quick tier of
# one check (coverage.py 7 in /venv, sys.monitoring core; single process, because terminated pool workers lose their data), written to
# <outdir>/Cxx.json.  tools/coverage_gaps.py lists the lines of the files a property is anchored in that its check never executes -
# the places where an alphabet leaves a parameter at its default.  Run several in parallel:
#   printf '%s\n' C01 C02 C03 | xargs -P 8 -n 1 tools/coverage_audit.sh /tmp/cov
OUT="${1:-/tmp/cov}"; c="$2"
mkdir -p "$OUT/$c"
cat > "$OUT/$c/covrc" <<EOC
[run]
source = /repo/kawin
data_file = $OUT/$c/.coverage
omit = */tests/*
EOC
cd /verif
PYTHONHASHSEED=0 OMP_NUM_THREADS=1 OPENBLAS_NUM_THREADS=1 MKL_NUM_THREADS=1 MPLBACKEND=Agg KAWIN_VERIF=1 \
VERIF_NPROC=1 VERIF_EVIDENCE_DIR="$OUT/$c/ev" VERIF_REPLAY_DIR="$OUT/$c/rp" COVERAGE_CORE=sysmon \
/venv/bin/python -W ignore -m coverage run --rcfile="$OUT/$c/covrc" -m mc.runner "$c" quick 2>&1 | grep -E "^$c quick|VIOLATION|HARNESS" | cut -c1-160
( cd "$OUT/$c" && /venv/bin/python -m coverage json --rcfile=covrc -o "$OUT/$c.json" -q >/dev/null 2>&1 )
echo "COVDONE $c"
