#!/bin/sh
# tools/confirm_seed.sh <seed-id> <dir with patch.diff + demo.py [+ NOTES.md]> <Cxx> [more Cxx...]
# Confirms a seeded change in a fresh scratch worktree of /repo HEAD (outside /repo and /verif): existing tests pass with it,
# demo fails with it and passes without it; then runs the named checks against a scratch copy with the patch.
# Writes /verif/seeded/<seed-id>/{patch.diff,demo.py,NOTES.md,meta.json,confirm.log}.  Removes the worktree.
set -u
ID="$1"; SRC="$(realpath "$2")"; shift 2; CHECKS="$*"
WT="/tmp/confirm_$ID"; OUT="/verif/seeded/$ID"; mkdir -p "$OUT"
cp "$SRC/patch.diff" "$SRC/demo.py" "$OUT/" ; [ -f "$SRC/NOTES.md" ] && cp "$SRC/NOTES.md" "$OUT/"
LOG="$OUT/confirm.log"; : > "$LOG"
git -C /repo worktree remove --force "$WT" 2>/dev/null
git -C /repo worktree add -q "$WT" HEAD >> "$LOG" 2>&1 || exit 9
HEAD=$(git -C /repo rev-parse --short HEAD)
cd "$WT"
if ! git apply "$OUT/patch.diff" >> "$LOG" 2>&1; then echo "seed $ID: PATCH DOES NOT APPLY on $HEAD" | tee -a "$LOG"; cd /; git -C /repo worktree remove --force "$WT"; exit 3; fi
WHERE=$(/venv/bin/python -c "import sys,os; sys.path.insert(0, os.getcwd()); import kawin; print(kawin.__file__)")
echo "kawin imported from $WHERE" >> "$LOG"
PYTHONHASHSEED=0 /venv/bin/python -m pytest -q -p no:cacheprovider kawin/tests > "$OUT/.pytest.out" 2>&1; T_RC=$?
tail -1 "$OUT/.pytest.out" >> "$LOG"; TESTLINE=$(tail -1 "$OUT/.pytest.out"); rm -f "$OUT/.pytest.out"
cp "$OUT/demo.py" "$WT/demo_seed.py"
timeout 600 /venv/bin/python demo_seed.py > "$OUT/.demo_with.out" 2>&1; D_WITH=$?
git apply -R "$OUT/patch.diff"
timeout 600 /venv/bin/python demo_seed.py > "$OUT/.demo_without.out" 2>&1; D_WITHOUT=$?
echo "--- demo with change (exit $D_WITH):" >> "$LOG"; tail -5 "$OUT/.demo_with.out" >> "$LOG"
echo "--- demo without change (exit $D_WITHOUT):" >> "$LOG"; tail -3 "$OUT/.demo_without.out" >> "$LOG"
rm -f "$OUT/.demo_with.out" "$OUT/.demo_without.out"
cd /; git -C /repo worktree remove --force "$WT"
RES=""
for C in $CHECKS; do
  VERIF_NPROC="${VERIF_NPROC:-8}" /verif/tools/mutant_run.sh "$OUT/patch.diff" "$C" quick > "$OUT/.check.out" 2>&1; RC=$?
  echo "--- check $C quick on patched copy: exit $RC" >> "$LOG"; grep -E "sig=" "$OUT/.check.out" | head -5 >> "$LOG"
  RES="$RES $C=$RC"; rm -f "$OUT/.check.out"
done
echo "seed $ID on $HEAD: tests_rc=$T_RC ($TESTLINE) demo_with=$D_WITH demo_without=$D_WITHOUT checks:$RES" | tee -a "$LOG"
